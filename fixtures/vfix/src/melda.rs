use rayon::prelude::*;
use std::collections::HashMap;
use std::sync::{Mutex, MutexGuard, RwLock};

pub struct Melda {
    a: Mutex<Vec<u32>>,
    b: Mutex<Vec<u64>>,
    rw: RwLock<u32>,
    map: HashMap<String, u32>,
}

pub struct Holder<'a> {
    /// C08/R3: a guard stored in a struct
    g: MutexGuard<'a, Vec<u32>>,
}

impl Melda {
    /// C08/R1: re-locks a Mutex it already holds
    pub fn relock(&self) -> usize {
        let g = self.a.lock().unwrap();
        let h = self.a.lock().unwrap();
        g.len() + h.len()
    }

    /// C08/R1: write under read of the same RwLock
    pub fn upgrade(&self) -> u32 {
        let r = self.rw.read().unwrap();
        let mut w = self.rw.write().unwrap();
        *w += *r;
        *w
    }

    /// C08/R3: returns a guard
    pub fn leak(&self) -> MutexGuard<'_, Vec<u32>> {
        self.a.lock().unwrap()
    }

    fn ab(&self) {
        let x = self.a.lock().unwrap();
        let y = self.b.lock().unwrap();
        let _ = x.len() + y.len();
    }

    fn ba(&self) {
        let y = self.b.lock().unwrap();
        let x = self.a.lock().unwrap();
        let _ = x.len() + y.len();
    }

    /// C08/R2: tasks of one parallel region lock a,b in opposite orders
    pub fn cycle(&self, v: &[u32]) {
        v.par_iter().for_each(|i| {
            if i % 2 == 0 {
                self.ab()
            } else {
                self.ba()
            }
        });
    }

    /// C08/R2: enters rayon while holding an exclusive guard, inside a task
    pub fn nested(&self, v: &[u32]) {
        v.par_iter().for_each(|_| {
            let g = self.a.lock().unwrap();
            v.par_iter().for_each(|j| {
                let _ = j + g.len() as u32;
            });
        });
    }

    /// C18/D2: positional accumulation on shared state from parallel tasks + thread identity
    pub fn racy_collect(&self, v: &[u32]) -> Vec<u32> {
        let out = Mutex::new(Vec::new());
        v.par_iter().for_each(|i| {
            let t = rayon::current_thread_index().unwrap_or(0) as u32;
            out.lock().unwrap().push(*i + t);
        });
        out.into_inner().unwrap()
    }

    /// C18/D1: hash-map order reaches a positional sink / a first-match consumer
    pub fn ordered_from_hash(&self) -> (Vec<String>, Option<u32>) {
        let mut out = Vec::new();
        for (k, _) in &self.map {
            out.push(k.clone());
        }
        let first = self.map.values().find(|v| **v > 1).copied();
        (out, first)
    }
}
