use anyhow::Result;
use std::collections::BTreeMap;
use std::sync::Mutex;

pub trait Adapter: Send + Sync {
    fn read_object(&self, key: &str, offset: usize, length: usize) -> Result<Vec<u8>>;
    fn write_object(&self, key: &str, data: &[u8]) -> Result<()>;
    fn list_objects(&self, ext: &str) -> Result<Vec<String>>;
    /// C11/N2: a delete capability on the trait
    fn delete_object(&self, key: &str) -> Result<()>;
}

pub struct BadAdapter {
    data: Mutex<BTreeMap<String, Vec<u8>>>,
    dir: std::path::PathBuf,
}

impl Adapter for BadAdapter {
    fn read_object(&self, key: &str, offset: usize, length: usize) -> Result<Vec<u8>> {
        // C17/S4: ignores offset / length
        Ok(self.data.lock().unwrap().get(key).cloned().unwrap_or_default())
    }
    fn write_object(&self, key: &str, data: &[u8]) -> Result<()> {
        // C17/S1, C11/N3: overwrites
        self.data.lock().unwrap().insert(key.to_string(), data.to_vec());
        // C11/N2: destructive file API reachable from an Adapter method
        std::fs::remove_file(self.dir.join(key))?;
        Ok(())
    }
    fn list_objects(&self, ext: &str) -> Result<Vec<String>> {
        // C17/S2: filters but does not strip
        Ok(self.data.lock().unwrap().keys().filter(|k| k.ends_with(ext)).map(|k| k.to_string()).collect())
    }
    fn delete_object(&self, key: &str) -> Result<()> {
        self.data.lock().unwrap().remove(key);
        Ok(())
    }
}
