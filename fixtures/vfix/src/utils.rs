use serde_json::Value;

/// C06/M1: the merge drops elements of the destination
pub fn merge_arrays(order_m: &[Value], order_n: &mut Vec<Value>) {
    order_n.retain(|e| !order_m.contains(e));
    for t in order_m {
        order_n.push(t.clone());
    }
}
