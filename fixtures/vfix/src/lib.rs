//! Positive examples for rules whose expected number of matches on libmelda is zero.
//! The crate is named `melda` and mirrors a few module / type names so that the rules, which address the
//! repository by resolved paths, apply unchanged. It is only type-checked by the mirfacts driver.
#![allow(dead_code, unused_variables, unused_mut)]
pub mod adapter;
pub mod datastorage;
pub mod melda;
pub mod revision;
pub mod utils;
