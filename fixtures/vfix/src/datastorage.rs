pub struct DataStorage {
    pub stage: Vec<u8>,
}
