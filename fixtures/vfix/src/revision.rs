pub struct Revision {
    index: u32,
    digest: String,
    tail: Option<String>,
}

impl Revision {
    /// C19/P1: identifier depends on the clock and on a pointer value
    pub fn new<T: Into<String>>(index: u32, digest: T, parent: Option<&Revision>) -> Revision {
        let now = std::time::SystemTime::now().duration_since(std::time::UNIX_EPOCH).unwrap().as_secs();
        let addr = parent.map(|p| p as *const Revision as usize).unwrap_or(0);
        Revision { index, digest: digest.into(), tail: Some(format!("{}{}", now, addr)) }
    }
}
