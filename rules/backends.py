"""Analyses of the storage backends (`impl Adapter for T`), shared by C11 and C17."""
from .cfg import cfg_of
from .defuse import du_of, walk, peel, callee_name, fmt
from .conds import lits_of
from .callgraph import cg_of
from .common import arg_term, contains_call, call_named, ADAPTER_TRAIT, field_path

METHODS = ("read_object", "write_object", "list_objects")


class Backend:
    def __init__(self, facts, impl):
        self.facts = facts
        self.self_ty = impl["self_ty"]
        self.methods = {}
        for m in impl["methods"]:
            b = facts.body(m["path"])
            if b is not None:
                self.methods[m["name"]] = b
        self.kind = None     # 'leaf' | 'wrapper'
        self.delegates = {}  # method -> [names of Adapter methods it calls]
        for n, b in self.methods.items():
            ds = []
            for body in [b] + facts.closures_of(b.path):
                for bi, t in body.calls():
                    c = t.callee
                    if c is not None and c.trait == ADAPTER_TRAIT and c.name in METHODS:
                        ds.append(c.name)
            self.delegates[n] = ds
        w = self.delegates.get("write_object", [])
        self.kind = "wrapper" if "write_object" in w else "leaf"

    def name(self):
        return self.self_ty.split("<")[0].rsplit("::", 1)[-1] if not self.self_ty.startswith("std::sync::Arc") else "DynAdapter"

    def reach(self, method):
        """bodies (in repo) reachable from the method without crossing into another Adapter impl"""
        cg = cg_of(self.facts)
        b = self.methods.get(method)
        if b is None:
            return []
        seen = {b.path: b}
        stack = [b]
        while stack:
            x = stack.pop()
            for s in cg.sites[x.path]:
                if s.fanout:
                    continue
                for y in s.targets + s.closures:
                    if y.in_repo() and y.path not in seen and y.impl_trait != ADAPTER_TRAIT:
                        seen[y.path] = y
                        stack.append(y)
            for y in cg.creates[x.path]:
                if y.path not in seen:
                    seen[y.path] = y
                    stack.append(y)
        return list(seen.values())


def backends(facts):
    return [Backend(facts, im) for im in facts.impls_of(ADAPTER_TRAIT)]


# ----------------------------------------------------------------- effect classification
FS_WRITE = {"create", "write", "write_all", "flush", "set_len", "remove_file", "remove_dir", "remove_dir_all",
            "rename", "open", "truncate", "append", "create_new", "copy", "hard_link", "sync_all", "sync_data"}
CONTAINER_ONLY = {"create_dir_all", "create_dir"}
HTTP_WRITE = {"put", "delete", "patch", "post"}
SQL_EXEC = {"execute", "execute_batch", "prepare", "query_row", "query_map"}
CACHE_WRITE = {"put", "write_sync", "push"}
MAP_WRITE = {"insert", "remove", "clear", "retain", "entry", "append", "extend", "pop_first", "pop_last",
             "get_mut", "values_mut", "iter_mut", "remove_entry", "split_off"}


def classify_effect(t, body):
    """classification of an external call with a potential write effect on the store; None = no effect"""
    c = t.callee
    if c is None:
        return None
    p = c.path
    n = c.name
    k = c.krate
    if k == "std" or k == "core" or k == "alloc":
        if p.startswith("std::fs::") or "std::fs::File" in p or "std::fs::OpenOptions" in p:
            if n in CONTAINER_ONLY:
                return "container"
            if n in FS_WRITE:
                return "fs"
            return None
        if c.trait == "std::io::Write" and n in ("write", "write_all", "flush", "write_fmt"):
            st = c.self_ty or ""
            if "std::fs::File" in st:
                return "fs"
            return None
        if ("collections::BTreeMap" in p or "collections::HashMap" in p or "collections::BTreeSet" in p or
                "collections::HashSet" in p) and n in MAP_WRITE:
            return "map"
        return None
    if k == "rusqlite":
        if n in ("execute", "execute_batch"):
            return "sql"
        return None
    if k == "reqwest":
        if n in HTTP_WRITE:
            return "http:" + n
        return None
    if k == "cacache":
        if n.startswith("write") or n.startswith("remove") or n.startswith("clear"):
            return "diskcache"
        return None
    if k == "lru":
        if n in ("put", "push", "pop", "clear", "pop_lru"):
            return "memcache"
        return None
    return None


def sql_literals(body):
    """string constants passed to rusqlite calls in body"""
    out = []
    for bi, t in body.calls():
        c = t.callee
        if c is not None and c.krate == "rusqlite" and c.name in ("execute", "execute_batch", "prepare", "query_row"):
            for i in range(len(t.args)):
                for x in walk(arg_term(body, t, i, 8)):
                    if x[0] == "const" and x[1] == "str" and " " in x[2]:
                        out.append((x[2], bi, t))
    return out


def key_derived(t, names=("key",)):
    """term mentions the `key` parameter (or an upvar / variable derived from it)"""
    for x in walk(t):
        if x[0] in ("param", "upvar") and x[2] in names:
            return True
    return False


def absence_lits(body, block, facts, names=("key",)):
    """dominating literals that assert absence of the key: contains_key/contains/exists == false,
    or HTTP status != 200 on a HEAD of a key-derived url"""
    out = []
    for l in lits_of(body, block, facts):
        if l.kind == "call":
            n = callee_name(l.term)
            if n in ("contains_key", "contains", "exists", "try_exists") and l.truth is False:
                if any(key_derived(a, names) for a in l.term[2]):
                    out.append(l)
            if n in ("ne", "eq") and l.truth == (n == "ne"):
                if _status_200(l.term[2]) and any(contains_call(a, "head") and key_derived(a, names) for a in l.term[2]):
                    out.append(l)
        elif l.kind == "cmp" and l.term[1] in ("Ne", "Eq") and l.truth == (l.term[1] == "Ne"):
            if _status_200([l.term[2], l.term[3]]) and any(contains_call(a, "head") and key_derived(a, names) for a in (l.term[2], l.term[3])):
                out.append(l)
    return out


def _status_200(args):
    for a in args:
        for x in walk(a):
            if x[0] == "const" and x[1] == "int" and x[2] == 200:
                return True
    return False
