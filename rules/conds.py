"""Decoding of branch conditions: for every block, the list of literals (decoded switch edges)
that dominate it."""
from .cfg import cfg_of
from .defuse import du_of, peel, callee_name, walk

OK_VARIANTS = {"Ok", "Some", "Continue"}
ERR_VARIANTS = {"Err", "None", "Break"}


class Lit:
    """one decoded switch edge"""
    __slots__ = ("kind", "term", "truth", "variants", "block", "raw", "value", "adt", "edge", "implied", "derived", "parent", "inner_derived")

    def __init__(self, kind, term, truth=None, variants=None, block=None, raw=None, value=None, adt=None):
        self.kind = kind          # 'call' | 'variant' | 'cmp' | 'flag' | 'other'
        self.term = term          # call term / subject of the discriminant / binop term
        self.truth = truth        # for call/cmp/flag
        self.variants = variants  # for variant: set of variant names possible on this edge
        self.block = block        # switch block
        self.raw = raw
        self.value = value
        self.adt = adt
        self.edge = None
        self.implied = False   # True: not a dominating edge, holds on every feasible path (pathcond)
        self.derived = False   # True: a consequence of another literal (summary of a crate predicate / fallible helper)
        self.parent = None     # for derived literals: the literal they were derived from
        self.inner_derived = False

    def __repr__(self):
        from .defuse import fmt
        if self.kind == "variant":
            return "<%s is %s @bb%d>" % (fmt(self.term, 4), "|".join(sorted(self.variants)), self.block)
        return "<%s %s = %s @bb%d>" % (self.kind, fmt(self.term, 4), self.truth, self.block)

    # ---- helpers used by rules
    def is_call(self, name, truth=None):
        if self.kind != "call":
            return False
        n = callee_name(self.term)
        ok = n == name if isinstance(name, str) else n in name
        return ok and (truth is None or self.truth == truth)

    def subject(self):
        """the value this literal talks about (receiver of the call / matched value), peeled"""
        if self.kind == "call":
            return peel(self.term[2][0]) if self.term[2] else None
        if self.kind == "variant":
            return peel(self.term)
        return None

    def says_ok(self):
        """literal asserts that its subject is Ok/Some/Continue"""
        if self.kind == "variant":
            return bool(self.variants) and self.variants <= OK_VARIANTS
        if self.kind == "call":
            n = callee_name(self.term)
            if n in ("is_ok", "is_some"):
                return self.truth is True
            if n in ("is_err", "is_none"):
                return self.truth is False
        return False

    def says_err(self):
        if self.kind == "variant":
            return bool(self.variants) and self.variants <= ERR_VARIANTS
        if self.kind == "call":
            n = callee_name(self.term)
            if n in ("is_ok", "is_some"):
                return self.truth is False
            if n in ("is_err", "is_none"):
                return self.truth is True
        return False


def _strip_var(t):
    while t[0] in ("var", "cast") or (t[0] == "phi" and len(t[1]) == 1):
        t = t[3] if t[0] == "var" else (t[1] if t[0] == "cast" else t[1][0])
    return t


def decode(body, sblock, value, facts):
    """decode the edge `value` (None = otherwise) of the switch terminating block sblock"""
    du = du_of(body)
    term = body.blocks[sblock].term
    t = du.operand_term(term.discr, 26)
    targets = [v for (v, _) in term.j["targets"]]
    is_bool = term.j.get("discr_ty") == "bool"
    if term.kind == "assert":
        truth = bool(term.j["expected"])
        return _decode_bool(_strip_var(t), truth, sblock, t)
    # truth for bool switches
    if is_bool:
        if value is None:
            truth = True if 0 in targets else (False if 1 in targets else None)
        else:
            truth = value != 0
        return _decode_bool(_strip_var(t), truth, sblock, t)
    s = _strip_var(t)
    if s[0] == "discr":
        adt = s[2]
        subj = s[1]
        allv = facts.adts.get(adt, {}).get("variants", []) if adt else []
        if value is None:
            names = {v["name"] for v in allv if v["discr"] not in targets}
        else:
            names = {v["name"] for v in allv if v["discr"] == value}
        # `?` operator: the discriminant of Try::branch(x) talks about x
        ps = _strip_var(subj)
        if ps[0] == "call" and callee_name(ps) == "branch" and ps[2]:
            return Lit("variant", ps[2][0], None, names, sblock, t, value, adt)
        return Lit("variant", subj, None, names, sblock, t, value, adt)
    # `match x { 2 => .., 3 => .., _ => .. }` on an integer: the value edge asserts x == value
    if value is not None and term.j.get("discr_ty") in ("usize", "u32", "u64", "i32", "i64", "u8", "isize", "u16", "i16", "i8"):
        return Lit("cmp", ("binop", "Eq", s, ("const", "int", value, term.j.get("discr_ty"))), True, None, sblock, t, value)
    return Lit("other", s, None, None, sblock, t, value)


def _decode_bool(s, truth, sblock, raw):
    while s[0] == "unop" and s[1] == "Not":
        s = _strip_var(s[2])
        truth = (not truth) if truth is not None else None
    # x == true / x == false / x != true / x != false  ->  x / !x
    while s[0] == "binop" and s[1] in ("Eq", "Ne"):
        a, b = _strip_var(s[2]), _strip_var(s[3])
        k = None
        if b[0] == "const" and b[1] == "bool":
            k, other = b[2], a
        elif a[0] == "const" and a[1] == "bool":
            k, other = a[2], b
        if k is None:
            break
        same = (s[1] == "Eq") == bool(k)
        s = other
        if not same and truth is not None:
            truth = not truth
        while s[0] == "unop" and s[1] == "Not":
            s = _strip_var(s[2])
            truth = (not truth) if truth is not None else None
    if s[0] == "call":
        return Lit("call", s, truth, None, sblock, raw)
    if s[0] == "binop":
        return Lit("cmp", s, truth, None, sblock, raw)
    if s[0] == "phi" or s[0] == "const":
        return Lit("flag", s, truth, None, sblock, raw)
    return Lit("other", s, truth, None, sblock, raw)


def lits_of(body, block, facts):
    """decoded literals of all switch edges dominating `block` (outermost first).
    Bool temporaries assigned `true`/`false` in exactly one place each (matches!, let x = a && b)
    are refined: the literals dominating the assignment site are added."""
    key = ("lits", block)
    c = body._cache.get(key)
    if c is not None:
        return c
    cfg = cfg_of(body)
    out = []
    single = set()
    for (s, k, v, tgt) in cfg.dominating_edges(block):
        lit = decode(body, s, v, facts)
        lit.edge = (s, k, v, tgt)
        out.append(lit)
        single.add(s)
        if lit.kind == "flag" and lit.truth is not None:
            out.extend(_refine_flag(body, s, lit.truth, facts))
    # or-patterns (`A | B => ..`, matches!(x, A | B)): several edges of one enum switch lead to the block; the union of
    # their variants holds there although no single edge dominates it
    for sb in cfg.dominators_of(block):
        if sb >= cfg.n or sb in single or sb == block:
            continue
        term = body.blocks[sb].term
        if term.kind != "switch" or term.j.get("discr_ty") == "bool":
            continue
        edges = term.switch_edges()
        if len(edges) < 3:
            continue
        via = []
        for k, (v, tgt) in enumerate(edges):
            e = cfg.edge_nodes.get((sb, k))
            if e is not None and cfg.reaches(e, block, avoid={sb}):
                via.append((k, v, tgt))
        if not via or len(via) == len(edges):
            continue
        lits = [decode(body, sb, v, facts) for (k, v, tgt) in via]
        if all(l.kind == "variant" and l.variants is not None for l in lits):
            u = Lit("variant", lits[0].term, None, set().union(*[l.variants for l in lits]), sb, lits[0].raw, None, lits[0].adt)
            u.edge = (sb, via[0][0], via[0][1], via[0][2])
            out.append(u)
    # filtered iteration: `for x in it.filter(|x| p(x))` - what the predicate guarantees on its true result holds for
    # the element in the loop body (the closure's parameter is replaced by the loop's next() term, captures by their values)
    for l0 in list(out):
        if l0.kind == "variant" and l0.variants == {"Some"}:
            pt = _strip_var(l0.term)
            if pt[0] == "call" and callee_name(pt) == "next":
                for x in walk(pt):
                    if x[0] == "call" and callee_name(x) == "filter" and len(x[2]) >= 2:
                        c_ = x[2][1]
                        hops = 0
                        while hops < 20 and c_[0] in ("ref", "deref", "cast", "var"):
                            hops += 1
                            c_ = c_[3] if c_[0] == "var" else c_[1]
                        if c_[0] == "closure":
                            out.extend(_filter_lits(c_, pt, facts))
    # path-sensitive facts: conditions computed into a bool flag first and tested later, edges common to every feasible path
    try:
        from .pathcond import implied_lits
        extra, explained = implied_lits(body, block, facts)
    except RecursionError:
        extra, explained = [], set()
    have = {(l.edge[0], l.edge[1]) for l in out if l.edge and l.kind != "flag"}
    for l in extra:
        if isinstance(l.value, tuple) and l.value and l.value[0] == "A":
            out.append(l)
            continue
        if l.kind == "flag":
            continue
        if l.edge is not None and (l.edge[0], l.edge[1]) in have:
            continue
        out.append(l)
    out = [l for l in out if not (l.kind == "flag" and l.block in explained)]
    for l in out:
        _normalise_lit(l)
    if body.kind == "closure":
        out += chain_entry_lits(body, facts)
    out += expand_predicates(out, facts, body)
    body._cache[key] = out
    return out


_CMP_OPS = ("Eq", "Ne", "Lt", "Le", "Gt", "Ge")


def _normalise_lit(l):
    """rewrites that only restate a condition: `anyhow::ensure!(c)` tests `not(c)`; `c.then(..)` / `c.then_some(..)` is Some exactly
    when c holds. The literal is re-expressed over c itself so that the rules see the condition the author wrote."""
    try:
        flip = None
        inner = None
        if l.kind == "call" and callee_name(l.term) == "not" and len(l.term[2]) == 1 and l.truth is not None:
            inner, flip = l.term[2][0], True
        elif l.kind == "variant" and l.variants in ({"Some"}, {"None"}):
            pt = _strip_var(l.term)
            if pt[0] == "call" and callee_name(pt) in ("then", "then_some") and len(pt[2]) == 2 and pt[4] is not None and "bool" in pt[4].path:
                inner, flip = pt[2][0], False
                l_truth = l.variants == {"Some"}
        if inner is None:
            return
        truth = (not l.truth) if flip else l_truth
        hops = 0
        while hops < 20:
            hops += 1
            if inner[0] in ("ref", "deref", "cast"):
                inner = inner[1]
            elif inner[0] == "var":
                inner = inner[3]
            elif inner[0] == "unop" and inner[1] == "Not":
                inner = inner[2]
                truth = not truth
            else:
                break
        if inner[0] == "call":
            l.kind, l.term, l.truth, l.variants = "call", inner, truth, None
        elif inner[0] == "binop" and inner[1] in _CMP_OPS:
            l.kind, l.term, l.truth, l.variants = "cmp", inner, truth, None
    except (IndexError, TypeError, AttributeError):
        return


_EXPANDING = []


def chain_entry_lits(cb, facts):
    """closure `cb` is applied to the elements of an iterator adaptor chain (`it.filter(p).filter_map(f).for_each(cb)`): what the
    upstream `filter` / `filter_map` closures guarantee for every element that reaches cb.  The literals stay in the upstream
    closure's terms (its element is parameter 2, as in cb); its captured variables are replaced by their values in the
    parent's frame."""
    c = cb._cache.get("chain_entry")
    if c is not None:
        return c
    cb._cache["chain_entry"] = []
    from .callgraph import cg_of
    from .defuse import subst
    out = []
    for s in cg_of(facts).callers_of(cb.path):
        if cb not in s.closures or not s.term.args or s.callee is None:
            continue
        if s.callee.name not in ("for_each", "try_for_each", "map", "filter_map", "filter", "for_each_with", "flat_map", "inspect", "any", "all", "find", "find_map", "fold"):
            continue
        recv = du_of(s.body).operand_term(s.term.args[0], 40)
        t = recv
        hops = 0
        while hops < 60 and isinstance(t, tuple) and t:
            hops += 1
            k = t[0]
            if k in ("ref", "deref", "cast"):
                t = t[1]
            elif k == "var":
                t = t[3]
            elif k == "call":
                n = callee_name(t)
                if n in ("filter", "filter_map") and len(t[2]) >= 2:
                    c_ = t[2][1]
                    h2 = 0
                    while h2 < 20 and c_[0] in ("ref", "deref", "cast", "var"):
                        h2 += 1
                        c_ = c_[3] if c_[0] == "var" else c_[1]
                    fcb = facts.body(c_[1]) if c_[0] == "closure" else None
                    if fcb is not None and fcb.path != cb.path:
                        mapping = {("upvar", i): cap for i, cap in enumerate(c_[2] or [])}
                        ls = closure_result_lits(fcb, facts, True) if n == "filter" else success_result_lits(fcb, facts)
                        for pl in ls:
                            nl = Lit(pl.kind, subst(pl.term, mapping), pl.truth, pl.variants, 0, pl.raw, pl.value, pl.adt)
                            nl.edge = None
                            nl.implied = True
                            nl.derived = pl.derived
                            out.append(nl)
                if not t[2]:
                    break
                t = t[2][0]
            else:
                break
    cb._cache["chain_entry"] = out
    return out


def capture_term(body, i, facts):
    """term (in the parent's frame) of the i-th captured variable of closure `body`, or None"""
    pb = facts.body(body.direct_parent or body.parent) if body.kind == "closure" else None
    if pb is None:
        return None
    du = du_of(pb)
    for blk in pb.blocks:
        for st in blk.stmts:
            if st.kind == "assign" and st.rv.kind == "agg" and st.rv.j.get("agg") == "closure" and st.rv.j.get("closure") == body.path:
                ops = st.rv.operands()
                if i < len(ops):
                    return du.operand_term(ops[i], 16)
    return None


def _pred_target(t, facts, body=None):
    """a call term that invokes a bool predicate defined in the crate: (body, parameter mapping) or (None, None).
    Forms: a private/any in-repo `fn .. -> bool`, and a local closure called by name (`let ok = |x| ..; if ok(a) {..}`)."""
    if t[0] != "call":
        return None, None
    n = callee_name(t)
    if n in ("call", "call_mut", "call_once") and len(t[2]) >= 2:
        a0 = t[2][0]
        hops = 0
        while hops < 20 and a0[0] in ("ref", "deref", "cast", "var"):
            hops += 1
            a0 = a0[3] if a0[0] == "var" else a0[1]
        if a0[0] == "upvar" and body is not None:
            # a predicate closure captured by the closure we are in: look it up in the parent's frame
            ct = capture_term(body, a0[1], facts)
            hops = 0
            while ct is not None and hops < 20 and ct[0] in ("ref", "deref", "cast", "var"):
                hops += 1
                ct = ct[3] if ct[0] == "var" else ct[1]
            if ct is not None:
                a0 = ct
        if a0[0] != "closure":
            return None, None
        cb = facts.body(a0[1])
        if cb is None or cb.local_ty(0) != "bool":
            return None, None
        tup = a0_ = t[2][1]
        while tup[0] == "var":
            tup = tup[3]
        mapping = {}
        if tup[0] == "tuple":
            for i, e in enumerate(tup[1]):
                mapping[2 + i] = e
        for i, cap in enumerate(a0[2] or []):
            mapping[("upvar", i)] = cap
        return cb, mapping
    if t[4] is None:
        return None, None
    tb = facts.body(t[1])
    if tb is None or not tb.in_repo() or tb.kind == "closure" or tb.local_ty(0) != "bool" or len(tb.blocks) > 120 or tb.impl_trait is not None:
        return None, None
    return tb, {i + 1: a for i, a in enumerate(t[2])}


def expand_predicates(lits, facts, body=None):
    """literals that hold because a crate-defined bool predicate (function or local closure) answered `truth`: what is common
    to every site where the predicate produces that answer, in the caller's terms"""
    from .defuse import subst
    out = []
    for l in lits:
        if l.kind == "variant" and l.variants and len(l.variants) == 1 and body is not None and not getattr(l, "derived", False):
            # an enum value used as a flag: `let view = if gone { None } else { Some(x) }; match view { .. }` - the local tested here was
            # given its variant by aggregates; the arm holds whatever dominated the one aggregate of that variant
            t_ = l.term
            hops = 0
            while hops < 12 and t_[0] in ("cast", "ref", "deref") or (t_[0] == "phi" and len(t_[1]) == 1):
                t_ = t_[1][0] if t_[0] == "phi" else t_[1]
                hops += 1
            hops = 0
            while hops < 8 and t_[0] == "var" and len(t_) > 3 and t_[3][0] in ("var", "ref", "deref"):
                t_ = t_[3] if t_[3][0] == "var" else (t_[3][1] if t_[3][1][0] == "var" else t_)
                hops += 1
                if t_[0] != "var":
                    break
            if t_[0] == "var":
                du_ = du_of(body)
                ds_ = du_.full_defs(t_[1])
                want_ = next(iter(l.variants))
                if ds_ and all(d.kind == "assign" and d.rv.kind == "agg" and d.rv.j.get("variant") is not None for d in ds_) and len(ds_) >= 2:
                    hit = [d for d in ds_ if d.rv.j.get("variant") == want_]
                    if len(hit) == 1 and hit[0].block != l.block:
                        for pl in lits_of(body, hit[0].block, facts, _noexpand=True) if "_noexpand" in lits_of.__code__.co_varnames else lits_of(body, hit[0].block, facts):
                            if pl.implied or getattr(pl, "derived", False):
                                continue
                            n = Lit(pl.kind, pl.term, pl.truth, pl.variants, l.block, pl.raw, pl.value, pl.adt)
                            n.edge = l.edge
                            n.implied = True
                            n.derived = True
                            n.parent = l
                            n.inner_derived = False
                            out.append(n)
        if l.kind == "variant" and l.variants == {"Some"}:
            # `opt.filter(|x| p(x))` is Some: p held for the payload
            sf = _strip_var(l.term)
            if sf[0] == "call" and callee_name(sf) == "filter" and len(sf[2]) >= 2 and sf[4] is not None and "Option" in ((sf[4].self_ty or "") + (sf[4].path or "")):
                c_ = sf[2][1]
                hops = 0
                while hops < 20 and c_[0] in ("ref", "deref", "cast", "var"):
                    hops += 1
                    c_ = c_[3] if c_[0] == "var" else c_[1]
                fcb = facts.body(c_[1]) if c_[0] == "closure" else None
                if fcb is not None and fcb.path not in _EXPANDING and len(_EXPANDING) <= 3:
                    mapping = {2: ("ref", ("field", ("downcast", sf[2][0], "Some"), "0", "std::option::Option::Some"))}
                    for i_, cap in enumerate(c_[2] or []):
                        mapping[("upvar", i_)] = cap
                    _EXPANDING.append(fcb.path)
                    try:
                        inner = closure_result_lits(fcb, facts, True)
                    finally:
                        _EXPANDING.pop()
                    for pl in inner:
                        n = Lit(pl.kind, subst(pl.term, mapping), pl.truth, pl.variants, l.block, pl.raw, pl.value, pl.adt)
                        n.edge = l.edge
                        n.implied = True
                        n.derived = True
                        n.parent = l
                        n.inner_derived = pl.derived
                        out.append(n)
                    continue
        if l.kind == "variant" and l.variants and l.variants <= OK_VARIANTS:
            # the success edge of a call to one of the crate's own fallible helpers: what every Ok / Some return of the helper
            # lies behind (`self.check_and_reassert(..)?` keeps the facts `check` established)
            st = _strip_var(l.term)
            hops = 0
            while hops < 6 and st[0] == "call" and callee_name(st) in ("branch", "into", "from", "map_err", "ok_or_else", "ok_or") and st[2]:
                hops += 1
                st = _strip_var(st[2][0])
            if st[0] != "call" or st[4] is None:
                continue
            tb = facts.body(st[1])
            if tb is None or not tb.in_repo() or tb.kind == "closure" or tb.impl_trait is not None or len(tb.blocks) > 400 or \
                    tb.path in _EXPANDING or len(_EXPANDING) > 3 or (body is not None and tb.path == body.path):
                continue
            if not (tb.local_ty(0).startswith("std::result::Result<") or tb.local_ty(0).startswith("std::option::Option<")):
                continue
            mapping = {i + 1: a for i, a in enumerate(st[2])}
            _EXPANDING.append(tb.path)
            try:
                inner = success_result_lits(tb, facts)
            finally:
                _EXPANDING.pop()
            for pl in inner:
                n = Lit(pl.kind, subst(pl.term, mapping), pl.truth, pl.variants, l.block, pl.raw, pl.value, pl.adt)
                n.edge = l.edge
                n.implied = True
                n.derived = True
                n.parent = l
                n.inner_derived = pl.derived
                out.append(n)
            continue
        if l.kind != "call" or l.truth is None:
            continue
        tb, mapping = _pred_target(l.term, facts, body)
        if tb is None or tb.path in _EXPANDING or len(_EXPANDING) > 3:
            continue
        _EXPANDING.append(tb.path)
        try:
            inner = closure_result_lits(tb, facts, l.truth)
        finally:
            _EXPANDING.pop()
        for pl in inner:
            n = Lit(pl.kind, subst(pl.term, mapping), pl.truth, pl.variants, l.block, pl.raw, pl.value, pl.adt)
            n.edge = l.edge
            n.implied = True
            n.derived = True
            n.parent = l
            n.inner_derived = pl.derived
            out.append(n)
    return out


def unaccepted(lits, ok):
    """for rules that enumerate the conditions a site may depend on: the literals that `ok` does not accept.  A literal that
    is not accepted itself but is a call of a crate predicate / fallible helper with a summary is replaced by the literals of
    that summary (so an extracted `fn is_applied(d) -> bool` is judged by what it tests); summaries of accepted literals are
    not looked at"""
    kids = {}
    for d in lits:
        if d.derived and d.parent is not None:
            kids.setdefault(id(d.parent), []).append(d)
    out = []
    seen = set()
    for l in lits:
        if l.derived:
            continue
        if ok(l):
            continue
        ch = [c for c in kids.get(id(l), []) if not c.inner_derived]
        if ch:
            for c in ch:
                if not ok(c) and id(c) not in seen:
                    seen.add(id(c))
                    out.append(c)
        else:
            out.append(l)
    return out


def closure_result_lits(cb, facts, want=True):
    """literals (in the closure's own terms) that hold whenever the bool-returning closure `cb` yields `want`; [] if the
    closure's result cannot be attributed to constant / call sites"""
    from .defuse import fmt
    du = du_of(cb)

    def value_sites(local, neg, depth=0):
        res = []
        for d in du.full_defs(local):
            if d.kind == "call":
                res.append((d.block, None, ("call", du.call_term(d.term, d.block, 14), neg)))
                continue
            rv = d.rv
            ops = rv.operands()
            if rv.kind == "binop" and rv.j.get("op") in ("Eq", "Ne", "Lt", "Le", "Gt", "Ge"):
                res.append((d.block, None, ("cmp", du.rvalue_term(rv, 14), neg)))
            elif rv.kind == "use" and ops and ops[0].is_const() and "bool" in ops[0].j:
                res.append((d.block, bool(ops[0].j["bool"]) != neg, None))
            elif rv.kind in ("use", "unop") and ops and ops[0].place is not None and not ops[0].place.proj and depth < 6 and \
                    (rv.kind == "use" or rv.j.get("op") == "Not"):
                res += value_sites(ops[0].place.local, neg != (rv.kind == "unop"), depth + 1)
            else:
                res.append((d.block, None, None))
        return res
    per_site = []
    for (blk, cval, callinfo) in value_sites(0, False):
        if cval is not None and cval != want:
            continue
        ls = list(lits_of(cb, blk, facts))
        if cval is None:
            if callinfo is None:
                return []
            kind_, ct, neg = callinfo
            rl = Lit(kind_, ct, truth=(want != neg), block=blk)
            ls.append(rl)
            ls += expand_predicates([rl], facts, cb)
        per_site.append(ls)
    if not per_site:
        return []

    return _common_lits(per_site)


def _common_lits(per_site):
    from .defuse import fmt

    def key(l):
        return (l.kind, callee_name(l.term) if l.kind == "call" else fmt(l.term, 3), l.truth, tuple(sorted(l.variants or [])))
    common = per_site[0]
    for ls in per_site[1:]:
        ks = {key(l) for l in ls}
        common = [l for l in common if key(l) in ks]
    return common


def success_result_lits(fb, facts):
    """literals (in fb's own terms) that hold whenever the Result / Option returning function `fb` returns Ok / Some: what is
    common to every site that builds the successful return value; [] when a return value cannot be attributed (e.g. the
    function forwards another call's result)"""
    du = du_of(fb)
    per_site = []
    for d in du.defs.get(0, []):
        if d.place.proj:
            return []
        if d.kind == "call":
            if d.term.callee is not None and d.term.callee.name == "from_residual":
                continue        # the `?` error path
            if d.term.callee is not None and d.term.callee.name in ("then", "then_some") and d.term.args:
                # `cond.then(|| v)`: Some exactly when cond holds
                ct = du.operand_term(d.term.args[0], 22)
                per_site.append(list(lits_of(fb, d.block, facts)) + [_decode_bool(_strip_var(ct), True, d.block, ct)])
                continue
            return []
        if d.kind != "assign":
            return []
        rv = d.rv
        if rv.kind == "agg" and rv.j.get("variant") in ("Ok", "Some"):
            per_site.append(list(lits_of(fb, d.block, facts)))
        elif rv.kind == "agg" and rv.j.get("variant") in ("Err", "None"):
            continue
        else:
            return []
    if not per_site:
        return []
    return _common_lits(per_site)


def _filter_lits(closure_term, next_term, facts):
    from .defuse import subst
    cb = facts.body(closure_term[1])
    if cb is None or cb.local_ty(0) != "bool":
        return []
    mapping = {2: next_term}
    for i, cap in enumerate(closure_term[2] or []):
        mapping[("upvar", i)] = cap
    out = []
    for l in closure_result_lits(cb, facts, True):
        n = Lit(l.kind, subst(l.term, mapping), l.truth, l.variants, l.block, l.raw, l.value, l.adt)
        n.edge = None
        out.append(n)
    return out


def _refine_flag(body, sblock, truth, facts):
    """the switch in sblock tests a bool local assigned constants at several sites; if exactly one
    site assigns `truth`, its dominating literals hold on this edge as well"""
    term = body.blocks[sblock].term
    l = term.discr.local()
    if l is None:
        return []
    du = du_of(body)
    sites = []
    for d in du.full_defs(l):
        if d.kind == "assign" and d.rv.kind == "use":
            ops = d.rv.operands()
            if ops and ops[0].is_const() and "bool" in ops[0].j:
                if ops[0].j["bool"] == truth:
                    sites.append(d.block)
                continue
        return []  # non-constant definition: no refinement
    if len(sites) == 1 and sites[0] != sblock:
        return [x for x in lits_of(body, sites[0], facts)]
    return []


def call_block_of(t):
    """block index of the call a (peeled) term comes from"""
    p = peel(t)
    if p[0] == "call":
        return p[3]
    return None


def success_dominates(body, call_block, target_block, facts):
    """True if target_block can only execute after the call terminating call_block returned
    Ok/Some (via `?`, match, if let, is_ok(), unwrap/expect)"""
    cfg = cfg_of(body)
    if not cfg.dominates(call_block, target_block):
        return False
    for lit in lits_of(body, target_block, facts):
        subj = lit.term if lit.kind == "variant" else (lit.term[2][0] if lit.kind == "call" and lit.term[2] else None)
        if subj is None:
            continue
        if call_block_of(subj) == call_block and lit.says_ok():
            return True
    # unwrap/expect on the result dominating the target
    du = du_of(body)
    for bi, t in body.calls():
        if t.callee is None or t.callee.name not in ("unwrap", "expect"):
            continue
        if not t.args:
            continue
        a = du.operand_term(t.args[0], 10)
        if call_block_of(a) == call_block and cfg.dominates(bi, target_block) and bi != target_block:
            return True
        if call_block_of(a) == call_block and bi == target_block:
            # same block: the unwrap call is the terminator, target executes before it returns
            continue
    return False


def all_edge_lits(body, facts):
    """[(edge node id, Lit)] for every switch edge of the body"""
    c = body._cache.get("all_edge_lits")
    if c is not None:
        return c
    cfg = cfg_of(body)
    out = []
    for (s, k), e in cfg.edge_nodes.items():
        if s not in cfg.reach:
            continue
        _, _, v, tgt = cfg.edge_info[e]
        lit = decode(body, s, v, facts)
        lit.edge = (s, k, v, tgt)
        out.append((e, lit))
    body._cache["all_edge_lits"] = out
    return out


def status_variant(t):
    """enum variant named by a (promoted) constant operand term, e.g. &Status::Ready -> 'Ready'"""
    from .defuse import walk
    for x in walk(t):
        if x[0] == "agg" and not x[3]:
            return (x[1], x[2])
    return None
