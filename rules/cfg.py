"""Per-body control-flow analyses over exported MIR: CFG without unwind edges, dominators and
post-dominators on the edge-split graph (so that "B is reachable only through the v-edge of the
switch in S" is a plain dominance query), loops, reachability."""


class Cfg:
    def __init__(self, mir):
        self.mir = mir
        blocks = mir.blocks
        n = len(blocks)
        self.n = n
        # node ids: 0..n-1 are blocks; switch edges get extra nodes
        self.edge_nodes = {}   # (src block, edge index) -> node id
        self.edge_info = {}    # node id -> (src block, edge index, value, target)
        succ = {}
        nid = n
        for b in blocks:
            if b.cleanup:
                succ[b.idx] = []
                continue
            t = b.term
            if t.kind == "switch":
                outs = []
                for k, (v, tgt) in enumerate(t.switch_edges()):
                    e = nid
                    nid += 1
                    self.edge_nodes[(b.idx, k)] = e
                    self.edge_info[e] = (b.idx, k, v, tgt)
                    succ[e] = [tgt]
                    outs.append(e)
                succ[b.idx] = outs
            else:
                succ[b.idx] = [x for x in t.succs() if not blocks[x].cleanup]
        self.N = nid
        for i in range(self.N):
            succ.setdefault(i, [])
        self.succ = succ
        pred = {i: [] for i in range(self.N)}
        for a, outs in succ.items():
            for b_ in outs:
                pred[b_].append(a)
        self.pred = pred
        # reachable from entry
        self.reach = self._reach_from(0)
        self._dom = None
        self._pdom = None
        self.exits = [b.idx for b in blocks if not b.cleanup and b.term.kind == "return" and b.idx in self.reach]

    def _reach_from(self, start, succ=None, avoid=()):
        succ = succ or self.succ
        seen = set()
        if start in avoid:
            return seen
        stack = [start]
        seen.add(start)
        while stack:
            x = stack.pop()
            for y in succ[x]:
                if y not in seen and y not in avoid:
                    seen.add(y)
                    stack.append(y)
        return seen

    def block_succs(self, b):
        """successor *blocks* of block b (skipping edge nodes)"""
        out = []
        for x in self.succ[b]:
            if x >= self.n:
                out.extend(self.succ[x])
            else:
                out.append(x)
        return out

    def block_preds(self, b):
        out = []
        for x in self.pred[b]:
            if x >= self.n:
                out.extend(self.pred[x])
            else:
                out.append(x)
        return out

    # ------------------------------------------------------------ dominators
    def _compute_dom(self, entry, succ, pred, nodes):
        # iterative set-based dominators (graphs are small)
        order = []
        seen = set()

        def dfs(s):
            stack = [(s, iter(succ[s]))]
            seen.add(s)
            while stack:
                x, it = stack[-1]
                adv = False
                for y in it:
                    if y not in seen and y in nodes:
                        seen.add(y)
                        stack.append((y, iter(succ[y])))
                        adv = True
                        break
                if not adv:
                    order.append(x)
                    stack.pop()
        dfs(entry)
        rpo = list(reversed(order))
        idx = {x: i for i, x in enumerate(rpo)}
        idom = {entry: entry}
        changed = True

        def intersect(a, b):
            while a != b:
                while idx[a] > idx[b]:
                    a = idom[a]
                while idx[b] > idx[a]:
                    b = idom[b]
            return a
        while changed:
            changed = False
            for x in rpo[1:]:
                ps = [p for p in pred[x] if p in idom and p in idx]
                if not ps:
                    continue
                new = ps[0]
                for p in ps[1:]:
                    new = intersect(new, p)
                if idom.get(x) != new:
                    idom[x] = new
                    changed = True
        return idom

    def dom(self):
        if self._dom is None:
            self._dom = self._compute_dom(0, self.succ, self.pred, self.reach)
        return self._dom

    def dominates(self, a, b):
        """node a dominates node b (both node ids)"""
        idom = self.dom()
        if b not in idom or a not in idom:
            return False
        x = b
        while True:
            if x == a:
                return True
            p = idom[x]
            if p == x:
                return False
            x = p

    def dominators_of(self, b):
        idom = self.dom()
        out = []
        if b not in idom:
            return out
        x = b
        while True:
            out.append(x)
            p = idom[x]
            if p == x:
                break
            x = p
        return out

    def dominating_edges(self, b):
        """[(switch block, edge index, value, target)] of switch edges that dominate block b,
        outermost first"""
        out = []
        for x in self.dominators_of(b):
            if x >= self.n:
                out.append(self.edge_info[x])
        out.reverse()
        return out

    # ------------------------------------------------------- post-dominators
    def pdom(self):
        if self._pdom is None:
            EXIT = self.N
            succ = {i: list(self.pred[i]) for i in range(self.N)}
            pred = {i: list(self.succ[i]) for i in range(self.N)}
            succ[EXIT] = list(self.exits)
            pred[EXIT] = []
            for e in self.exits:
                pred[e] = pred[e] + [EXIT]
            nodes = set(range(self.N + 1))
            self._pdom = self._compute_dom(EXIT, succ, pred, nodes)
        return self._pdom

    def postdominates(self, a, b):
        """every path from b to a normal return passes through a"""
        ip = self.pdom()
        if b not in ip or a not in ip:
            return False
        x = b
        while True:
            if x == a:
                return True
            p = ip[x]
            if p == x:
                return False
            x = p

    # ------------------------------------------------------------ reachability
    def reaches(self, a, b, avoid=()):
        """is b reachable from a (a != b requires >= 1 edge) avoiding nodes in avoid"""
        seen = set()
        stack = [y for y in self.succ[a] if y not in avoid]
        seen.update(stack)
        while stack:
            x = stack.pop()
            if x == b:
                return True
            for y in self.succ[x]:
                if y not in seen and y not in avoid:
                    seen.add(y)
                    stack.append(y)
        return b in seen

    def reachable_blocks(self, a, avoid=()):
        seen = set()
        stack = [y for y in self.succ[a] if y not in avoid]
        seen.update(stack)
        while stack:
            x = stack.pop()
            for y in self.succ[x]:
                if y not in seen and y not in avoid:
                    seen.add(y)
                    stack.append(y)
        return {x for x in seen if x < self.n}

    def in_loop(self, b):
        return self.reaches(b, b)

    def is_loop_header(self, b):
        """block b is the target of a back edge (some predecessor is dominated by b)"""
        return any(self.dominates(b, p) for p in self.block_preds(b))

    def loop_headers(self):
        """blocks that are targets of back edges (dominating their source)"""
        hs = set()
        for a in self.reach:
            for b in self.succ[a]:
                if self.dominates(b, a):
                    hs.add(b if b < self.n else self.edge_info[b][0])
        return hs

    def return_reachable_without(self, start, avoid):
        """can a normal return be reached from `start` without passing any node in avoid?"""
        if start in avoid:
            return False
        seen = {start}
        stack = [start]
        while stack:
            x = stack.pop()
            if x in self.exits:
                return True
            for y in self.succ[x]:
                if y not in seen and y not in avoid:
                    seen.add(y)
                    stack.append(y)
        return False


def cfg_of(body):
    c = body._cache.get("cfg")
    if c is None:
        c = Cfg(body.mir)
        body._cache["cfg"] = c
    return c
