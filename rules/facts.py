"""Fact base loader: wraps the JSON exported by mirfacts into Body / Block objects and
offers a textual pretty-printer (for reports and for developing rules)."""
import json


class Place:
    __slots__ = ("local", "proj")

    def __init__(self, j):
        self.local = j["l"]
        self.proj = j["p"]

    def is_local(self):
        return not self.proj

    def fields(self):
        return [p["n"] for p in self.proj if p["k"] == "field"]

    def last_field(self):
        for p in reversed(self.proj):
            if p["k"] == "field":
                return p
        return None

    def has_deref(self):
        return any(p["k"] == "deref" for p in self.proj)

    def key(self):
        return (self.local, tuple(_pk(p) for p in self.proj))

    def __repr__(self):
        s = "_%d" % self.local
        for p in self.proj:
            k = p["k"]
            if k == "deref":
                s = "(*%s)" % s
            elif k == "field":
                s = "%s.%s" % (s, p["n"])
            elif k == "index":
                s = "%s[_%d]" % (s, p["l"])
            elif k == "downcast":
                s = "(%s as %s)" % (s, p["v"])
            elif k == "constidx":
                s = "%s[%s%d]" % (s, "-" if p["from_end"] else "", p["off"])
            else:
                s = "%s.<%s>" % (s, k)
        return s


def _pk(p):
    k = p["k"]
    if k == "field":
        return ("f", p["i"], p["n"])
    if k == "downcast":
        return ("d", p["v"])
    if k == "index":
        return ("i", p["l"])
    return (k,)


class Operand:
    __slots__ = ("j", "kind", "place")

    def __init__(self, j):
        self.j = j
        self.kind = j["k"]
        self.place = Place(j["pl"]) if "pl" in j else None

    def is_const(self):
        return self.kind == "const"

    def const_int(self):
        return self.j.get("int") if self.kind == "const" else None

    def const_str(self):
        if self.kind == "const" and "mem" in self.j:
            return self.j["mem"].get("str")
        return None

    def const_bytes(self):
        if self.kind == "const" and "mem" in self.j:
            return bytes(self.j["mem"]["bytes"])
        return None

    def const_def(self):
        return self.j.get("def") if self.kind == "const" else None

    def promoted(self):
        return self.j.get("promoted") if self.kind == "const" else None

    def fn(self):
        return self.j.get("fn") if self.kind == "const" else None

    def local(self):
        """bare local (no projection) or None"""
        if self.place is not None and not self.place.proj:
            return self.place.local
        return None

    def __repr__(self):
        if self.kind in ("copy", "move"):
            return ("move " if self.kind == "move" else "") + repr(self.place)
        j = self.j
        if "fn" in j:
            return "fn " + j["fn"]["full"]
        if "closure" in j:
            return "closure " + j["closure"]
        if "promoted" in j:
            return "promoted[%d]" % j["promoted"]
        if "mem" in j:
            m = j["mem"]
            return "const %r" % (m.get("str", bytes(m["bytes"])),)
        if "bool" in j:
            return "const %s" % j["bool"]
        if "int" in j:
            return "const %d_%s" % (j["int"], j["ty"])
        if "def" in j:
            return "const " + j["def"]
        return "const <%s>" % j["ty"]


class Callee:
    """Resolved callee of a Call terminator."""

    __slots__ = ("j", "path", "full", "name", "krate", "args", "trait", "self_ty", "resolved",
                 "fnargs", "virtual", "impl_self", "impl_adt")

    def __init__(self, j):
        self.j = j
        self.path = j["path"]
        self.full = j["full"]
        self.name = j["name"]
        self.krate = j["krate"]
        self.args = j["args"]
        self.trait = j.get("trait")
        self.self_ty = j.get("self_ty")
        self.resolved = j.get("resolved")
        self.fnargs = j.get("fnargs", [])
        self.virtual = j.get("virtual", False)
        self.impl_self = j.get("impl_self")
        self.impl_adt = j.get("impl_adt")

    def target(self):
        """best static target path"""
        return self.resolved or self.path

    def __repr__(self):
        return self.full + (" => " + self.resolved if self.resolved else "")


class Rvalue:
    __slots__ = ("j", "kind")

    def __init__(self, j):
        self.j = j
        self.kind = j["k"]

    def operands(self):
        j = self.j
        k = self.kind
        if k in ("use", "repeat", "cast"):
            return [Operand(j["op"])]
        if k == "binop":
            return [Operand(j["a"]), Operand(j["b"])]
        if k == "unop":
            return [Operand(j["a"])]
        if k == "agg":
            return [Operand(o) for o in j["ops"]]
        return []

    def place(self):
        return Place(self.j["pl"]) if "pl" in self.j else None

    def __repr__(self):
        j = self.j
        k = self.kind
        if k == "use":
            return repr(Operand(j["op"]))
        if k == "ref":
            return ("&mut " if j["mut"] else "&") + repr(Place(j["pl"]))
        if k == "rawptr":
            return "&raw " + repr(Place(j["pl"]))
        if k == "cast":
            return "%r as %s (%s)" % (Operand(j["op"]), j["ty"], j["kind"].split("(")[0])
        if k == "binop":
            return "%s(%r, %r)" % (j["op"], Operand(j["a"]), Operand(j["b"]))
        if k == "unop":
            return "%s(%r)" % (j["op"], Operand(j["a"]))
        if k == "discr":
            return "discriminant(%r)" % Place(j["pl"])
        if k == "agg":
            ops = ", ".join(repr(Operand(o)) for o in j["ops"])
            if j["agg"] == "adt":
                return "%s::%s{%s}" % (j["adt"], j["variant"], ops)
            if j["agg"] == "closure":
                return "closure %s [%s]" % (j["closure"], ops)
            return "%s(%s)" % (j["agg"], ops)
        if k == "repeat":
            return "[%r; n]" % Operand(j["op"])
        return "<%s>" % j.get("dbg", k)


class Stmt:
    __slots__ = ("j", "kind", "place", "rv", "line")

    def __init__(self, j):
        self.j = j
        self.kind = j["k"]
        self.place = Place(j["pl"]) if "pl" in j else None
        self.rv = Rvalue(j["rv"]) if "rv" in j else None
        self.line = j.get("line", 0)

    def __repr__(self):
        if self.kind == "assign":
            return "%r = %r" % (self.place, self.rv)
        if self.kind == "setdiscr":
            return "discriminant(%r) = %d" % (self.place, self.j["i"])
        if self.kind in ("dead", "live"):
            return "Storage%s(_%d)" % (self.kind.capitalize(), self.j["l"])
        return self.kind


class Term:
    __slots__ = ("j", "kind", "line", "exp", "callee", "args", "dest", "place", "discr")

    def __init__(self, j):
        self.j = j
        self.kind = j["k"]
        self.line = j.get("line", 0)
        self.exp = j.get("exp", False)
        self.callee = None
        self.args = []
        self.dest = None
        self.place = None
        self.discr = None
        if self.kind in ("call", "tailcall"):
            f = j["func"]
            if f.get("k") == "const" and "fn" in f:
                self.callee = Callee(f["fn"])
            self.args = [Operand(a) for a in j["args"]]
            if "dest" in j:
                self.dest = Place(j["dest"])
        elif self.kind == "drop":
            self.place = Place(j["pl"])
        elif self.kind == "switch":
            self.discr = Operand(j["discr"])
        elif self.kind == "assert":
            self.discr = Operand(j["cond"])

    def succs(self, unwind=False):
        j = self.j
        k = self.kind
        out = []
        if k == "goto":
            out = [j["target"]]
        elif k == "switch":
            out = [t for (_, t) in j["targets"]] + [j["otherwise"]]
        elif k in ("drop", "assert"):
            out = [j["target"]]
        elif k == "call":
            out = [j["target"]] if j["target"] is not None else []
        if unwind and j.get("unwind") is not None:
            out = out + [j["unwind"]]
        seen = []
        for x in out:
            if x not in seen:
                seen.append(x)
        return seen

    def switch_edges(self):
        """[(value or None for otherwise, target)]"""
        j = self.j
        return [(v, t) for (v, t) in j["targets"]] + [(None, j["otherwise"])]

    def func_operand(self):
        return Operand(self.j["func"])

    def __repr__(self):
        j = self.j
        k = self.kind
        if k == "goto":
            return "goto bb%d" % j["target"]
        if k == "switch":
            return "switchInt(%r) -> [%s, otherwise: bb%d]" % (
                self.discr, ", ".join("%d: bb%d" % (v, t) for v, t in j["targets"]), j["otherwise"])
        if k == "call":
            f = repr(self.callee) if self.callee else repr(self.func_operand())
            return "%r = %s(%s) -> %s" % (
                self.dest, f, ", ".join(map(repr, self.args)),
                "bb%d" % j["target"] if j["target"] is not None else "!")
        if k == "drop":
            return "drop(%r) -> bb%d" % (self.place, j["target"])
        if k == "assert":
            return "assert(%r == %s, %s) -> bb%d" % (self.discr, j["expected"], j["msg"], j["target"])
        return k


class Block:
    __slots__ = ("idx", "stmts", "term", "cleanup")

    def __init__(self, idx, j):
        self.idx = idx
        self.stmts = [Stmt(s) for s in j["stmts"]]
        self.term = Term(j["term"])
        self.cleanup = j["cleanup"]


class Mir:
    """one MIR body (function, closure or promoted constant)"""

    def __init__(self, j):
        self.locals = j["locals"]
        self.argc = j["argc"]
        self.blocks = [Block(i, b) for i, b in enumerate(j["blocks"])]

    def local_ty(self, l):
        return self.locals[l]["ty"]

    def local_name(self, l):
        return self.locals[l].get("name")


class Body:
    def __init__(self, j, facts):
        self.j = j
        self.facts = facts
        self.path = j["path"]
        self.kind = j["kind"]
        self.file = j["file"]
        self.line = j["line"]
        self.line_hi = j["line_hi"]
        self.name = j.get("name")
        self.public = j.get("pub", False)
        self.parent = j.get("parent")
        self.direct_parent = j.get("direct_parent")
        self.impl_self = j.get("impl_self")
        self.impl_adt = j.get("impl_adt")
        self.impl_trait = j.get("impl_trait")
        self.sig = j.get("sig")
        self.mir = Mir(j["mir"])
        self.promoted = [Mir(p) for p in j["promoted"]]
        self.debug = j["debug"]
        self._cache = {}

    # convenience passthroughs
    @property
    def blocks(self):
        return self.mir.blocks

    @property
    def locals(self):
        return self.mir.locals

    @property
    def argc(self):
        return self.mir.argc

    def local_ty(self, l):
        return self.mir.locals[l]["ty"]

    def local_name(self, l):
        return self.mir.locals[l].get("name")

    def in_repo(self):
        return self.file.startswith("src/")

    def loc(self, line=None):
        return "%s:%d" % (self.file, line if line else self.line)

    def calls(self):
        """[(block idx, Term)] for every Call terminator in non-cleanup blocks"""
        out = []
        for b in self.blocks:
            if b.cleanup:
                continue
            if b.term.kind in ("call", "tailcall"):
                out.append((b.idx, b.term))
        return out

    def upvar_names(self):
        """for closures: {field index of _1 : captured variable name}"""
        out = {}
        for d in self.debug:
            pl = d["pl"]
            if pl["l"] == 1:
                for p in pl["p"]:
                    if p["k"] == "field":
                        out[p["i"]] = d["name"]
                        break
        return out

    def dump(self):
        lines = ["fn %s  [%s:%d]  %s" % (self.path, self.file, self.line, self.sig or "")]
        for i, l in enumerate(self.locals):
            lines.append("    let _%d: %s;%s%s" % (
                i, l["ty"], "  // " + l["name"] if "name" in l else "",
                "  (arg)" if 1 <= i <= self.argc else ""))
        for b in self.blocks:
            lines.append("  bb%d%s:" % (b.idx, " (cleanup)" if b.cleanup else ""))
            for st in b.stmts:
                if st.kind in ("dead", "live"):
                    continue
                lines.append("      %r;   // L%d" % (st, st.line))
            lines.append("      %r;   // L%d" % (b.term, b.term.line))
        for i, p in enumerate(self.promoted):
            lines.append("  promoted[%d]:" % i)
            for b in p.blocks:
                for st in b.stmts:
                    if st.kind in ("dead", "live"):
                        continue
                    lines.append("      %r;" % (st,))
        return "\n".join(lines)


class Facts:
    def __init__(self, path):
        with open(path) as f:
            j = json.load(f)
        self.path = path
        from .inliner import inline_helpers
        self.inlined_helpers = inline_helpers(j)
        self.j = j
        self.crate = j["crate"]
        self.features = j["features"]
        self.adts = j["adts"]
        self.structs = {s["path"]: s for s in j["structs"]}
        self.traits = {t["path"]: t for t in j["traits"]}
        self.impls = j["impls"]
        self.consts = {c["path"]: c for c in j["consts"]}
        self.bodies = [Body(b, self) for b in j["bodies"]]
        self.by_path = {}
        for b in self.bodies:
            self.by_path[b.path] = b
        self._closures_of = {}
        for b in self.bodies:
            if b.kind == "closure":
                self._closures_of.setdefault(b.parent, []).append(b)

    def body(self, path):
        return self.by_path.get(path)

    def closures_of(self, path):
        return self._closures_of.get(path, [])

    def repo_bodies(self):
        return [b for b in self.bodies if b.in_repo()]

    def impls_of(self, trait):
        return [i for i in self.impls if i["trait"] == trait]

    def const_str(self, path):
        c = self.consts.get(path)
        if c and "mem" in c:
            return c["mem"].get("str")
        return None

    def variant_of_discr(self, adt, val):
        a = self.adts.get(adt)
        if not a:
            return None
        for v in a["variants"]:
            if v["discr"] == val:
                return v["name"]
        return None

    def variants(self, adt):
        a = self.adts.get(adt)
        return [v["name"] for v in a["variants"]] if a else []

    def struct_field_ty(self, struct, field):
        s = self.structs.get(struct)
        if not s:
            return None
        for v in s["variants"]:
            for f in v["fields"]:
                if f["name"] == field:
                    return f["ty"]
        return None


if __name__ == "__main__":
    import sys
    f = Facts(sys.argv[1])
    pat = sys.argv[2] if len(sys.argv) > 2 else ""
    for b in f.bodies:
        if pat in b.path:
            print(b.dump())
            print()
