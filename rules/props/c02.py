"""C02 - Blocks take effect only when causally complete: typestate analysis of Delta.status."""
from ..cfg import cfg_of
from ..defuse import du_of, walk, peel, callee_name, fmt
from ..conds import Lit, lits_of, all_edge_lits, status_variant, closure_result_lits
from ..callgraph import cg_of
from ..roles import roles_of
from ..common import arg_term, contains_call, call_named, field_path, assigns_of_return

TEXT = ("Typestate analysis of the four-state field Delta.status, exhaustive over every write of that field and every "
        "call that applies remote changes, in every feature configuration. A1: every call of the function that applies "
        "a block's changes to the revision trees is edge-dominated by `status == Ready` on that same block, and `Applied` "
        "is written only after that call succeeded (or as the initialiser in the own-commit path). A2: `Ready` is "
        "written in exactly one function and, on every path that enters an iteration of the parents / packs / changes "
        "loops, only through the pass edges of all dependency checks (parent known; parent Ready or Applied; pack loads "
        "with matching hash; object of the revision and of its predecessor readable and valid) - decided by "
        "reachability with the pass edges removed; no dependency loop is guarded by the presence of another dependency "
        "field. A3: the extracted (guard-state -> written-state) table is a subset "
        "of the legal transition table. A4: refresh re-examines Blocked blocks before marking, reload* start from an "
        "empty map, every Ok return lies behind the marking and apply passes, and no block is parsed into the block map "
        "after a marking step has run. A5: the object-availability predicate returns true only on index membership or a verified read. "
        "A7: the marking pass runs the dependency check for every Pending block of the whole block map, and the applier inserts every "
        "record of the block it applies. "
        "A4e: no call removes entries from the block map except the clear of reload / reload_until. Does not decide equality of incremental refreshes with a full reload over histories."
        " A2c also covers conditional combinators on the presence test (Option::filter on a flag). A5b: nothing the availability predicate reaches looks an object up in the stage or the LRU cache (availability means stored). A5c: every revision kind write_object stores nothing for is answered available.")
TECHNIQUE = 'static analysis over rustc MIR: typestate of Delta.status (edge dominance + reachability with pass edges removed, loop and all()/any() closure forms), transition-table extraction, sibling agreement of the three loaders'
TRUSTED = ["rustc nightly MIR", "derive(PartialEq) on the fieldless enum Status compares discriminants",
           "C10/H1: the pack loader and the object reader verify hashes"]

STATUS = "melda::Status"
LEGAL = {(None, "Pending"), (None, "Applied"), ("Pending", "Ready"), ("Pending", "Blocked"),
         ("Blocked", "Pending"), ("Ready", "Applied")}


def status_writes(body):
    """[(block, stmt, written variant)] for assignments to a `.status` field"""
    du = du_of(body)
    out = []
    for blk in body.blocks:
        if blk.cleanup:
            continue
        for st in blk.stmts:
            if st.kind == "assign" and st.place.proj and st.place.proj[-1]["k"] == "field" and \
                    st.place.proj[-1]["n"] == "status" and st.place.proj[-1].get("ty") == STATUS:
                v = status_variant(du.rvalue_term(st.rv, 10))
                out.append((blk.idx, st, v[1] if v else "?"))
    return out


def status_inits(body):
    """[(block, stmt, variant)] for `Delta { .. status: X }` aggregates"""
    du = du_of(body)
    out = []
    for blk in body.blocks:
        if blk.cleanup:
            continue
        for st in blk.stmts:
            if body.impl_trait == "std::clone::Clone":
                continue   # derive(Clone) copies an existing status
            if st.kind == "assign" and st.rv.kind == "agg" and st.rv.j.get("adt") == "melda::Delta":
                fields = st.rv.j.get("fields", [])
                if "status" in fields:
                    op = st.rv.operands()[fields.index("status")]
                    v = status_variant(du.operand_term(op, 10))
                    out.append((blk.idx, st, v[1] if v else "?"))
    return out


def status_guard(body, block, facts):
    """state asserted about a `.status` value by the literals dominating block: variant name or None"""
    return status_from_lits(lits_of(body, block, facts))


def chain_filter_status(facts, t):
    """status asserted for the elements of an iterator adaptor chain by its `filter` closures (term t = the chain)"""
    from ..conds import closure_result_lits
    from ..common import iter_chain
    st = None
    from ..conds import success_result_lits, expand_predicates, _normalise_lit
    for x in iter_chain(t):
        if callee_name(x) not in ("filter", "filter_map") or len(x[2]) < 2:
            continue
        c_ = x[2][1]
        hops = 0
        while hops < 20 and c_[0] in ("ref", "deref", "cast", "var"):
            hops += 1
            c_ = c_[3] if c_[0] == "var" else c_[1]
        fcb = facts.body(c_[1]) if c_[0] == "closure" else None
        if fcb is None:
            continue
        ls_ = list(closure_result_lits(fcb, facts, True) if callee_name(x) == "filter" else success_result_lits(fcb, facts))
        for l_ in ls_:
            _normalise_lit(l_)      # `pred(x).then(|| ..)` is Some exactly when pred(x)
        ls_ += expand_predicates(ls_, facts, fcb)       # a named predicate closure of the enclosing function, captured and called
        s_ = status_from_lits(ls_)
        if s_ is not None:
            st = s_
    return st


def _filters_select_exactly(facts, t, variant):
    """every `filter` closure of the chain t keeps an element iff its status is `variant` (true result: status == variant and
    nothing else; false result: status != variant)"""
    from ..conds import closure_result_lits, unaccepted
    from ..common import iter_chain
    n = 0
    for x in iter_chain(t):
        if callee_name(x) != "filter" or len(x[2]) < 2:
            continue
        c_ = x[2][1]
        hops = 0
        while hops < 20 and c_[0] in ("ref", "deref", "cast", "var"):
            hops += 1
            c_ = c_[3] if c_[0] == "var" else c_[1]
        fcb = facts.body(c_[1]) if c_[0] == "closure" else None
        if fcb is None:
            return False
        tl = closure_result_lits(fcb, facts, True)
        fl = closure_result_lits(fcb, facts, False)
        if status_from_lits(tl) != variant:
            return False
        if unaccepted(tl, lambda l: (l.kind in ("call", "cmp") and any(status_variant(y) for y in walk(l.term))) or
                      (l.kind == "variant" and (l.adt == STATUS or (l.variants and l.variants <= {"Ok", "Some", "Continue"})))):
            return False
        neg = False
        for l in fl:
            if l.kind == "call" and callee_name(l.term) in ("eq", "ne") and l.truth == (callee_name(l.term) == "ne"):
                for y in l.term[2][:2]:
                    v = status_variant(y)
                    if v and v[1] == variant:
                        neg = True
        if not neg:
            return False
        n += 1
    return n > 0


def status_from_lits(lits):
    st = None
    for l in lits:
        if l.kind == "variant" and l.adt == STATUS and l.variants and len(l.variants) == 1 and \
                any(z[0] == "field" and z[2] == "status" for z in walk(l.term)):
            st = next(iter(l.variants))      # `match status { Status::X => .. }`
            continue
        if l.kind == "call" and callee_name(l.term) in ("eq", "ne") and len(l.term[2]) == 2:
            c = l.term[4]
            if c is None or STATUS not in (c.self_ty or c.full):
                continue
            want = callee_name(l.term) == "eq"
            if l.truth is None or l.truth != want:
                continue
            for x, y in ((l.term[2][0], l.term[2][1]), (l.term[2][1], l.term[2][0])):
                v = status_variant(y)
                if v and any(z[0] == "field" and z[2] == "status" for z in walk(x)):
                    st = v[1]
    return st


def run(facts, res):
    R = roles_of(facts)
    cg = cg_of(facts)
    res.rule("A1", "changes are applied only on `status == Ready`; `Applied` is written only after a successful apply")
    res.rule("A2", "`Ready` is written in one place, only through the pass edges of all dependency checks")
    res.rule("A3", "status transition table is a subset of the legal table")
    res.rule("A4", "refresh re-examines Blocked blocks before marking; reload* clear the block map before parsing")
    res.rule("A5", "the object-availability predicate returns true only on index membership or a verified read")

    # role: functions applying remote changes = bodies in Melda calling RevisionTree::unvalidated_add directly
    appliers = []
    for b in facts.repo_bodies():
        if b.impl_adt == "melda::Melda" or (b.kind == "closure" and b.parent and b.parent.startswith("melda::Melda")):
            for bi, t in b.calls():
                if t.callee is not None and t.callee.target() == "revisiontree::RevisionTree::unvalidated_add":
                    root = facts.body(b.parent) if b.kind == "closure" else b
                    if root not in appliers:
                        appliers.append(root)
    if R.body("applier") is not None:
        # the function that applies a whole block (it may hand each record to a private helper that does the insertion)
        appliers = [R.body("applier")]
    res.floor("A1", "functions applying remote changes (unvalidated_add callers)", len(appliers), 1)

    # ------------------------------------------------------------------ A1
    n_sites = 0
    for ap in appliers:
        for s in cg.callers_of(ap.path):
            if s.body.path == ap.path:
                continue
            n_sites += 1
            body = s.body
            st = status_guard(body, s.block, facts)
            # same block: the tested status and the applied delta come from the same map element
            arg = arg_term(body, s.term, 1, 30)
            same = _same_delta(body, s.block, arg, facts)
            res.instance("A1", "%s calls %s under status == %s (same block: %s)" % (body.path, ap.name, st, same), s.loc())
            if st != "Ready" or not same:
                res.violation("A1", "%s|apply-without-ready" % body.path,
                              "%s calls %s without being dominated by `status == Ready` on the applied block (guard state: %s, same block: %s)" % (
                                  body.path, ap.path, st, same), s.loc())
    res.floor("A1", "apply call sites", n_sites, 1)
    all_writes = []
    for b in facts.repo_bodies():
        for (bi, st, v) in status_writes(b):
            all_writes.append((b, bi, st, v))
    res.floor("A3", "writes of Delta.status", len(all_writes), 4)
    for (b, bi, st, v) in all_writes:
        if v == "Applied":
            ok = False
            for l in lits_of(b, bi, facts):
                if l.kind == "call" and l.says_ok() and l.term[2] and \
                        any(contains_call(l.term[2][0], ap.name) for ap in appliers):
                    ok = True       # is_ok() == true / is_err() == false
                if l.kind == "variant" and l.variants and l.variants <= {"Ok", "Continue"} and any(contains_call(l.term, ap.name) for ap in appliers):
                    ok = True
            res.instance("A1", "%s writes Applied after a successful apply: %s" % (b.path, ok), b.loc(st.line))
            if not ok:
                res.violation("A1", "%s|applied-without-apply" % b.path,
                              "%s sets status = Applied without being dominated by a successful apply of the block's changes" % b.path, b.loc(st.line))

    # ------------------------------------------------------------------ A2
    ready_fns = sorted({b.path for (b, bi, st, v) in all_writes if v == "Ready"})
    res.instance("A2", "functions writing Ready: %s" % ready_fns, None)
    if len(ready_fns) != 1:
        res.violation("A2", "ready-writers:%s" % ",".join(ready_fns), "`Ready` must be written in exactly one function, found %s" % ready_fns)
    for (b, bi, st, v) in all_writes:
        if v != "Ready":
            continue
        check_ready_earned(b, bi, facts, res)

    # ------------------------------------------------------------------ A3
    seen_tr_ = set()
    for (b, bi, st, v) in all_writes:
        g = status_guard(b, bi, facts)
        if g is None and b.kind != "closure" and not b.public and b.impl_trait is None:
            # a private setter (`fn block(delta: &mut Delta) -> Status`): the state it is called in is the state at its call sites
            gs = {status_guard(cs.body, cs.block, facts) for cs in cg.callers_of(b.path) if cs.body.path != b.path}
            if len(gs) == 1 and None not in gs:
                g = gs.pop()
        seen_tr_.add((g, v))
        res.instance("A3", "%s: %s -> %s" % (b.path, g, v), b.loc(st.line))
        if (g, v) not in LEGAL or g is None:
            res.violation("A3", "%s|illegal-transition:%s->%s" % (b.path, g, v),
                          "%s writes status %s under guard state %s: not in the legal transition table" % (b.path, v, g), b.loc(st.line))
    seen_tr = seen_tr_
    for tr in (("Pending", "Ready"), ("Pending", "Blocked"), ("Blocked", "Pending"), ("Ready", "Applied")):
        res.floor("A3", "transition %s->%s present" % tr, 1 if tr in seen_tr else 0, 1)
    inits = []
    for b in facts.repo_bodies():
        for (bi, st, v) in status_inits(b):
            inits.append((b, bi, st, v))
            own_commit = any(t.callee is not None and t.callee.name == R.name("raw_write") for _, t in b.calls())
            res.instance("A3", "%s initialises a Delta with status %s" % (b.path, v), b.loc(st.line))
            if v == "Pending":
                continue
            if v == "Applied" and own_commit:
                continue
            res.violation("A3", "%s|illegal-initial-state:%s" % (b.path, v),
                          "%s creates a block in state %s (only parsed blocks start Pending, only the own commit starts Applied)" % (b.path, v), b.loc(st.line))
    res.floor("A3", "Delta initialisers", len(inits), 2)

    # ------------------------------------------------------------------ A4
    rf = facts.body("melda::Melda::refresh")
    n4 = 0
    if rf is not None:
        cfg = cfg_of(rf)
        reset_sites = []
        for s in cg.sites[rf.path]:
            for cb in s.closures:
                for (bi, st, v) in status_writes(cb):
                    if v == "Pending" and status_guard(cb, bi, facts) == "Blocked":
                        reset_sites.append(s)
        # A4d: the reset applies to *every* Blocked block: the Blocked->Pending write is guarded by the block's status only
        for s in cg.sites[rf.path]:
            for cb in s.closures:
                for (bi, st, v) in status_writes(cb):
                    if v != "Pending" or status_guard(cb, bi, facts) != "Blocked":
                        continue
                    from ..conds import unaccepted

                    def about_status(l):
                        return (l.kind == "variant" and l.adt == STATUS) or \
                            (l.kind in ("call", "cmp") and any(status_variant(x) for x in walk(l.term))) or \
                            (l.kind == "variant" and l.variants and l.variants <= {"Ok", "Some", "Continue"})
                    extra = [repr(l) for l in unaccepted(lits_of(cb, bi, facts), about_status)]
                    res.instance("A4", "refresh: the Blocked->Pending reset depends on the block's status only: %s" % (not extra), cb.loc(st.line))
                    if extra:
                        res.violation("A4", "refresh|reset-under-extra-condition",
                                      "refresh resets a Blocked block to Pending only under the additional condition %s: a block whose missing dependency "
                                      "arrived without satisfying that condition (e.g. a parent block that ships no pack) stays held back" % extra[0], cb.loc(st.line))
        marks = [s for s in cg.sites[rf.path] if s.targets and any(cg.reaches(t, ready_fns[0]) if ready_fns else False for t in s.targets)
                 and not any(cb for cb in s.closures)]
        marks = [s for s in cg.sites[rf.path] if s.callee is not None and s.callee.name in (R.name("mark_pass"), R.name("marker"))]
        ok = bool(reset_sites) and bool(marks) and all(any(cfg.dominates(r.block, m.block) for r in reset_sites) for m in marks)
        # whole map: the reset iterates the complete block map
        whole = False
        for r in reset_sites:
            recv = arg_term(rf, r.term, 0, 30)
            names = [callee_name(c) for c in walk(recv, False) if c[0] == "call"]
            sel = set(names) & {"filter", "take", "skip", "step_by", "take_while", "skip_while"}
            if sel == {"filter"} and _filters_select_exactly(facts, recv, "Blocked"):
                sel = set()         # `.filter(|d| d.status == Blocked).for_each(reset)`: the filter is the status test itself
            if not sel and any(x[0] == "field" and x[2] == "deltas" for x in walk(recv)):
                whole = True
        # loop form: `for d in deltas.values() { if d.status == Blocked { d.status = Pending } }`
        for (bi, st, v) in status_writes(rf):
            if v == "Pending" and status_guard(rf, bi, facts) == "Blocked":
                for l in lits_of(rf, bi, facts):
                    if l.kind == "variant" and l.variants == {"Some"} and not l.derived:
                        pt = peel(l.term)
                        if pt[0] == "call" and callee_name(pt) == "next" and pt[2] and cfg.is_loop_header(pt[3]):
                            names = [callee_name(c) for c in walk(pt[2][0], False) if c[0] == "call"]
                            if not (set(names) & {"filter", "take", "skip", "step_by", "take_while", "skip_while", "filter_map"}) and \
                                    any(x[0] == "field" and x[2] == "deltas" for x in walk(pt[2][0])):
                                whole = True

                                class _S:
                                    pass
                                ps = _S()
                                ps.block = pt[3]
                                reset_sites.append(ps)
        ok = bool(reset_sites) and bool(marks) and all(any(cfg.dominates(r.block, m.block) for r in reset_sites) for m in marks)
        n4 += 1
        res.instance("A4", "refresh: Blocked->Pending pass over the whole block map (%s) dominates the marking pass (%s)" % (whole, ok), rf.loc())
        if not (ok and whole):
            res.violation("A4", "refresh|blocked-not-reexamined",
                          "refresh does not reset every Blocked block to Pending before the marking pass (reset sites %d, dominates marking: %s, whole map: %s)" % (
                              len(reset_sites), ok, whole), rf.loc())
    for name in ("melda::Melda::reload", "melda::Melda::reload_until"):
        b = facts.body(name)
        if b is None:
            continue
        cfg = cfg_of(b)
        clears = [bi for bi, t in b.calls() if t.callee is not None and t.callee.name == "clear"
                  and "deltas" in field_path(arg_term(b, t, 0))[0]]
        inserts = [bi for bi, t in b.calls() if t.callee is not None and t.callee.name in ("insert", "extend")
                   and "deltas" in field_path(arg_term(b, t, 0))[0]]
        ok = bool(clears) and bool(inserts) and all(any(cfg.dominates(c, i) for c in clears) for i in inserts)
        n4 += 1
        res.instance("A4", "%s: deltas.clear() dominates every deltas.insert(): %s" % (name, ok), b.loc())
        if not ok:
            res.violation("A4", "%s|block-map-not-cleared" % name, "%s parses blocks into a map that was not cleared first" % name, b.loc())
    # A4c: the block map only grows between two full reloads. Who-may-shrink over the whole crate: a removing call (retain, remove,
    # clear, pop_*, drain, split_off, mem::take) whose receiver is the `deltas` field is accepted only as the `clear` of reload /
    # reload_until that the re-parse follows. A refresh that forgets the blocks a (lagging, partial) listing does not report leaves
    # applied blocks whose parents are unknown: the heads change and the next commit records parents that are not heads.
    SHRINK = {"retain", "remove", "remove_entry", "clear", "pop_first", "pop_last", "drain", "split_off", "take", "replace", "swap", "truncate", "drain_filter", "extract_if"}
    n4c = 0
    for ob in facts.repo_bodies():
        for bi, t in ob.calls():
            if t.callee is None or t.callee.name not in SHRINK or not t.args:
                continue
            fp_ = field_path(arg_term(ob, t, 0, 16))[0]
            up_ = [x for x in walk(arg_term(ob, t, 0, 16)) if x[0] == "upvar" and x[2].split(".")[-1] == "deltas"]
            if "deltas" not in fp_ and not up_:
                continue
            if fp_ and fp_.index("deltas") != len(fp_) - 1 and not up_:
                continue        # a field *of* a block (delta.changes.take()), not the block map itself
            if "melda::Delta>" not in (t.callee.full + " " + " ".join(t.callee.args) + " " + (t.callee.self_ty or "")):
                continue        # a collection *derived from* the block map (the set of candidate heads), not the map
            n4c += 1
            owner = ob.path if ob.kind != "closure" else ob.path.split("::{closure")[0]
            ok_ = t.callee.name == "clear" and owner in ("melda::Melda::reload", "melda::Melda::reload_until")
            res.instance("A4", "%s: %s on the block map is the clear of a full reload: %s" % (ob.path, t.callee.name, ok_), ob.loc(t.line))
            if not ok_:
                res.violation("A4", "%s|block-map-shrinks:%s" % (owner, t.callee.name),
                              "%s removes entries from the block map (%s) outside a full reload: blocks the replica has applied become unknown, their "
                              "children lose a parent, and the heads / the parents of the next commit change" % (owner, t.callee.name), ob.loc(t.line))
    res.floor("A4", "removing calls on the block map (the clears of reload / reload_until)", n4c, 2)
    # A4b: no early success - every Ok return of reload / refresh / reload_until lies behind the (reset,) marking and
    # applying steps, so a held-back block is re-examined by *every* successful refresh, whatever arrived
    for name in ("melda::Melda::reload", "melda::Melda::refresh", "melda::Melda::reload_until"):
        b = facts.body(name)
        if b is None:
            continue
        cfg = cfg_of(b)
        marks = [s for s in cg.sites[b.path] if s.callee is not None and s.callee.name in (R.name("mark_pass"), R.name("marker"))]
        applies = [s for s in cg.sites[b.path] if any(t.path in [a.path for a in appliers] or any(cg.reaches(t, a.path) for a in appliers)
                                                      for t in s.targets + s.closures)
                   and not any(t.path in ("melda::Melda::reload",) for t in s.targets)]
        resets = []
        if name.endswith("refresh"):
            for s in cg.sites[b.path]:
                for cb in s.closures:
                    if any(v == "Pending" for (_, _, v) in status_writes(cb)):
                        resets.append(s)
        oks = []
        for ob, st in assigns_of_return(b, "Ok"):
            oks.append(ob)
        # returns that merely forward the result of a delegated guarded operation are checked in that operation
        need = [("marking pass", marks), ("apply pass", applies)] + ([("Blocked->Pending reset", resets)] if name.endswith("refresh") else [])
        for what, sites in need:
            # loops: the apply site may sit inside a loop (reload_until's work list); use the loop's dominating entry
            ok = bool(sites) and all(any(cfg.dominates(s.block, ob) or any(cfg.dominates(d, ob) for d in cfg.dominators_of(s.block)
                                                                           if d < cfg.n and cfg.is_loop_header(d) and cfg.reaches(s.block, d))
                                         for s in sites) for ob in oks) and bool(oks)
            n4 += 1
            res.instance("A4", "%s: every Ok return lies behind the %s: %s" % (name, what, ok), b.loc())
            if not ok:
                res.violation("A4", "%s|early-success-skips:%s" % (name, what.replace(" ", "-")),
                              "%s can return Ok without having run the %s: a block held back earlier would stay held back although its dependencies have arrived" % (name, what), b.loc())
    # A4c: dependency checks see the whole listing: no block is parsed into the block map after a marking step has
    # run (a block checked while its parents are still unparsed would be held back by listing order alone)
    for name in ("melda::Melda::reload", "melda::Melda::refresh", "melda::Melda::reload_until"):
        b = facts.body(name)
        if b is None:
            continue
        cfg = cfg_of(b)
        ready_fn = ready_fns[0] if ready_fns else None
        marks = [s for s in cg.sites[b.path] if not s.fanout and ready_fn is not None and
                 any(t.path == ready_fn or (cg.reaches(t, ready_fn) and not t.public) for t in s.targets + s.closures)]
        inserts = [s for s in cg.sites[b.path] if s.callee is not None and s.callee.name == "insert" and s.term.args
                   and "deltas" in field_path(arg_term(b, s.term, 0))[0]]
        late = [(m_, i_) for m_ in marks for i_ in inserts if cfg.reaches(m_.block, i_.block)]
        n4 += 1
        res.instance("A4", "%s: %d marking site(s), %d block-map insert(s); no insert is reachable from a marking site: %s" % (name, len(marks), len(inserts), not late), b.loc())
        if late:
            res.violation("A4", "%s|marks-before-listing-is-parsed" % name,
                          "%s runs the dependency check (%s) at a point from which further blocks are still parsed into the block map: a block "
                          "listed before its parent is held back although the parent is in storage" % (name, late[0][0].name()), late[0][0].loc())
    res.floor("A4", "refresh/reload anchors", n4, 3)

    # ------------------------------------------------------------------ A7 / A8 (added after seeds C02-g2, C12-g1)
    from ..common import inlined_sites, iter_chain, PARTIAL_ADAPTERS
    from ..conds import unaccepted
    res.rule("A7", "the marking pass examines every Pending block of the block map; the applier inserts every record of the block it applies")
    mp = R.body("mark_pass")
    mk = R.path("marker")
    n7 = 0
    if mp is not None:
        for s_ in inlined_sites(facts, mp, lambda t: t.callee.target() == mk):
            n7 += 1
            # the element the checker is called for comes from a whole iteration that starts at the block map itself
            whole = False
            for l in s_.lits:
                if l.kind == "variant" and l.variants == {"Some"} and not l.derived:
                    pt = peel(l.term)
                    if pt[0] == "call" and callee_name(pt) == "next" and pt[2]:
                        chain = iter_chain(pt[2][0])
                        names = [callee_name(x) for x in chain]
                        src = any(callee_name(c_) in ("iter", "keys", "values", "into_iter", "par_iter") and c_[2] and
                                  any(x[0] == "field" and x[2] == "deltas" for x in walk(c_[2][0], False)) for c_ in chain)
                        if src and not (set(names) & (PARTIAL_ADAPTERS | {"flat_map", "find", "find_map", "map_while"})):
                            whole = True
            if s_.body.kind == "closure":
                for cs in cg.callers_of(s_.body.path):
                    if s_.body in cs.closures and cs.term.args:
                        chain = iter_chain(arg_term(cs.body, cs.term, 0, 30))
                        names = [callee_name(x) for x in chain]
                        src = any(callee_name(c_) in ("iter", "keys", "values", "into_iter", "par_iter") and c_[2] and
                                  any(x[0] == "field" and x[2] == "deltas" for x in walk(c_[2][0], False)) for c_ in chain)
                        sel = set(names) & (PARTIAL_ADAPTERS | {"flat_map", "find", "find_map", "map_while"})
                        if sel == {"filter"} and _filters_select_exactly(facts, arg_term(cs.body, cs.term, 0, 30), "Pending"):
                            sel = set()
                        if src and not sel:
                            whole = True

            def status_only(l):
                return (l.kind == "variant" and (l.adt == STATUS or (l.variants and l.variants <= {"Ok", "Some", "Continue"}))) or \
                    (l.kind in ("call", "cmp") and any(status_variant(x) for x in walk(l.term)))
            extra = [repr(l) for l in unaccepted(s_.lits, status_only)]
            res.instance("A7", "%s: the dependency check is called for every block of the whole block map (%s) whose status is Pending (other conditions: %s)" % (
                mp.path, whole, extra or "none"), s_.loc())
            if not whole or extra:
                res.violation("A7", "%s|not-every-pending-block-examined" % mp.path,
                              "%s does not run the dependency check for every Pending block of the block map (whole map: %s, further conditions: %s): a block "
                              "that is causally complete but not selected (e.g. not a head, while a sibling branch is incomplete) stays Pending and is never applied" % (
                                  mp.path, whole, extra[:2]), s_.loc())
    res.floor("A7", "dependency-check call sites in the marking pass", n7, 1)
    ap_ = R.body("applier")
    n8 = 0
    if ap_ is not None:
        for s_ in inlined_sites(facts, ap_, lambda t: t.callee.target() in ("revisiontree::RevisionTree::unvalidated_add", "revisiontree::RevisionTree::add")):
            n8 += 1
            extra = [repr(l) for l in unaccepted(s_.lits, lambda l: l.kind == "variant" and l.variants and l.variants <= {"Ok", "Some", "Continue"})]
            res.instance("A7", "%s inserts every record of the block (no condition on the record or on the tree): %s" % (ap_.path, not extra), s_.loc())
            if extra:
                res.violation("A7", "%s|record-skipped" % ap_.path,
                              "%s inserts a change record only under the condition %s: a Ready block takes effect as a whole - skipping a record makes the state "
                              "rebuilt from storage differ from the state of the replica that made the change" % (ap_.path, extra[0]), s_.loc())
    res.floor("A7", "tree insertion sites in the applier", n8, 1)

    # ------------------------------------------------------------------ A6 sibling agreement on bad items
    res.rule("A6", "reload, refresh and reload_until treat an unreadable / invalid listed item alike (sibling agreement)")
    from .. import iters

    def failure_policy(body, per_item):
        """per-item fallible functions (paths) whose failure leaves the listing loop (abort); None when no such loop.
        A call site counts for every per-item function it is or reaches (extracted helpers)."""
        found = False
        aborts = set()
        site_at = {s_.block: s_ for s_ in cg.sites[body.path]}

        def reached(s_):
            out = set()
            for t_ in s_.targets:
                for pth in per_item:
                    if t_.path == pth or cg.reaches(t_, pth):
                        out.add(pth)
            return out
        for hb, ht in body.calls():
            if ht.callee is None or ht.callee.name != "next":
                continue
            blocks = iters.loop_body_blocks(body, hb)
            if not any(x in site_at and reached(site_at[x]) for x in blocks):
                continue
            found = True
            for (x, y) in iters.early_exits(body, hb, blocks):
                for l in lits_of(body, y, facts):
                    if l.block in blocks and l.says_err():
                        for c_ in walk(l.term):
                            if c_[0] == "call" and c_[3] in blocks and c_[3] in site_at:
                                aborts |= reached(site_at[c_[3]])
        if not found:
            # pipeline form (`listing.iter().filter_map(parse)...for_each(insert)`): the per-item steps run in the closures of one
            # adaptor chain; a `for_each` pipeline cannot abort the operation, a `try_for_each` / collect-into-Result one can
            for s_ in cg.sites[body.path]:
                if s_.callee is None or s_.callee.name not in ("for_each", "try_for_each", "collect", "try_fold", "extend") or not s_.term.args:
                    continue
                chain_closures = []
                for ai_ in range(len(s_.term.args) if s_.callee.name == "extend" else 1):
                    for x in walk(arg_term(body, s_.term, ai_, 40)):
                        if x[0] == "closure":
                            cb_ = facts.body(x[1])
                            if cb_ is not None:
                                chain_closures.append(cb_)
                chain_closures += list(s_.closures)
                hit = set()
                for cb_ in chain_closures:
                    for cs_ in cg.sites[cb_.path]:
                        hit |= reached(cs_)
                    for c2 in facts.closures_of(cb_.path):
                        for cs_ in cg.sites[c2.path]:
                            hit |= reached(cs_)
                if hit:
                    found = True
                    if s_.callee.name not in ("for_each", "extend"):
                        aborts |= hit
        return aborts if found else None
    groups = [("block listing", [facts.body(n) for n in ("melda::Melda::reload", "melda::Melda::refresh", "melda::Melda::reload_until")],
               {"melda::DeltaId::from", R.path("fetcher"), R.path("loader")}),
              ("pack listing", [facts.body(n) for n in ("datastorage::DataStorage::reload", "datastorage::DataStorage::refresh")],
               {R.path("pack_loader"), R.path("pack_applier")})]
    n6 = 0
    for what, bodies, per_item in groups:
        pol = {}
        for ob in bodies:
            if ob is None:
                continue
            fp_ = failure_policy(ob, per_item)
            if fp_ is not None:
                pol[ob.path] = frozenset(fp_)
                n6 += 1
        vals = list(pol.values())
        res.instance("A6", "%s loops: failures that abort the operation: %s" % (what, {k.split("::")[-1]: sorted(x_.split("::")[-1] for x_ in v) for k, v in pol.items()}), None)
        if len(set(vals)) > 1:
            common = max(set(vals), key=lambda v: (vals.count(v), -len(v)))
            for k, v in sorted(pol.items()):
                if v != common:
                    res.violation("A6", "%s|bad-item-policy-differs" % k,
                                  "%s handles a listed item that cannot be read or parsed differently from its siblings (aborts on failure of %s, siblings on %s): "
                                  "an incremental refresh and a full reload of the same storage would disagree" % (
                                      k, sorted(x_.split("::")[-1] for x_ in v), sorted(x_.split("::")[-1] for x_ in common)), facts.body(k).loc())
    res.floor("A6", "listing loops with per-item fallible steps", n6, 5)
    # ... and all three propagate a failure of the pack-level step (DataStorage::reload / refresh stop at the first pack that
    # cannot be loaded; going on after that would make the outcome depend on where the listing put the bad pack)
    from .c09 import _result_handled
    n6b = 0
    for name in ("melda::Melda::reload", "melda::Melda::refresh", "melda::Melda::reload_until"):
        ob = facts.body(name)
        if ob is None:
            continue
        for s_ in cg.sites[ob.path]:
            if s_.fanout or not any(t_.path in ("datastorage::DataStorage::reload", "datastorage::DataStorage::refresh") or
                                    (t_.impl_adt == "melda::Melda" and not t_.public and
                                     (cg.reaches(t_, "datastorage::DataStorage::reload") or cg.reaches(t_, "datastorage::DataStorage::refresh")))
                                    for t_ in s_.targets):
                continue
            n6b += 1
            h_ = _result_handled(ob, s_.block, s_.term.dest)
            ok_ = h_ in ("propagated with ?", "returned", "matched")
            res.instance("A6", "%s: result of %s is %s" % (name, s_.name(), h_ or "DROPPED"), s_.loc())
            if not ok_:
                res.violation("A6", "%s|storage-step-result-not-propagated" % name,
                              "%s does not propagate the Result of %s (%s): after a pack that cannot be loaded the remaining listed packs are not indexed, "
                              "and continuing makes the replica's state depend on the position of the bad pack in the listing" % (name, s_.name(), h_ or "dropped"), s_.loc())
    res.floor("A6", "pack-level reload / refresh steps in the three operations", n6b, 3)

    # ------------------------------------------------------------------ A5
    preds = set()
    for (b, bi, st, v) in all_writes:
        pass
    rb = facts.body(ready_fns[0]) if ready_fns else None
    if rb is not None:
        for rbb in [rb] + facts.closures_of(rb.path):
            for s in cg.sites[rbb.path]:
                for t in s.targets:
                    if t.impl_adt == "datastorage::DataStorage" and t.local_ty(0) == "bool":
                        preds.add(t.path)
    res.floor("A5", "availability predicates used by the Ready check", len(preds), 1)
    SPECIAL = ("is_deleted", "is_resolved", "is_empty", "is_charcode")     # revisions that carry no stored object
    for pp in sorted(preds):
        pb = facts.body(pp)
        du = du_of(pb)
        n_true = 0
        # A5b: "available" means stored: whatever the predicate consults, it does not answer from state that is lost when the replica is
        # reopened - the object stage (values not packed yet, or left behind by a dropped object) and the LRU object cache. A block whose
        # object is only there is applied by this replica and held back by a replica reopened on the same storage.
        vol = []
        for mb_ in [pb] + [facts.body(q) for q in cg.reach(pb) if facts.body(q) is not None and facts.body(q).impl_adt == "datastorage::DataStorage"]:
            for bi_, t_ in mb_.calls():
                if t_.callee is None or not t_.args or t_.callee.name not in ("get", "peek", "contains", "contains_key", "get_mut", "get_key_value"):
                    continue
                fp_ = field_path(arg_term(mb_, t_, 0, 16))[0]
                for f_ in ("stage", "cache"):
                    if f_ in fp_:
                        vol.append((f_, mb_, t_))
        res.instance("A5", "%s consults only the object index (look-ups of the stage / the cache reachable from it: %s)" % (
            pp, sorted({f_ + " in " + mb_.path.split("::")[-1] for f_, mb_, _ in vol})), pb.loc())
        for f_ in sorted({f_ for f_, _, _ in vol}):
            mb_, t_ = [(m2, t2) for f2, m2, t2 in vol if f2 == f_][0]
            res.violation("A5", "%s|answers-from-volatile-state:%s" % (pp, f_),
                          "%s can answer `available` from the %s (%s): an object that is in no stored pack makes a block Ready on this replica, and "
                          "the same block stays Blocked on a replica reopened on the same storage" % (pp, "object stage" if f_ == "stage" else "object cache", mb_.path), mb_.loc(t_.line))
        for bi, st in assigns_of_return(pb):
            t = du.rvalue_term(st.rv, 10)
            if t[0] == "const" and t[1] == "bool":
                if t[2] is True:
                    n_true += 1
                    ok = False
                    for l in lits_of(pb, bi, facts):
                        if l.kind == "call" and callee_name(l.term) == "contains_key" and l.truth is True and \
                                "committed_objects" in field_path(l.term[2][0])[0]:
                            ok = True
                        if l.kind == "variant" and l.variants == {"Ok"} and contains_call(l.term, "read_object", R.name("obj_reader")):
                            ok = True
                        if l.kind == "call" and callee_name(l.term) == "is_ok" and l.truth is True and contains_call(l.term[2][0], "read_object", R.name("obj_reader")):
                            ok = True
                        if l.kind == "call" and callee_name(l.term) in SPECIAL and l.truth is True and l.term[2] and peel(l.term[2][0])[0] == "param":
                            ok = True       # a revision without a stored object
                    if not ok:
                        # `a || b || c`: the `true` block is a join of several true-edges; every edge into it must be one of the accepted tests
                        ins_ = []
                        for pr_ in cfg_of(pb).block_preds(bi):
                            pl_ = [l for l in lits_of(pb, pr_, facts) if not l.implied]
                            ins_.append(pl_[-1] if pl_ else Lit("other", ("cut",)))
                        def _acc(l):
                            if l.kind != "call" or l.truth is not True or not l.term[2]:
                                return False
                            n_ = callee_name(l.term)
                            if l.term[4] is not None and _kinds_only(facts, l.term[4].target(), SPECIAL) is not None:
                                return True
                            return (n_ in SPECIAL and peel(l.term[2][0])[0] == "param") or \
                                (n_ == "contains_key" and "committed_objects" in field_path(l.term[2][0])[0])
                        ok = bool(ins_) and all(_acc(l) for l in ins_)
                    res.instance("A5", "%s returns true under index membership / verified read / a revision without stored object: %s" % (pp, ok), pb.loc(st.line))
                    if not ok:
                        res.violation("A5", "%s|unconditional-true" % pp, "%s returns true without index membership or a verified read" % pp, pb.loc(st.line))
            else:
                pt = peel(t)
                ok = pt[0] == "call" and callee_name(pt) in ("is_ok", "contains_key", "is_some") and \
                    contains_call(t, "read_object", R.name("obj_reader"), "contains_key")
                n_true += 1
                res.instance("A5", "%s returns %s" % (pp, fmt(t, 4)), pb.loc(st.line))
                if not ok:
                    res.violation("A5", "%s|unrecognised-result" % pp, "%s returns %s, not a membership / verified-read result" % (pp, fmt(t, 4)), pb.loc(st.line))
        for bi, t in pb.calls():
            if t.dest is not None and t.dest.local == 0 and not t.dest.proj and t.callee is not None:
                n_true += 1
                ct = du.call_term(t, bi, 12)
                ok = (t.callee.name in ("is_ok", "contains_key", "is_some") and contains_call(ct, "read_object", R.name("obj_reader"), "contains_key")) or \
                    (t.callee.name in SPECIAL and ct[2] and peel(ct[2][0])[0] == "param") or \
                    (_kinds_only(facts, t.callee.target(), SPECIAL) is not None and ct[2] and any(peel(a_)[0] == "param" for a_ in ct[2]))
                res.instance("A5", "%s returns %s" % (pp, fmt(ct, 4)), pb.loc(t.line))
                if not ok:
                    res.violation("A5", "%s|unrecognised-result" % pp, "%s returns %s, not a membership / verified-read result" % (pp, fmt(ct, 4)), pb.loc(t.line))
        res.floor("A5", "true-returning paths of %s" % pp, n_true, 1)
        # A5c: writer / reader agreement on the revisions that have no stored object: DataStorage::write_object stores nothing for the
        # kinds it tests first (resolution markers, deletions, empty objects, character objects), so the availability predicate must
        # answer `available` for each of those kinds - a kind the predicate forgets makes every block that records such a revision
        # (a committed resolution) Blocked for ever on a reopened replica
        wo = facts.body("datastorage::DataStorage::write_object")
        if wo is not None:
            def kinds_of(fb_):
                out_ = set()
                for _, t in fb_.calls():
                    if t.callee is None:
                        continue
                    if t.callee.name in SPECIAL:
                        out_.add(t.callee.name)
                    else:
                        k_ = _kinds_only(facts, t.callee.target(), SPECIAL)
                        if k_:
                            out_ |= k_
                return out_
            skipped = kinds_of(wo)
            accepted = kinds_of(pb)
            uses_reader = any(t.callee is not None and t.callee.name in ("read_object", R.name("obj_reader")) for _, t in pb.calls())
            missing = sorted(skipped - accepted) if not uses_reader else []
            res.instance("A5", "%s accepts every revision kind write_object stores nothing for (%s): %s" % (pp, sorted(skipped), not missing), pb.loc())
            res.floor("A5", "revision kinds write_object stores nothing for", len(skipped), 3)
            if missing:
                res.violation("A5", "%s|no-object-kind-not-accepted:%s" % (pp, ",".join(missing)),
                              "%s does not answer `available` for revisions of kind %s, although DataStorage::write_object stores no object for them: "
                              "a block that records such a revision can never become Ready" % (pp, missing), pb.loc())


def _kinds_only(facts, path, special):
    """the revision kinds a crate predicate tests, if it does nothing else (`fn has_no_object(rev) -> bool { rev.is_deleted() || .. }`);
    None for anything else"""
    fb = facts.body(path)
    if fb is None or not fb.in_repo() or fb.kind == "closure" or fb.local_ty(0) != "bool":
        return None
    names = [t.callee.name if t.callee is not None else None for _, t in fb.calls()]
    if not names or any(n_ not in special for n_ in names):
        return None
    return set(names)


def _same_delta(body, block, arg, facts):
    """the status tested by the dominating literal and the applied delta derive from the same source
    (closure parameter / map element variable)"""
    def srcs(t):
        out = set()
        for x in walk(t):
            if x[0] == "var":
                out.add(("v", x[1]))
            if x[0] == "param":
                out.add(("p", x[1]))
        return out
    a = srcs(arg)
    for l in lits_of(body, block, facts):
        if (l.kind == "call" and callee_name(l.term) in ("eq", "ne")) or (l.kind == "variant" and l.adt == STATUS):
            for x in (l.term[2] if l.kind == "call" else [l.term]):
                if any(z[0] == "field" and z[2] == "status" for z in walk(x)):
                    # ignore the guard variables themselves: compare on the underlying element
                    sx = srcs(x)
                    if sx & a:
                        return True
                    # both are reads of the same closure parameter / variable named delta*
                    na = {body.local_name(v) for (k, v) in a if k == "v"} | {body.local_name(v) for (k, v) in a if k == "p"}
                    nx = {body.local_name(v) for (k, v) in sx}
                    if na & nx:
                        return True
                    ra = _roots(arg)
                    rx = _roots(x)
                    if ra & rx:
                        return True
    return False


def _roots(t):
    out = set()
    for x in walk(t):
        if x[0] == "param":
            out.add(("param", x[1]))
        elif x[0] == "upvar":
            out.add(("upvar", x[1]))
        elif x[0] == "call" and callee_name(x) in ("get", "next"):
            out.add(("call", x[3]))
    return out


PACK_LOADER = ["try_load_pack"]


def check_ready_earned(b, ready_block, facts, res):
    PACK_LOADER[0] = roles_of(facts).name("pack_loader")
    cfg = cfg_of(b)
    du = du_of(b)
    edges = all_edge_lits(b, facts)
    # loops by role: `next()` over an iterator derived from the named field of the held delta
    loops = {}
    for e, l in edges:
        if l.kind == "variant" and l.variants == {"Some"}:
            pt = peel(l.term)
            if pt[0] == "call" and callee_name(pt) == "next":
                for fld in ("parents", "packs", "changes"):
                    if any(x[0] == "field" and x[2] == fld for x in walk(pt)):
                        loops[fld] = (e, l)
    # closure form of a dependency check: `field.iter().all(|x| ok(x))` / `!field.iter().any(|x| !ok(x))`
    cforms = {}
    for bi_, t_ in b.calls():
        if t_.callee is None or t_.callee.name not in ("all", "any") or len(t_.args) < 2:
            continue
        recv_ = du.operand_term(t_.args[0], 20)
        for fld in ("parents", "packs", "changes"):
            if fld not in loops and any(x[0] == "field" and x[2] == fld for x in walk(recv_)):
                cl_ = [x for x in walk(du.operand_term(t_.args[1], 8)) if x[0] == "closure"]
                cbody = facts.body(cl_[0][1]) if cl_ else None
                if cbody is not None:
                    cforms[fld] = (bi_, cbody, t_.callee.name)
    res.floor("A2", "dependency checks (parents, packs, changes) as loops or all()/any() closures", len(loops) + len(cforms), 3)
    MODE = {"closure": None}
    for fld_ in ("parents", "packs", "changes"):
        if fld_ not in loops and fld_ not in cforms:
            res.violation("A2", "%s|missing-guard:%s_never_examined" % (b.path, fld_),
                          "%s writes status = Ready without examining the block's `%s` at all (no loop, no all()/any() over that field): a block whose %s "
                          "are missing or invalid takes effect" % (b.path, fld_, fld_), b.loc())

    def loop_body(fld):
        entry, l = loops[fld]
        header = l.edge[0]
        # the `next()` call block precedes the switch block; avoid both when collecting the body
        hdrs = {header} | set(cfg.block_preds(header))
        return cfg.reachable_blocks(entry, avoid=hdrs) | {l.edge[3]}

    def must_pass_closure(fld, what, pass_pred):
        call_block, cb, kind = cforms[fld]
        ccfg = cfg_of(cb)
        cdu = du_of(cb)
        # (1) outer: Ready is reachable from the call only over the edge `all(..) == true` / `any(..) == false`
        want = (kind == "all")
        pass_edges = {e for e, l in edges if l.kind == "call" and callee_name(l.term) == kind and l.term[3] == call_block and l.truth is want}
        outer_ok = bool(pass_edges) and not cfg.reaches(call_block, ready_block, avoid=set(pass_edges))
        # (2) inner: the closure yields the passing value (true for all, false for any) only through the check's pass edge
        MODE["closure"] = cb
        inner_ok = True
        n_sites = 0
        try:
            from ..defuse import subst as _subst

            def value_sites(xb, local, neg, depth=0):
                """[(block, constant value or None, call term or None)]: where the bool in `local` of body xb gets its value"""
                xdu = du_of(xb)
                out = []
                for d in xdu.full_defs(local):
                    if d.kind == "call":
                        out.append((d.block, None, (xdu.call_term(d.term, d.block, 14), neg)))
                        continue
                    rv = d.rv
                    ops = rv.operands()
                    if rv.kind == "use" and ops and ops[0].is_const() and "bool" in ops[0].j:
                        out.append((d.block, bool(ops[0].j["bool"]) != neg, None))
                    elif rv.kind in ("use", "unop") and ops and ops[0].place is not None and not ops[0].place.proj and depth < 6 and \
                            (rv.kind == "use" or rv.j.get("op") == "Not"):
                        out += value_sites(xb, ops[0].place.local, neg != (rv.kind == "unop"), depth + 1)
                    else:
                        out.append((d.block, None, None))
                return out

            def passing_sites(xb, want_, mapping, extra, depth=0):
                """[[Lit]]: for every site where body xb yields want_, the literals that hold there (in the frame of the
                outermost closure); Option combinators with a predicate closure are split into their None / Some cases"""
                res_ = []
                for (sblk, cval, callinfo) in value_sites(xb, 0, False):
                    if cval is not None and cval != want_:
                        continue                # the failing value: no obligation
                    here = extra + [Lit(l.kind, _subst(l.term, mapping), l.truth, l.variants, l.block, l.raw, l.value, l.adt)
                                    for l in lits_of(xb, sblk, facts)]
                    if callinfo is not None:
                        ct, neg = callinfo
                        nm_ = callee_name(ct)
                        w_ = (want_ != neg)
                        inner_c = None
                        if nm_ in ("map_or", "is_none_or", "is_some_and") and len(ct[2]) >= 2 and depth < 3:
                            c_ = ct[2][-1]
                            hops = 0
                            while hops < 20 and c_[0] in ("ref", "deref", "cast", "var"):
                                hops += 1
                                c_ = c_[3] if c_[0] == "var" else c_[1]
                            if c_[0] == "upvar" and xb.kind == "closure":
                                # the predicate is a closure of the enclosing function, captured by this closure and handed on by name
                                from ..conds import capture_term as _capt
                                ct_ = _capt(xb, c_[1], facts)
                                hops = 0
                                while ct_ is not None and hops < 20 and ct_[0] in ("ref", "deref", "cast", "var"):
                                    hops += 1
                                    ct_ = ct_[3] if ct_[0] == "var" else ct_[1]
                                if ct_ is not None and ct_[0] == "closure":
                                    c_ = ct_
                            if c_[0] == "closure":
                                inner_c = c_
                        if inner_c is not None and facts.body(inner_c[1]) is not None:
                            opt = _subst(ct[2][0], mapping)
                            if nm_ == "map_or":
                                d_ = ct[2][1]
                                while d_[0] == "var":
                                    d_ = d_[3]
                                dflt = d_[2] if d_[0] == "const" and d_[1] == "bool" else None
                            else:
                                dflt = (nm_ == "is_none_or")
                            if dflt is None or dflt == w_:
                                res_.append(here + [Lit("variant", opt, None, {"None"}, sblk)])
                            fb_ = facts.body(inner_c[1])
                            m2 = {2: ("field", ("downcast", opt, "Some"), "0", "std::option::Option::Some")}
                            for i_, cap in enumerate(inner_c[2] or []):
                                m2[("upvar", i_)] = _subst(cap, mapping)
                            res_ += passing_sites(fb_, w_, m2, here + [Lit("variant", opt, None, {"Some"}, sblk)], depth + 1)
                            continue
                        here = here + [Lit("call", _subst(ct, mapping), truth=w_, block=sblk)]
                    res_.append(here)
                return res_
            from ..conds import expand_predicates as _expp
            for ls_ in passing_sites(cb, want, {}, []):
                n_sites += 1
                ok_site = any(pass_pred(l) for l in ls_)
                if not ok_site:
                    # a local closure called by name (`let unavailable = |r| !data.is_readable(r); .. unavailable(r)`): its answer stands
                    # for the literals common to the sites where it gives that answer
                    try:
                        ok_site = any(pass_pred(l) for l in _expp(ls_, facts, cb))
                    except Exception:
                        ok_site = False
                inner_ok = inner_ok and ok_site
        finally:
            MODE["closure"] = None
        res.instance("A2", "%s check (closure form %s): Ready only over the passing edge (%s); the closure passes only through `%s` (%d site(s): %s)" % (
            fld, kind, outer_ok, what, n_sites, inner_ok), b.loc(b.blocks[call_block].term.line))
        if not (outer_ok and inner_ok and n_sites):
            res.violation("A2", "%s|missing-guard:%s" % (b.path, what.replace(" ", "_")),
                          "%s can write status = Ready without every element of `%s` passing the check `%s` (closure form `%s`)" % (b.path, fld, what, kind), b.loc())

    def must_pass(fld, what, pass_pred):
        if fld not in loops:
            if fld in cforms:
                must_pass_closure(fld, what, pass_pred)
            return
        entry, _ = loops[fld]
        body_blocks = loop_body(fld)
        pass_edges = {e for e, l in edges if l.edge[0] in body_blocks and pass_pred(l)}
        avoid = set(pass_edges)
        # boolean temporaries (matches!, `a && b` stored in a let): an edge `flag == v` is infeasible on paths that avoid
        # the pass edges when no assignment `flag = v` is reachable on such paths
        changed = True
        while changed:
            changed = False
            for sb in body_blocks:
                t = b.blocks[sb].term
                if t.kind != "switch" or t.j.get("discr_ty") != "bool":
                    continue
                fl = t.discr.local()
                if fl is None:
                    continue
                defs = du.full_defs(fl)
                sites = {True: [], False: []}
                okf = bool(defs)
                for d in defs:
                    if d.kind == "assign" and d.rv.kind == "use" and d.rv.operands()[0].is_const() and "bool" in d.rv.operands()[0].j and d.block in body_blocks:
                        sites[d.rv.operands()[0].j["bool"]].append(d.block)
                    else:
                        okf = False
                if not okf:
                    continue
                for k, (v, tgt) in enumerate(t.switch_edges()):
                    e = cfg.edge_nodes[(sb, k)]
                    if e in avoid:
                        continue
                    val = (v != 0) if v is not None else (0 in [x for x, _ in t.switch_edges() if x is not None])
                    ss = sites[bool(val)]
                    if ss and not any(cfg.reaches(entry, sblk, avoid=avoid) for sblk in ss):
                        avoid.add(e)
                        changed = True
        reach = cfg.reaches(entry, ready_block, avoid=avoid)
        res.instance("A2", "%s loop: Ready unreachable from an iteration without the pass edge of `%s` (%d pass edge(s)): %s" % (
            fld, what, len(pass_edges), not reach), b.loc(b.blocks[ready_block].stmts[0].line if b.blocks[ready_block].stmts else None))
        if reach or not pass_edges:
            res.violation("A2", "%s|missing-guard:%s" % (b.path, what.replace(" ", "_")),
                          "%s can write status = Ready after an iteration of the `%s` loop without passing the check `%s`" % (b.path, fld, what),
                          b.loc())

    # A2c: a dependency loop runs whenever its own field is present: its header is not guarded by the presence or
    # absence of another dependency field (e.g. objects checked only when the block ships a pack)
    DEPF = ("parents", "packs", "changes")
    for fld, (entry, ll) in sorted(loops.items()):
        header = ll.edge[0]
        bad = []
        for l in lits_of(b, header, facts):
            if l.kind != "variant" or not l.variants or not l.variants <= {"Some", "None"}:
                continue
            pt = peel(l.term)
            if pt[0] == "call" and callee_name(pt) == "next":
                continue        # exit edge of a preceding loop
            flds = {x[2] for x in walk(l.term) if x[0] == "field" and x[2] in DEPF}
            if flds and fld not in flds:
                bad.append((sorted(flds), sorted(l.variants)))
            elif flds and "Some" in l.variants:
                # presence of the own field, but tested through a conditional combinator (`changes.as_ref().filter(|_| flag)`,
                # `.and_then(..)`, `.zip(other)`): accepted only when the combinator's closure speaks about the payload alone
                for x in walk(l.term, False):
                    nm = callee_name(x) if x[0] == "call" else None
                    if nm not in ("filter", "take_if", "and_then", "zip", "xor", "and", "then", "then_some", "filter_map"):
                        continue
                    okc = False
                    if nm in ("filter", "take_if") and len(x[2]) >= 2:
                        c_ = x[2][1]
                        hops = 0
                        while hops < 20 and c_[0] in ("ref", "deref", "cast", "var"):
                            hops += 1
                            c_ = c_[3] if c_[0] == "var" else c_[1]
                        fcb = facts.body(c_[1]) if c_[0] == "closure" else None
                        tl = closure_result_lits(fcb, facts, True) if fcb is not None else []
                        okc = bool(tl) and all(
                            any(y[0] == "param" and y[1] == 2 for y in walk(tl_.term)) and
                            not any(y[0] == "param" and y[1] == 1 for y in walk(tl_.term)) for tl_ in tl if tl_.term is not None)
                    if not okc:
                        bad.append(([nm], ["passing"]))
        res.instance("A2", "%s loop is entered whenever `%s` is present (no guard on another dependency field): %s" % (fld, fld, not bad), b.loc())
        if bad:
            res.violation("A2", "%s|%s-check-conditional-on:%s" % (b.path, fld, ",".join(bad[0][0])),
                          "%s runs the `%s` dependency checks only when `%s` is %s: a block for which that does not hold becomes Ready unchecked" % (
                              b.path, fld, ",".join(bad[0][0]), "/".join(bad[0][1])), b.loc())

    def is_call(l, name, truth):
        return l.kind == "call" and callee_name(l.term) == name and l.truth is truth
    is_call_ = is_call

    def elem_of(t, fld):
        """term mentions the element of the current iteration of loop `fld` (the payload of its next())"""
        if MODE["closure"] is not None:
            return any(x[0] == "param" and x[1] == 2 for x in walk(t))
        _, ll = loops[fld]
        hb = peel(ll.term)[3]
        return any(x[0] == "call" and callee_name(x) == "next" and x[3] == hb for x in walk(t))

    def parent_state_ok(l):
        if l.kind == "variant" and l.adt == STATUS and l.variants and l.variants <= {"Ready", "Applied"}:
            return contains_call(l.term, b.name) and elem_of(l.term, "parents")   # match / matches! on the parent's status
        if l.kind != "call" or callee_name(l.term) not in ("eq", "ne") or len(l.term[2]) != 2:
            return False
        if l.truth != (callee_name(l.term) == "eq"):
            return False
        for x, y in ((l.term[2][0], l.term[2][1]), (l.term[2][1], l.term[2][0])):
            v = status_variant(y)
            if v and v[1] in ("Ready", "Applied") and contains_call(x, b.name) and elem_of(x, "parents"):
                return True
        return False
    # (a) parents
    # the function reports an unknown block as Blocked itself: every return under `block map .get(<own id parameter>) is None`
    # is Status::Blocked - then `recursive call says Ready|Applied` already implies `parent is known`
    unknown_blocked = []
    for ob_, st_ in assigns_of_return(b):
        for l_ in lits_of(b, ob_, facts):
            none_ = (l_.kind == "variant" and l_.variants == {"None"}) or is_call_(l_, "is_none", True) or is_call_(l_, "is_some", False)
            tt_ = l_.term if l_.kind == "variant" else (l_.term[2][0] if l_.kind == "call" and l_.term[2] else None)
            if none_ and tt_ is not None and contains_call(tt_, "get") and any(x[0] == "param" and x[1] == 2 for x in walk(tt_)):
                v_ = status_variant(du.rvalue_term(st_.rv, 8))
                unknown_blocked.append(bool(v_) and v_[1] == "Blocked")
    implied_known = bool(unknown_blocked) and all(unknown_blocked)
    res.instance("A2", "%s answers Blocked for an id missing from the block map (a recursive Ready|Applied answer implies `known`): %s" % (b.path, implied_known), b.loc())
    must_pass("parents", "parent is known",
              lambda l: ((is_call(l, "is_none", False) or is_call(l, "is_some", True)) and contains_call(l.term[2][0], "get")
                         and elem_of(l.term[2][0], "parents"))
              or (is_call(l, "contains_key", True) and len(l.term[2]) >= 2 and elem_of(l.term[2][1], "parents")
                  and any(x[0] == "field" and x[2] == "deltas" for x in walk(l.term[2][0])))
              or (l.kind == "variant" and l.variants == {"Some"} and peel(l.term)[0] == "call" and callee_name(peel(l.term)) == "get"
                  and elem_of(l.term, "parents"))
              or (implied_known and parent_state_ok(l)))

    must_pass("parents", "parent is Ready or Applied", parent_state_ok)
    # (b) packs: the verified pack loader (role: DataStorage method returning the pack bytes after the hash check)
    must_pass("packs", "pack loads and matches its hash",
              lambda l: ((is_call(l, "is_err", False) or is_call(l, "is_ok", True)) and contains_call(l.term[2][0], PACK_LOADER[0])
                         and elem_of(l.term[2][0], "packs"))
              or (l.kind == "variant" and l.variants == {"Ok"} and contains_call(l.term, PACK_LOADER[0]) and elem_of(l.term, "packs")))
    # (c) changes

    def valid_rev(l, which):
        if not (l.kind == "call" and l.truth is True and l.term[4] is not None and
                l.term[4].impl_self == "datastorage::DataStorage" and l.term[4].name.startswith("is_")):
            return False
        a = l.term[2][1]
        flds = [x[2] for x in walk(a) if x[0] == "field"]
        return which in flds and elem_of(a, "changes")
    must_pass("changes", "object of the revision is readable and valid", lambda l: valid_rev(l, "1"))
    must_pass("changes", "object of the predecessor is readable and valid",
              lambda l: valid_rev(l, "2") or (l.kind == "variant" and l.variants == {"None"} and
                                              [x for x in walk(l.term) if x[0] == "field" and x[2] == "2"] != [] and elem_of(l.term, "changes")))


def thorough(res):
    from .. import engine
    engine.sensitivity("C02", res)
