"""C15 - Staged changes can be discarded, exported and replayed exactly (guards, completeness, tables)."""
from ..cfg import cfg_of
from ..defuse import du_of, walk, peel, callee_name, fmt
from ..conds import lits_of, success_dominates
from ..callgraph import cg_of
from ..effects import effects_of, REPLICA_STATE
from ..roles import roles_of
from ..common import arg_term, contains_call, field_path, assigns_of_return
from .. import tables

TEXT = ("G1: in reload, refresh and reload_until every call with a (transitive) write effect on replica state is "
        "edge-dominated by `has_staging() == false` (or is a delegation to one of those three), the true edge returns "
        "Err, and the documents / block map are written only behind the success edge of DataStorage::reload, which has "
        "a staging test of its own (a refusal leaves the replica untouched). G2: every Ok(Some(_)) return of commit is preceded by the loop over the whole document map that calls "
        "RevisionTree::commit, and the pack writer clears the data stage. G3: unstage clears the data stage, calls "
        "RevisionTree::unstage for every tree of the whole map and removes the trees left empty. G4 (table agreement): "
        "keys, record arities and positional layout written by stage / DataStorage::stage equal those read by "
        "replay_stage / DataStorage::replay_stage, and replayed revisions are added staged. G5 (who-may-write): the "
        "staging flags are set only by or-ing the argument on insertion and cleared only by commit / unstage; "
        "has_staging is an any-fold over all trees. The tree-level flag is raised only behind the absence test of the revision being inserted; replay_stage drops no record it recognised (G4c). G3b: Melda::unstage judges a tree empty only after that tree was rolled back. Does not decide exact restoration over arbitrary staged sets."
        " G4d: an update record is replayed under Some(previous) with a revision built on it. G5 also requires every answer of Melda::has_staging to pass the fold over the trees.")
TECHNIQUE = 'static analysis over rustc MIR: staging-guard dominance on every state-writing public operation, completeness of unstage, export/replay table agreement, insertion independent of tree content'
TRUSTED = ["rustc nightly MIR", "effect summaries over the resolved call graph", "C01/L2 (unstage re-validates)", "C09/O2"]

GUARDED_OPS = ("melda::Melda::reload", "melda::Melda::refresh", "melda::Melda::reload_until")


def run(facts, res):
    R = roles_of(facts)
    cg = cg_of(facts)
    eff = effects_of(facts)
    res.rule("G1", "reload / refresh / reload_until mutate replica state only under has_staging() == false")
    res.rule("G2", "a successful commit leaves nothing staged")
    res.rule("G3", "unstage is complete (data stage, every tree, empty trees removed)")
    res.rule("G4", "stage export and replay agree on keys, arities, positions; replayed revisions are staged")
    res.rule("G5", "staging flags: set on insertion, cleared only by commit / unstage; has_staging is an any-fold over all trees")

    # ------------------------------------------------------------------ G1
    n1 = 0
    for name in GUARDED_OPS:
        b = facts.body(name)
        if b is None:
            res.floor("G1", name, 0, 1)
            continue
        guard_blocks = []
        for s in cg.sites[b.path]:
            e = eff.site_effects(s) & REPLICA_STATE
            if not e:
                continue
            n1 += 1
            ok = False
            how = ""
            for l in lits_of(b, s.block, facts):
                if l.kind == "call" and callee_name(l.term) == "has_staging" and l.truth is False and l.term[4].impl_self == "melda::Melda":
                    ok = True
                    how = "under !has_staging()"
                    guard_blocks.append(l.block)
                if l.kind == "variant" and l.variants and l.variants <= {"Continue", "Ok"}:
                    pt = peel(l.term)
                    if pt[0] == "call" and pt[4] is not None and _is_staging_guard(facts, facts.body(pt[4].target())):
                        ok = True
                        how = "behind %s()?" % pt[4].name
            if not ok and any(t.path in GUARDED_OPS for t in s.targets) and s.term.dest is not None:
                ok = True
                how = "delegates to " + s.targets[0].path
            res.instance("G1", "%s: %s (writes %s) %s" % (name, s.name(), sorted(f for _, f in e)[:4], how or "UNGUARDED"), s.loc())
            if not ok:
                res.violation("G1", "%s|state-write-without-staging-guard:%s" % (name, s.name()),
                              "%s calls %s (writes %s) without being dominated by `has_staging() == false`: staged changes could be silently dropped" % (
                                  name, s.name(), sorted(f for _, f in e)[:4]), s.loc())
        # the true edge returns Err
        cfg = cfg_of(b)
        for gb in set(guard_blocks):
            t = b.blocks[gb].term
            for k, (v, tgt) in enumerate(t.switch_edges()):
                if v == 0:
                    continue
                reach = cfg.reachable_blocks(cfg.edge_nodes[(gb, k)]) | {tgt}
                oks = [ob for ob, _ in assigns_of_return(b, "Ok") if ob in reach and not cfg.dominates(cfg.edge_nodes[(gb, 0)], ob)]
                if oks:
                    res.violation("G1", "%s|staged-branch-returns-ok" % name, "%s can return Ok on the has_staging() == true branch" % name, b.loc())
    res.floor("G1", "state-writing call sites in reload/refresh/reload_until", n1, 6)
    # G1c: a refusal leaves the replica as it was: the storage layer has a staging test of its own (DataStorage::reload
    # refuses when the data stage is not empty - possible although no tree is staged, after create_object + remove_object),
    # so the documents / block map may be cleared only after that call has succeeded
    from ..conds import success_dominates
    DSR = "datastorage::DataStorage::reload"
    dsr = facts.body(DSR)
    refuses = dsr is not None and any(True for _ in assigns_of_return(dsr, "Err"))
    n1c = 0
    for name in GUARDED_OPS:
        b = facts.body(name)
        if b is None or not refuses:
            continue
        rs = [s_ for s_ in cg.sites[b.path] if not s_.fanout and any(t_.path == DSR or (t_.impl_adt == "melda::Melda" and not t_.public and cg.reaches(t_, DSR))
                                                                 for t_ in s_.targets)]
        if not rs:
            continue
        for s_ in cg.sites[b.path]:
            if s_ in rs:
                continue
            e_ = eff.site_effects(s_) & {("melda::Melda", "documents"), ("melda::Melda", "deltas")}
            if not e_ or any(t_.path in GUARDED_OPS for t_ in s_.targets):
                continue
            n1c += 1
            ok_ = any(success_dominates(b, r_.block, s_.block, facts) for r_ in rs)
            res.instance("G1", "%s: %s (writes %s) only after DataStorage::reload accepted: %s" % (name, s_.name(), sorted(f for _, f in e_), ok_), s_.loc())
            if not ok_:
                res.violation("G1", "%s|state-cleared-before-storage-refusal:%s" % (name, s_.name()),
                              "%s calls %s (writes %s) before DataStorage::reload had the chance to refuse (non-empty data stage): the operation "
                              "returns Err but the replica has already lost its documents" % (name, s_.name(), sorted(f for _, f in e_)), s_.loc())
    res.floor("G1", "documents / block-map writes in operations that call DataStorage::reload", n1c, 2)

    # ------------------------------------------------------------------ G2
    c = facts.body("melda::Melda::commit")
    if c is not None:
        cfg = cfg_of(c)
        from ..common import inlined_sites, iter_chain
        tc = inlined_sites(facts, c, lambda t: t.callee.target() == "revisiontree::RevisionTree::commit")
        res.floor("G2", "RevisionTree::commit call in commit", len(tc), 1)
        for s in tc:
            whole = False
            hdr = None
            if s.body.kind == "closure" and s.outer_body is c:
                # `documents.values().for_each(|rt| rt.lock().commit())`: the closure is applied to the whole document map
                ct_ = c.blocks[s.outer_block].term
                if ct_.callee is not None and ct_.callee.name in ("for_each", "try_for_each") and ct_.args:
                    recv_ = arg_term(c, ct_, 0, 30)
                    names = [callee_name(x) for x in iter_chain(recv_)]
                    if any(x[0] == "field" and x[2] == "documents" for x in walk(recv_)) and \
                            not (set(names) & {"take", "skip", "filter", "step_by", "take_while", "skip_while", "filter_map", "find"}):
                        whole = True
                        hdr = s.outer_block
            for l in (lits_of(c, s.block, facts) if s.body is c else []):
                if l.kind == "variant" and l.variants == {"Some"}:
                    pt = peel(l.term)
                    if pt[0] == "call" and callee_name(pt) == "next":
                        names = [callee_name(x) for x in walk(pt, False) if x[0] == "call"]
                        if any(x[0] == "field" and x[2] == "documents" for x in walk(pt)) and cfg.is_loop_header(pt[3]) and \
                                not (set(names) & {"take", "skip", "filter", "step_by", "take_while", "skip_while"}):
                            whole = True
                            hdr = pt[3]
            oks = [ob for ob, st in assigns_of_return(c, "Ok") if any(x[0] == "agg" and x[2] == "Some" for x in walk(du_of(c).rvalue_term(st.rv, 10)))]
            dom = hdr is not None and all(cfg.dominates(hdr, ob) for ob in oks) and bool(oks)
            res.instance("G2", "commit: loop over the whole document map calling RevisionTree::commit (%s) precedes every Ok(Some) return (%s)" % (whole, dom), s.loc())
            if not (whole and dom):
                res.violation("G2", "commit|trees-not-all-committed", "commit can return Ok(Some(_)) without having run RevisionTree::commit over every tree", s.loc())
        tcb = facts.body("revisiontree::RevisionTree::commit")
        if tcb is not None:
            e = {f for (o, f) in eff.of(tcb.path)}
            ok = {"staging"} <= e
            res.instance("G2", "RevisionTree::commit clears the tree flag and every entry flag (writes %s)" % sorted(e), tcb.loc())
            if not ok or ("revisiontree::RevisionTreeEntry", "staging") not in eff.of(tcb.path):
                res.violation("G2", "RevisionTree::commit|flags", "RevisionTree::commit does not clear both the tree and the entry staging flags", tcb.loc())
        pk = R.body("pack_writer")
        if pk is not None:
            ok = any(t.callee is not None and t.callee.name == "clear" and field_path(arg_term(pk, t, 0))[0][:1] == ["stage"] for _, t in pk.calls())
            res.instance("G2", "the pack writer clears the data stage: %s" % ok, pk.loc())
            if not ok:
                res.violation("G2", "pack|stage-not-cleared", "DataStorage::pack does not clear the stage after a successful write", pk.loc())

    # ------------------------------------------------------------------ G3
    u = facts.body("melda::Melda::unstage")
    if u is None:
        res.floor("G3", "unstage", 0, 1)
    else:
        du = du_of(u)
        s_data = [s for s in cg.sites[u.path] if ("datastorage::DataStorage", "stage") in eff.site_effects(s)]
        s_tree = [s for s in cg.sites[u.path] if any(cg.reaches(t, "revisiontree::RevisionTree::unstage") or t.path == "revisiontree::RevisionTree::unstage" for t in s.targets + s.closures)]
        s_ret = [s for s in cg.sites[u.path] if s.callee is not None and s.callee.name == "retain" and "documents" in "".join(field_path(arg_term(u, s.term, 0))[0])]
        whole = False
        for s in s_tree:
            recv = arg_term(u, s.term, 0, 30)
            names = [callee_name(x) for x in walk(recv, False) if x[0] == "call"]
            if any(x[0] == "field" and x[2] == "documents" for x in walk(recv)) and not (set(names) & {"take", "skip", "filter", "step_by"}):
                whole = True
        ret_ok = False
        for s in s_ret:
            for cb in s.closures:
                rt = du_of(cb).local_term(0, 12)
                inner = rt
                while inner[0] == "var":
                    inner = inner[3]
                if inner[0] == "unop" and inner[1] == "Not" and contains_call(inner[2], "is_empty"):
                    ret_ok = True
        cfgu = cfg_of(u)
        oks = [ob for ob, _ in assigns_of_return(u, "Ok")]
        alldom = all(all(cfgu.dominates(s.block, ob) for ob in oks) for s in (s_data + s_tree + s_ret)) and bool(oks)
        ds = facts.body("datastorage::DataStorage::unstage")
        clears = ds is not None and any(t.callee is not None and t.callee.name == "clear" and field_path(arg_term(ds, t, 0))[0][:1] == ["stage"] for _, t in ds.calls())
        res.instance("G3", "unstage: clears data stage (%s/%s), RevisionTree::unstage over the whole map (%s/%s), removes empty trees (%s), all before Ok (%s)" % (
            bool(s_data), clears, bool(s_tree), whole, ret_ok, alldom), u.loc())
        if not (s_data and clears and s_tree and whole and ret_ok and alldom):
            res.violation("G3", "unstage|incomplete", "Melda::unstage is incomplete: data stage cleared %s/%s, every tree unstaged %s/%s, empty trees removed %s, all on every Ok path %s" % (
                bool(s_data), clears, bool(s_tree), whole, ret_ok, alldom), u.loc())

        # G3b: a tree is judged empty *after* its roll-back: the roll-back of the trees dominates the `retain` that drops the empty
        # ones, or - when one closure does both - the call of RevisionTree::unstage dominates the emptiness test inside it. Testing
        # first keeps the trees of objects that only ever existed in the stage: empty, without winner, and every later update fails.
        for s in s_ret:
            same = s in s_tree
            if not same:
                ok3b = bool(s_tree) and all(cfgu.dominates(t_.block, s.block) and t_.block != s.block for t_ in s_tree)
            else:
                ok3b = False
                for cb in s.closures:
                    cu = [bi for bi, t in cb.calls() if t.callee is not None and t.callee.target() == "revisiontree::RevisionTree::unstage"]
                    ce = [bi for bi, t in cb.calls() if t.callee is not None and t.callee.name == "is_empty"]
                    if cu and ce:
                        ccfg = cfg_of(cb)
                        ok3b = all(any(ccfg.dominates(a_, b_) and a_ != b_ for a_ in cu) for b_ in ce)
            res.instance("G3", "unstage: the emptiness test that drops a tree runs after that tree's roll-back: %s" % ok3b, s.loc())
            if not ok3b:
                res.violation("G3", "unstage|emptiness-tested-before-rollback",
                              "Melda::unstage decides which trees to drop before the staged revisions are rolled back: objects created since the last "
                              "commit stay behind as empty trees without winner", s.loc())

    # ------------------------------------------------------------------ G4
    st = facts.body("melda::Melda::stage")
    rp = facts.body("melda::Melda::replay_stage")
    if st is None or rp is None:
        res.floor("G4", "stage / replay_stage", 0, 2)
    else:
        wk = set(tables.json_keys_written(st))
        rk = set(tables.json_keys_read(rp))
        res.instance("G4", "stage keys written %s / replay keys read %s" % (sorted(wk), sorted(rk)), st.loc())
        want = {facts.const_str("constants::OBJECTS_FIELD"), facts.const_str("constants::CHANGESETS_FIELD")}
        if wk != rk or wk != want:
            res.violation("G4", "stage-keys", "stage writes keys %s, replay_stage reads %s (constants: %s)" % (sorted(wk), sorted(rk), sorted(want)), rp.loc())
        arr = []
        from ..common import closure_call_mapping
        from ..defuse import subst as _subst
        for cb in [st] + facts.closures_of(st.path):
            mp_ = closure_call_mapping(facts, cb) if cb.kind == "closure" else None
            for (n_, els_, ln_, bi_) in tables.array_literals(cb):
                # a record-builder closure called by name: its parameters stand for the arguments of the call
                arr.append((n_, [_subst(e_, mp_) for e_ in els_] if mp_ else els_, ln_, bi_))
        w_ar = sorted({n for n, _, _, _ in arr})
        lc = {}
        for rm_ in [rp] + facts.closures_of(rp.path):       # the record loop may be a `try_for_each` closure
            for k_, v_ in tables.len_compared_consts(rm_).items():
                lc.setdefault(k_, []).extend(v_)
        r_ar = sorted({c_ for (op, c_) in lc if op == "Eq"})
        res.instance("G4", "stage record arities written %s / replayed %s" % (w_ar, r_ar), st.loc())
        if w_ar != r_ar or not w_ar:
            res.violation("G4", "stage-arities", "stage writes change records of arity %s, replay_stage accepts %s" % (w_ar, r_ar), rp.loc())
        # positions: writer
        wpos = {}
        for n, els, ln, bi in arr:
            tags = []
            for e in els:
                from . import c03 as _c03
                tg = _c03._writer_tag(e)
                tags.append(tg if tg != "rev" else None)
            wpos[n] = tags
        # reader: RevisionTree::add(r, prev, true) under len()==n, r = Revision::new(idx, digest, parent)
        rpos = {}
        staged_ok = True
        n_add = 0
        from ..common import inlined_sites

        def arity_of(lits):
            ar = None
            for l in lits:
                if l.kind == "cmp" and l.term[1] == "Eq" and l.truth:
                    for x in (l.term[2], l.term[3]):
                        if x[0] == "const" and x[1] == "int":
                            ar = x[2]
            return ar
        # sites are read through private helpers (`replay_staged_revision(uuid, r, prev)`): arguments in replay_stage's frame
        for s_ in inlined_sites(facts, rp, lambda t: t.callee.target() == "revisiontree::RevisionTree::add"):
            n_add += 1
            ar = arity_of(s_.lits)
            sg = s_.args[3] if len(s_.args) > 3 else ("cut",)
            while sg[0] == "var":
                sg = sg[3]
            if not (sg[0] == "const" and sg[1] == "bool" and sg[2] is True):
                staged_ok = False
            rv = peel(s_.args[1])
            if ar is not None and rv[0] == "call" and callee_name(rv) == "new" and len(rv[2]) >= 3:
                pos = rpos.setdefault(ar, {})
                pos.setdefault("rev.digest", set()).update(tables.index_consts(rv[2][1]))
                if ar == 3:
                    pos.setdefault("prev", set()).update(tables.index_consts(rv[2][2]) | tables.index_consts(s_.args[2]))
        for s_ in inlined_sites(facts, rp, lambda t: t.callee.name in ("contains_key", "get_mut", "insert") and bool(t.args)):
            if not any(x[0] == "field" and x[2] == "documents" for x in walk(s_.args[0])):
                continue
            ar = arity_of(s_.lits)
            if ar is not None and len(s_.args) > 1:
                rpos.setdefault(ar, {}).setdefault("uuid", set()).update(tables.index_consts(s_.args[1]))
        res.instance("G4", "stage record layout written %s / replayed %s; replayed revisions staged: %s (%d add sites)" % (wpos, rpos, staged_ok, n_add), rp.loc())
        res.floor("G4", "RevisionTree::add sites in replay_stage", n_add, 2)
        if not staged_ok:
            res.violation("G4", "replay-not-staged", "replay_stage adds a revision with staging = false", rp.loc())
        for n, tags in wpos.items():
            for p, tag in enumerate(tags):
                if tag is None or rpos.get(n, {}).get(tag) != {p}:
                    res.violation("G4", "stage-position:%d:%s" % (n, tag), "arity-%d stage record: writer puts %s at position %d, replay reads it from %s" % (
                        n, tag, p, sorted(rpos.get(n, {}).get(tag, []))), rp.loc())
        # must agree with the block format as well (same record layout in Delta::to_json)
        dj = facts.body("melda::Delta::to_json")
        if dj is not None:
            from . import c03
            dpos = {n: [c03._writer_tag(e) for e in els] for cb_ in [dj] + facts.closures_of(dj.path) for n, els, _, _ in tables.array_literals(cb_)}
            if dpos != wpos:
                res.violation("G4", "stage-vs-block-layout", "stage records %s and block records %s use different layouts" % (wpos, dpos), st.loc())
    # G4c: no accepted record is dropped: from the edge on which replay_stage recognises a record by its length, the loop cannot
    # go on to the next record without a tree insertion (an Err return leaves the loop).  Records are exported in hash-map
    # order, so "the object is not there yet" can be true for an update record merely because it precedes the creation record.
    if rp is not None:
        from ..common import inlined_sites as _is
        from ..conds import all_edge_lits as _ael
        rcfg = cfg_of(rp)
        add_blocks = {s_.outer_block for s_ in _is(facts, rp, lambda t: t.callee.target() == "revisiontree::RevisionTree::add", closures=False) if s_.outer_body is rp}
        n4c = 0
        for e_, l in _ael(rp, facts):
            if not (l.kind == "cmp" and l.term[1] == "Eq" and l.truth is True and any(x[0] == "const" and x[1] == "int" and x[2] in (2, 3) for x in (l.term[2], l.term[3])) and
                    any((x[0] == "call" and callee_name(x) == "len") or (x[0] == "unop" and x[1] == "PtrMetadata") for x in walk(l.term))):
                continue
            hdrs = [hb for hb, ht in rp.calls() if ht.callee is not None and ht.callee.name == "next" and rcfg.is_loop_header(hb) and rcfg.dominates(hb, l.edge[0])]
            if not hdrs:
                continue
            n4c += 1
            hdr = hdrs[-1]
            skip = rcfg.reaches(e_, hdr, avoid=add_blocks)
            res.instance("G4", "replay_stage: a record of length %s is never dropped (every way back to the record loop passes a tree insertion): %s" % (
                [x[2] for x in (l.term[2], l.term[3]) if x[0] == "const"], not skip), rp.loc(rp.blocks[l.edge[0]].term.line))
            if skip:
                res.violation("G4", "replay_stage|record-dropped",
                              "replay_stage can move on to the next record without inserting the current one: records are exported in hash-map order, so a "
                              "condition such as `the object exists already` fails for an update record that precedes its creation record and the staged "
                              "edit is lost on replay", rp.loc(rp.blocks[l.edge[0]].term.line))
        # closure form of the record loop (`records.try_for_each(|record| ..)`): inside the closure, from the edge that recognises a record
        # by its length no Ok return is reachable without a tree insertion
        from ..common import assigns_of_return as _aor
        for cm_ in facts.closures_of(rp.path):
            ccfg = cfg_of(cm_)
            cadds = {s_.outer_block for s_ in _is(facts, cm_, lambda t: t.callee.target() == "revisiontree::RevisionTree::add", closures=False) if s_.outer_body is cm_}
            oks_ = [ob_ for ob_, _ in _aor(cm_, "Ok")]
            for e_, l in _ael(cm_, facts):
                if not (l.kind == "cmp" and l.term[1] == "Eq" and l.truth is True and any(x[0] == "const" and x[1] == "int" and x[2] in (2, 3) for x in (l.term[2], l.term[3])) and
                        any((x[0] == "call" and callee_name(x) == "len") or (x[0] == "unop" and x[1] == "PtrMetadata") for x in walk(l.term))):
                    continue
                n4c += 1
                skip = any(ccfg.reaches(e_, ob_, avoid=cadds) for ob_ in oks_)
                res.instance("G4", "replay_stage (closure form): a record of length %s is never dropped: %s" % (
                    [x[2] for x in (l.term[2], l.term[3]) if x[0] == "const"], not skip), cm_.loc(cm_.blocks[l.edge[0]].term.line))
                if skip:
                    res.violation("G4", "replay_stage|record-dropped",
                                  "replay_stage can move on to the next record without inserting the current one", cm_.loc(cm_.blocks[l.edge[0]].term.line))
        res.floor("G4", "record-length branches in replay_stage", n4c, 2)
        # G4d: an update record (three elements) is replayed as the child of the revision it names: every tree insertion under the
        # arity-3 test passes `Some(previous)` as the parent and a revision built on that previous revision - never a parentless
        # revision with a constant index (an update re-rooted as a creation has another identifier than the staged one and becomes a
        # second root once the real history arrives)
        n4d = 0
        for s_ in _is(facts, rp, lambda t: t.callee.target() in ("revisiontree::RevisionTree::add", "revisiontree::RevisionTree::unvalidated_add")):
            is3 = any(l.kind == "cmp" and l.term[1] == "Eq" and l.truth is True and
                      any(x[0] == "const" and x[1] == "int" and x[2] == 3 for x in (l.term[2], l.term[3])) for l in s_.lits)
            if not is3 or len(s_.args) < 3:
                continue
            n4d += 1
            par = s_.args[2]
            has_some = any(x[0] == "agg" and x[2] == "Some" for x in walk(par))
            has_none = any(x[0] == "agg" and x[2] == "None" for x in walk(par))
            rev_ok = not any(x[0] == "call" and callee_name(x) == "new" and x[4] is not None and "Revision" in (x[4].path or "") and len(x[2]) >= 3 and
                             any(y[0] == "agg" and y[2] == "None" for y in walk(x[2][2])) for x in walk(s_.args[1]))
            ok = has_some and not has_none and rev_ok
            res.instance("G4", "replay_stage: an update record is inserted under its recorded parent (Some(prev): %s, revision built on prev: %s)" % (
                has_some and not has_none, rev_ok), s_.loc())
            if not ok:
                res.violation("G4", "replay_stage|update-record-replayed-without-parent",
                              "replay_stage can insert the revision of an update record without its recorded parent (or rebuilt as a parentless revision): "
                              "the replayed identifier differs from the staged one, and the object gets a second root when its history arrives", s_.loc())
        res.floor("G4", "insertions of update records in replay_stage", n4d, 1)

    # G4b: the consumers of record lists (whose order comes from a hash map) insert every record unconditionally:
    # no insertion may depend on what earlier records already put into the tree
    TREE_QUERIES = {"get_revisions", "get_leafs", "get_winner", "get_parent", "has_staging"}
    for fn in ("melda::Melda::replay_stage", R.path("applier")):
        fb = facts.body(fn)
        if fb is None:
            continue
        for bi, t in fb.calls():
            if t.callee is None or t.callee.target() not in ("revisiontree::RevisionTree::add", "revisiontree::RevisionTree::unvalidated_add"):
                continue
            dep = []
            for l in lits_of(fb, bi, facts):
                terms = [l.term] if l.kind != "call" else [l.term]
                for tt in terms:
                    for x in walk(tt):
                        if x[0] == "call" and x[4] is not None and x[4].impl_self == "revisiontree::RevisionTree" and callee_name(x) in TREE_QUERIES:
                            dep.append(callee_name(x))
            res.instance("G4", "%s: insertion of a record does not depend on the tree's current content: %s" % (fn, not dep), fb.loc(t.line))
            if dep:
                res.violation("G4", "%s|insertion-depends-on-tree-content" % fn,
                              "%s inserts a revision only under a condition on the tree's current content (%s): records arrive in hash-map order, so the "
                              "result depends on that order (a child exported before its parent is dropped)" % (fn, sorted(set(dep))), fb.loc(t.line))
    dst = facts.body("datastorage::DataStorage::stage")
    drp = facts.body("datastorage::DataStorage::replay_stage")
    if dst is not None and drp is not None:
        from ..flows import flow_of
        w_ok = any(t.callee is not None and t.callee.name == "insert" and "serde_json::Map" in t.callee.path for _, t in dst.calls())
        if not w_ok:
            # `self.stage.iter().map(..).collect::<Map<_, _>>()`
            rt_ = du_of(dst).local_term(0, 24)
            names_ = {callee_name(x) for x in walk(rt_, False) if x[0] == "call"}
            w_ok = "collect" in names_ and any(x[0] == "field" and x[2] == "stage" for x in walk(rt_)) and \
                not (names_ & {"filter", "take", "skip", "step_by", "filter_map", "take_while", "skip_while"})
        r_ins = [(bi, t) for bi, t in drp.calls() if t.callee is not None and t.callee.name == "insert" and field_path(arg_term(drp, t, 0))[0][:1] == ["stage"]]
        r_ok = bool(r_ins)
        for bi, t in r_ins:
            k = arg_term(drp, t, 1, 20)
            v = arg_term(drp, t, 2, 20)
            # key and value come from the same iterated entry
            r_ok = r_ok and contains_call(k, "next") and contains_call(v, "next")
        if not r_ins:
            # closure form: `entries.iter().filter(..).for_each(|(digest, v)| { stage.insert(digest.clone(), v.clone()); })`
            from ..conds import capture_term
            for cb in facts.closures_of(drp.path):
                for bi, t in cb.calls():
                    if t.callee is None or t.callee.name != "insert" or len(t.args) < 3:
                        continue
                    recv = arg_term(cb, t, 0, 12)
                    into_stage = False
                    for x in walk(recv):
                        if x[0] == "upvar":
                            ct = capture_term(cb, x[1], facts)
                            if ct is not None and "stage" in field_path(ct)[0]:
                                into_stage = True
                    if not into_stage:
                        continue
                    r_ins.append((bi, t))
                    k = arg_term(cb, t, 1, 20)
                    v = arg_term(cb, t, 2, 20)
                    r_ok = any(x[0] == "param" and x[1] == 2 for x in walk(k)) and any(x[0] == "param" and x[1] == 2 for x in walk(v)) and \
                        any(cs.callee is not None and cs.callee.name == "for_each" for cs in cg_of(facts).callers_of(cb.path) if cb in cs.closures)
        res.instance("G4", "DataStorage::stage exports digest->object (%s); replay_stage re-inserts each entry under its digest (%s)" % (w_ok, r_ok), dst.loc())
        if not (w_ok and r_ok):
            res.violation("G4", "data-stage-roundtrip", "DataStorage::stage / replay_stage no longer copy every (digest, object) entry", drp.loc())

    # ------------------------------------------------------------------ G5
    n5 = 0
    for b in facts.repo_bodies():
        if b.impl_trait is not None:
            continue
        du = du_of(b)
        for blk in b.blocks:
            if blk.cleanup:
                continue
            for stt in blk.stmts:
                if stt.kind != "assign" or not stt.place.proj:
                    continue
                lp = stt.place.proj[-1]
                if lp["k"] != "field" or lp["n"] != "staging" or lp.get("of") not in ("revisiontree::RevisionTree", "revisiontree::RevisionTreeEntry"):
                    continue
                n5 += 1
                t = du.rvalue_term(stt.rv, 8)
                inner = t
                while inner[0] == "var":
                    inner = inner[3]
                kind = None
                if inner[0] == "const" and inner[1] == "bool":
                    kind = "clear" if inner[2] is False else "set"
                elif inner[0] == "binop" and inner[1] == "BitOr" and any(x[0] == "param" and b.local_ty(x[1]) == "bool" for x in walk(inner)) and \
                        any(x[0] == "field" and x[2] == "staging" for x in walk(inner)):
                    kind = "or-arg"
                elif inner[0] == "param" and b.local_ty(inner[1]) == "bool":
                    kind = "or-arg"
                allowed = {"clear": ("commit", "unstage"), "or-arg": ("unvalidated_add", "new"), "set": ()}
                ok = kind is not None and b.name in allowed.get(kind, ())
                res.instance("G5", "%s writes %s.staging: %s" % (b.path, lp["of"].rsplit("::", 1)[-1], kind), b.loc(stt.line))
                if ok and kind == "or-arg" and lp.get("of") == "revisiontree::RevisionTree" and b.impl_adt == "revisiontree::RevisionTree":
                    # the tree-level flag is raised only for a revision that is actually inserted (behind the absence test):
                    # raised for a duplicate, has_staging() answers true although nothing is staged and the next commit
                    # writes an empty block (C04: committing when nothing changed writes nothing)
                    behind_absent = any(
                        (l.kind == "call" and callee_name(l.term) == "contains_key" and l.truth is False and "revisions" in field_path(l.term[2][0])[0]) or
                        (l.kind == "variant" and l.variants == {"Vacant"}) or
                        (l.kind == "variant" and l.variants == {"None"} and peel(l.term)[0] == "call" and callee_name(peel(l.term)) in ("get", "insert") and
                         "revisions" in field_path(peel(l.term)[2][0])[0])
                        for l in lits_of(b, blk.idx, facts))
                    res.instance("G5", "%s raises the tree's staging flag only behind the absence test of the revision: %s" % (b.path, behind_absent), b.loc(stt.line))
                    if not behind_absent:
                        res.violation("G5", "%s|tree-flag-raised-without-insertion" % b.path,
                                      "%s raises the tree's staging flag before / without knowing that the revision is new: re-adding a known revision with "
                                      "staging = true leaves has_staging() true with nothing staged, so an unchanged document is committed as an empty block" % b.path, b.loc(stt.line))
                if not ok:
                    res.violation("G5", "%s|staging-flag-write:%s" % (b.path, kind), "%s writes the staging flag (%s); only insertion may set it (or-ing the argument) and only commit / unstage may clear it" % (b.path, kind), b.loc(stt.line))
    for b in facts.repo_bodies():
        for blk in b.blocks:
            for stt in blk.stmts:
                if stt.kind == "assign" and stt.rv.kind == "agg" and stt.rv.j.get("adt") in ("revisiontree::RevisionTree", "revisiontree::RevisionTreeEntry") and b.impl_trait is None:
                    n5 += 1
                    f = stt.rv.j["fields"]
                    t = du_of(b).operand_term(stt.rv.operands()[f.index("staging")], 6)
                    ok = (t[0] == "const" and t[2] is False) or (peel(t)[0] == "param" and b.local_ty(peel(t)[1]) == "bool")
                    res.instance("G5", "%s initialises %s.staging from %s" % (b.path, stt.rv.j["adt"].rsplit("::", 1)[-1], fmt(t, 3)), b.loc(stt.line))
                    if not ok:
                        res.violation("G5", "%s|staging-flag-init" % b.path, "%s initialises a staging flag from %s" % (b.path, fmt(t, 3)), b.loc(stt.line))
    res.floor("G5", "staging flag writes / initialisers", n5, 3)
    # commit clears the tree flag only after clearing every entry flag; unstage after dropping every staged entry
    for fn, pre in (("revisiontree::RevisionTree::commit", "values_mut"), ("revisiontree::RevisionTree::unstage", "retain")):
        b = facts.body(fn)
        if b is None:
            continue
        cfg = cfg_of(b)
        pres = [bi for bi, t in b.calls() if t.callee is not None and t.callee.name == pre]
        clr = [blk.idx for blk in b.blocks if not blk.cleanup for stt in blk.stmts if stt.kind == "assign" and stt.place.proj and
               stt.place.proj[-1].get("n") == "staging" and stt.place.proj[-1].get("of") == "revisiontree::RevisionTree"]
        ok = bool(pres) and bool(clr) and all(any(cfg.dominates(p, c_) for p in pres) for c_ in clr)
        if not clr and pres:
            # `if std::mem::take(&mut self.staging) { entries processed }`: the flag is read and cleared in one step; where it was set,
            # every path to the return passes the processing of the entries (nothing fallible in between)
            rets = [blk.idx for blk in b.blocks if not blk.cleanup and blk.term.kind == "return"]
            for bi, t in b.calls():
                if t.callee is None or t.callee.name not in ("take", "replace") or not t.args or "staging" not in field_path(arg_term(b, t, 0, 8))[0]:
                    continue
                if t.callee.name == "replace" and not (len(t.args) > 1 and t.args[1].is_const() and t.args[1].j.get("bool") is False):
                    continue
                was_set = [blk.idx for blk in b.blocks if not blk.cleanup and any(
                    l.kind == "call" and callee_name(l.term) in ("take", "replace") and l.term[3] == bi and l.truth is True and not l.implied
                    for l in lits_of(b, blk.idx, facts))]
                entry = [x for x in was_set if all(cfg.dominates(x, y) for y in was_set)]
                start = entry[0] if entry else bi
                ok = bool(rets) and (start in pres or not any(cfg.reaches(start, r_, avoid=set(pres)) for r_ in rets))
        res.instance("G5", "%s clears the tree flag only after `%s` over the entries: %s" % (fn, pre, ok), b.loc())
        if not ok:
            res.violation("G5", "%s|flag-cleared-early" % fn, "%s clears the tree's staging flag without first processing every entry (%s)" % (fn, pre), b.loc())
    hs = facts.body("melda::Melda::has_staging")
    if hs is not None:
        t = du_of(hs).local_term(0, 20)
        names = [callee_name(x) for x in walk(t, False) if x[0] == "call"]
        ok = "any" in names and any(x[0] == "field" and x[2] == "documents" for x in walk(t)) and not (set(names) & {"take", "skip", "filter", "step_by"})
        cbs = facts.closures_of(hs.path)
        ok = ok and any(tt.callee is not None and tt.callee.target() == "revisiontree::RevisionTree::has_staging" for cb in cbs for _, tt in cb.calls())
        res.instance("G5", "Melda::has_staging = any(tree.has_staging()) over the whole document map: %s" % ok, hs.loc())
        if not ok:
            res.violation("G5", "has_staging|not-any-fold", "Melda::has_staging is not an any-fold of RevisionTree::has_staging over all trees", hs.loc())
        # ... and every answer comes from that fold: no return of has_staging is reachable without passing the fold (a replica-level
        # "dirty" flag that some staging operation forgets to raise answers `nothing staged` while a resolution is staged: reload and
        # refresh then drop it silently and commit reports nothing to do)
        hcfg = cfg_of(hs)
        folds = [bi for bi, tt in hs.calls() if tt.callee is not None and tt.callee.name in ("any", "all", "find_any", "position_any", "fold", "try_fold", "count", "for_each", "try_for_each")]
        rets_ = [blk.idx for blk in hs.blocks if not blk.cleanup and blk.term.kind == "return"]
        byp = [r_ for r_ in rets_ if folds and hcfg.reaches(0, r_, avoid=set(folds)) and 0 not in folds]
        res.instance("G5", "Melda::has_staging: every answer passes the fold over the trees: %s" % (not byp and bool(folds)), hs.loc())
        if byp and folds:
            res.violation("G5", "has_staging|answer-bypasses-the-fold",
                          "Melda::has_staging can answer without visiting the revision trees (a shortcut on replica-level state): staged changes made "
                          "by an operation that does not maintain that state are invisible to commit, reload and refresh", hs.loc())


def thorough(res):
    from .. import engine
    engine.sensitivity("C15", res)


def _is_staging_guard(facts, g):
    """g is a Melda method that returns Ok only when has_staging() is false"""
    if g is None or g.impl_adt != "melda::Melda" or g.kind == "closure":
        return False
    oks = [ob for ob, _ in assigns_of_return(g, "Ok")]
    if not oks:
        return False
    for ob in oks:
        if not any(l.kind == "call" and callee_name(l.term) == "has_staging" and l.truth is False and l.term[4].impl_self == "melda::Melda"
                   for l in lits_of(g, ob, facts)):
            return False
    return True
