"""C08 - Every operation returns in every reachable state: lock-discipline clause."""
from ..guards import world_of, conflict, is_guard_ty
from ..callgraph import cg_of
from ..roles import roles_of
from ..defuse import du_of, walk, peel, callee_name
from ..conds import lits_of

TEXT = ("Static lock-discipline analysis over the MIR of every function and closure of the crate (all cargo "
        "feature configurations analysed): a move/drop-sensitive held-guard dataflow gives the set of "
        "Mutex/RwLock guards held at every call site; transitive acquisition summaries (closures, `dyn Adapter` "
        "fan-out, receiver-sensitive lock identity) give what each callee may lock. R1: no operation re-acquires "
        "a lock it (possibly) already holds in a conflicting mode (self-deadlock); R2: inside every rayon "
        "parallel region the lock-order relation of the tasks has no cycle, no recursive read is combined with a "
        "writer of the same RwLock, and no task enters rayon while holding an exclusive guard; R3: no guard "
        "escapes (returned / stored), so the held-set analysis is complete. Decides the 'never blocks forever on "
        "libmelda's own locks' clause for one client thread and any pool size. R4: on the read path no explicit panic "
        "is dominated by the miss edge of a lookup in a keyed collection (the one structurally decidable class of "
        "data-dependent abort); R4c: a revision tree without a winner is a reachable state that the crate's operations report "
        "as an error, so no unwrap/expect is applied to get_winner() without a has-winner fact nor to a Result that reports that "
        "state. R5: every loop and every recursion has a structural termination argument (finite iteration, parent walk with "
        "index = parent.index + 1 established at every tree insertion, work list over the block DAG, structural recursion "
        "possibly across helpers, wrapper delegation). Does not decide other data-dependent panics (unwrap/expect on "
        "storage errors, poisoned locks, ill-formed user input)."
        " R1 treats two parameters of one reference type as possibly the same replica unless std::ptr::eq excluded it before the first acquisition.")
TECHNIQUE = 'static analysis over rustc MIR: held-guard dataflow with receiver-sensitive lock identity, transitive acquisition summaries over the call graph (closures, dyn Adapter fan-out), lock-order cycles, parallel-region read/write conflicts, guard escape; back-edge and call-graph-cycle classification with a ranking function (termination); contradiction rule on the winner-less tree state'
TRUSTED = ["rustc nightly MIR construction and callee resolution",
           "std::sync semantics: Mutex is not re-entrant, RwLock may be writer-preferring",
           "distinct &Melda parameters (self/other in meld) denote distinct replicas",
           "a lock reached by navigating from data protected by guard g is a different lock than g's (ownership tree; no Arc cycles through adapters)",
           "one client thread per replica (the property's quantifier)"]

# frozen, one-symbol-wide exceptions: key -> reason
EXCEPTIONS = {
    "<marker>-><marker>|DELTA.write-under-write":
        "check_delta holds DELTA(d) for writing while recursing into a *parent* of d; the parent is a different "
        "map element because a loaded block's index strictly exceeds each parent's (C13/I2, load_raw_delta rejects "
        "anything else), so d is never its own ancestor. Validated structurally: the recursive argument must derive "
        "from the held delta's `parents` field.",
}


def _may_alias(facts, body, n1, n2):
    """n1 and n2 name two parameters (or captured parameters) of the enclosing function that have the same reference type"""
    from ..common import root_fn
    rb = root_fn(body)
    tys = {}
    for i in range(1, rb.mir.argc + 1):
        nm = rb.local_name(i)
        if nm in (n1, n2):
            tys[nm] = rb.local_ty(i).replace("&mut ", "&")
    return len(tys) == 2 and len(set(tys.values())) == 1 and list(tys.values())[0].startswith("&")


def _alias_excluded(facts, body, block):
    from ..common import root_fn, closure_sites
    def at(b, blk):
        return any(l.kind == "call" and l.truth is False and l.term[4] is not None and l.term[4].path.endswith("ptr::eq")
                   for l in lits_of(b, blk, facts))
    if at(body, block):
        return True
    if body.kind == "closure":
        return any(at(s.body, s.block) for s in closure_sites(facts, body)) if closure_sites(facts, body) else False
    return False


def _origin_name(origin):
    if isinstance(origin, tuple):
        return origin[0].path
    return "lock"


def run(facts, res):
    w = world_of(facts)
    cg = w.cg
    res.rule("R1", "no self-deadlock: no acquisition of a possibly-same lock in a conflicting mode while a guard is held")
    res.rule("R2", "parallel regions: no lock-order cycle between tasks, no recursive read combined with a writer, no rayon entry under an exclusive guard")
    res.rule("R3", "no guard escapes its acquiring function (returned or stored in a struct)")

    n_acq = sum(len(bl.acqs) for bl in w.bl.values())
    classes = sorted({a.cls for bl in w.bl.values() for a in bl.acqs.values()})
    res.floor("R1", "lock classes", len(classes), 8)
    res.floor("R1", "acquisition sites", n_acq, 60)
    res.note("lock classes: %s; %d direct acquisition sites" % (", ".join(classes), n_acq))

    rur = []   # read-under-read info items: (body path, cls, site)
    n_sites = 0
    for p, bl in sorted(w.bl.items()):
        body = bl.body
        for site in cg.sites[p]:
            H = bl.held_tokens(site.block)
            if not H:
                continue
            items = w.site_items(body, site)
            if not items:
                continue
            n_sites += 1
            held_desc = sorted("%s.%s" % (bl.acqs[t].cls, bl.acqs[t].mode) for t in H)
            acq_desc = sorted({"%s.%s" % (i[0], i[2]) for i in items})
            res.instance("R1", "%s holds {%s} while %s may acquire {%s}" % (
                p, ", ".join(held_desc), site.name(), ", ".join(acq_desc)), site.loc())
            for (cls, kind, mode, base, inside, origin) in items:
                for tok in H:
                    h = bl.acqs[tok]
                    if h.cls != cls:
                        continue
                    aliased = None
                    if h.base != "?" and base != "?" and h.base != base:
                        # different replicas (self / other) - unless both names are parameters of one reference type, which a caller
                        # may bind to the same replica (`r.meld(&r)`): then the pair is one lock, except where the function has excluded
                        # the aliasing (`std::ptr::eq(self, other)` answered false on the way to the first acquisition)
                        if not _may_alias(facts, body, h.base, base) or _alias_excluded(facts, body, h.block):
                            continue
                        aliased = (h.base, base)
                    if tok in inside:
                        continue   # reached through the held guard: a different lock (ownership tree)
                    c = conflict(h.kind, h.mode, mode)
                    callee = _origin_name(origin)
                    tgt = callee if callee != "lock" else "lock"
                    subj = "%s->%s|%s.%s" % (p, tgt, cls, c)
                    if aliased:
                        if c == "read-under-read":
                            continue
                        subj += "|if-%s-is-%s" % tuple(sorted(aliased))
                    if c == "read-under-read":
                        rur.append((p, cls, site, subj))
                        continue
                    mk = roles_of(facts).path("marker")
                    import re as _re
                    subj = _re.sub(r"::\{inlined#\d+ [^}]*\}", "", subj)
                    gsubj = _re.sub(r"<marker>::\{closure#\d+\}", "<marker>", subj.replace(mk, "<marker>"))
                    if gsubj in EXCEPTIONS and _validate_exception(subj, body, site, bl, tok, facts, mk):
                        res.exception(res.prop + "|R1|" + gsubj, EXCEPTIONS[gsubj])
                        continue
                    chain = []
                    if isinstance(origin, tuple):
                        chain = ["%s calls %s at %s" % (p, origin[0].path, site.loc())] + \
                            w.witness_path(origin[0].path, origin[1])
                    res.violation("R1", subj,
                                  "%s holds %s.%s [acquired %s] while calling %s which acquires %s.%s (%s): %s" % (
                                      p, h.cls, h.mode, h.loc(), tgt, cls, mode, c, " -> ".join(chain) or "direct"),
                                  site.loc(), held=repr(h), chain=chain)
    res.floor("R1", "call sites executed under a held guard", n_sites, 40)
    res.note("read-under-read (information; violation only under R2): " + "; ".join(sorted({s[3] for s in rur})))

    # ---------------------------------------------------------------- R2 regions
    regions = []
    for p, bl in sorted(w.bl.items()):
        for site in cg.sites[p]:
            c = site.callee
            if c is None or not c.krate.startswith("rayon"):
                continue
            tasks = [cb for cb in site.closures if cb.in_repo()]
            if not tasks:
                continue
            regions.append((bl.body, site, tasks))
    # one region per (body, closure set)
    seen = {}
    for body, site, tasks in regions:
        key = (body.path, tuple(sorted(t.path for t in tasks)))
        seen.setdefault(key, (body, [], tasks))[1].append(site)
    res.floor("R2", "rayon parallel regions", len(seen), 6)
    for (bp, tp), (body, sites, tasks) in sorted(seen.items()):
        members = {}
        for t in tasks:
            members.update(cg.reach(t))
        members = {k: v for k, v in members.items() if k in w.bl}
        pairs = set()     # ((hcls,hkind,hmode),(cls,kind,mode), where)
        task_acq = set()
        nested_rayon = []
        for mp, mb in members.items():
            mbl = w.bl[mp]
            for s in cg.sites[mp]:
                items = w.site_items(mb, s)
                for (cls, kind, mode, base, inside, origin) in items:
                    task_acq.add((cls, kind, mode))
                H = mbl.held_tokens(s.block)
                for tok in H:
                    h = mbl.acqs[tok]
                    for (cls, kind, mode, base, inside, origin) in items:
                        pairs.add(((h.cls, h.kind, h.mode), (cls, kind, mode), s.loc()))
                    if s.callee is not None and s.callee.krate.startswith("rayon") and s.closures:
                        if h.kind == "Mutex" or h.mode == "write":
                            nested_rayon.append((mp, s, h))
        # caller context
        cbl = w.bl[body.path]
        caller_held = set()
        for s in sites:
            for tok in cbl.held_tokens(s.block):
                h = cbl.acqs[tok]
                caller_held.add((h.cls, h.kind, h.mode))
        res.instance("R2", "region in %s running %s: %d bodies, %d lock-order pairs, caller holds {%s}" % (
            bp, ", ".join(t.path.rsplit("::", 1)[-1] for t in tasks), len(members), len(pairs),
            ", ".join(sorted("%s.%s" % (c[0], c[2]) for c in caller_held))), sites[0].loc())
        # (a) cycles among distinct classes
        graph = {}
        for (h, a, where) in pairs:
            if h[0] != a[0]:
                graph.setdefault(h[0], {}).setdefault(a[0], []).append((h, a, where))
        for cyc in _cycles(graph, 4):
            ok = True
            for i, x in enumerate(cyc):
                prev = cyc[i - 1]
                nxt = cyc[(i + 1) % len(cyc)]
                held_modes = {(h[1], h[2]) for (h, a, _) in graph[x][nxt]}
                acq_modes = {a[2] for (h, a, _) in graph[prev][x]}
                blocks = any(k == "Mutex" or hm == "write" or am == "write" or am == "lock"
                             for (k, hm) in held_modes for am in acq_modes)
                if not blocks:
                    ok = False
            if ok:
                res.violation("R2", "%s|cycle:%s" % (bp, ">".join(cyc)),
                              "tasks of the parallel region in %s acquire locks in a cyclic order %s" % (bp, " -> ".join(cyc + [cyc[0]])),
                              sites[0].loc())
        # (b) recursive read + writer of the same lock inside the region
        region_rur = {cls for (p_, cls, s_, _) in rur if p_ in members}
        for (cls, kind, mode) in task_acq:
            if kind == "RwLock" and mode == "read" and (cls, "RwLock", "read") in caller_held:
                region_rur.add(cls)
        for cls in sorted(region_rur):
            if (cls, "RwLock", "write") in task_acq:
                res.violation("R2", "%s|recursive-read+writer:%s" % (bp, cls),
                              "parallel region in %s: %s is read recursively while another task of the same region may "
                              "request it for writing (writer-preferring RwLock can block the nested read forever)" % (bp, cls),
                              sites[0].loc())
        # (c) rayon entry under an exclusive guard inside a task
        for (mp, s, h) in nested_rayon:
            res.violation("R2", "%s|nested-rayon-under:%s" % (mp, h.cls),
                          "%s enters a rayon parallel iterator while holding %s.%s inside a task of the region in %s "
                          "(work stealing may run a sibling task needing the same lock on this thread)" % (mp, h.cls, h.mode, bp),
                          s.loc())

    # ---------------------------------------------------------------- R3 escape
    n3 = 0
    for b in facts.repo_bodies():
        if b.kind == "closure":
            continue
        n3 += 1
        ret = b.local_ty(0)
        if is_guard_ty(ret):
            res.violation("R3", b.path + "|returns-guard", "%s returns a lock guard (%s); held-set analysis would be incomplete" % (b.path, ret), b.loc())
    for sp, s in facts.structs.items():
        for v in s["variants"]:
            for f in v["fields"]:
                n3 += 1
                if is_guard_ty(f["ty"]):
                    res.violation("R3", sp + "." + f["name"] + "|stores-guard", "struct %s stores a lock guard in field %s" % (sp, f["name"]))
    res.instance("R3", "%d function signatures and struct fields inspected for guard types" % n3, None)

    # ---------------------------------------------------------------- R4 explicit panics on a lookup miss
    # One class of data-dependent abort is structural: an explicit panic!() on the None edge of a lookup in a keyed
    # collection that is filled from replica state, on the read path. Which keys the collection holds (objects whose winner
    # is not a deletion) and which keys are looked up (references stored inside other objects) are decided independently,
    # so the miss is reachable (a winning root that still references an array deleted concurrently).
    res.rule("R4", "no explicit panic on a lookup miss in the document reconstruction (read path)")
    rd = facts.body("melda::Melda::read")
    n4 = 0
    if rd is not None:
        members = {k: v for k, v in cg.reach(rd).items() if v.in_repo()}
        for cb_ in facts.closures_of(rd.path):
            members.update({k: v for k, v in cg.reach(cb_).items() if v.in_repo()})
        for mp, m in sorted(members.items()):
            for bi, t in m.calls():
                c = t.callee
                if c is None or not (c.path.startswith("core::panicking::") or "begin_panic" in c.path or c.path.startswith("std::rt::panic")):
                    continue
                n4 += 1
                miss = []
                for l in lits_of(m, bi, facts):
                    if l.kind == "variant" and l.variants == {"None"}:
                        pt = peel(l.term)
                        while pt[0] == "var":
                            pt = peel(pt[3])
                        if pt[0] == "call" and callee_name(pt) in ("remove", "get", "get_mut", "remove_entry") and pt[4] is not None and \
                                any(k_ in (pt[4].path or "") + (pt[4].self_ty or "") for k_ in ("HashMap", "BTreeMap")):
                            miss.append(callee_name(pt))
                res.instance("R4", "%s: explicit panic at line %s; on a lookup miss: %s" % (mp, t.line, bool(miss)), m.loc(t.line))
                if miss:
                    res.violation("R4", "%s|panic-on-lookup-miss" % mp,
                                  "%s (reachable from read) panics when `%s` on a keyed collection finds nothing: the collection holds the objects whose winner is "
                                  "not a deletion, the key comes from a reference stored in another object, and nothing ties the two together (a winning "
                                  "root can reference an array that was deleted concurrently): read() aborts the calling thread" % (mp, miss[0]), m.loc(t.line))
        # ... and the same through unwrap/expect applied directly to the Option such a lookup returns
        for mp, m in sorted(members.items()):
            mdu = du_of(m)
            for bi, t in m.calls():
                c = t.callee
                if c is None or c.name not in ("unwrap", "expect") or not t.args:
                    continue
                x = mdu.operand_term(t.args[0], 14)
                hops = 0
                while hops < 20 and x[0] in ("ref", "deref", "cast", "var"):
                    hops += 1
                    x = x[3] if x[0] == "var" else x[1]
                if x[0] != "call" or x[4] is None or callee_name(x) not in ("get", "remove", "get_mut") or \
                        not any(k_ in (x[4].path or "") + (x[4].self_ty or "") for k_ in ("HashMap<", "BTreeMap<", "HashMap::", "BTreeMap::")):
                    continue
                if "serde_json" in (x[4].path or "") + (x[4].self_ty or ""):
                    continue
                n4 += 1
                rroots = {(y[0], y[1]) for y in walk(x[2][0]) if y[0] in ("var", "param", "upvar")} if x[2] else set()
                guarded = any(l.kind == "call" and callee_name(l.term) == "contains_key" and l.truth is True and l.term[2] and
                              rroots & {(y[0], y[1]) for y in walk(l.term[2][0]) if y[0] in ("var", "param", "upvar")}
                              for l in lits_of(m, bi, facts))
                res.instance("R4", "%s: %s() on the result of a map lookup at line %s; membership tested on the same map: %s" % (mp, c.name, t.line, guarded), m.loc(t.line))
                if not guarded:
                    res.violation("R4", "%s|unwrap-on-lookup-miss" % mp,
                                  "%s (read path) calls %s() on the result of `%s` on a keyed collection without a dominating membership test on that collection: "
                                  "the collection holds only objects whose winner is not a deletion, so e.g. read(None) after the default root was replaced "
                                  "aborts the calling thread instead of returning an error" % (mp, c.name, callee_name(x)), m.loc(t.line))
    res.floor("R4", "explicit panic sites on the read path", n4, 1)
    _run_termination(facts, res)
    _winnerless(facts, res)


def _winnerless(facts, res):
    """R4c: a revision tree without a winner is a reachable state (every revision unreachable from a root: the crate builds such
    trees itself when a saved stage is replayed after time travel, and its own operations *report* the state as an error).  So
    (1) an unwrap / expect applied directly to RevisionTree::get_winner() needs a dominating `has a winner` fact on the same tree
    (an `if let Some(..) = get_winner()`, a non-empty leaf set), in the function or at every caller of a private function;
    (2) the Result of a function that reports the winner-less state as Err is never unwrapped (contradiction rule: one site handles
    the state, the other aborts on it)."""
    from ..common import assigns_of_return
    from ..cfg import cfg_of
    res.rule("R4", "the winner-less tree state is handled, not unwrapped: no unwrap of get_winner() without a has-winner fact, no unwrap of a Result that reports the state")
    cg = cg_of(facts)
    GW = "revisiontree::RevisionTree::get_winner"

    def scope(b):
        return b.in_repo() and "::tests::" not in b.path

    def strip(t):
        n = 0
        while n < 40 and t[0] in ("var", "ref", "deref", "cast"):
            n += 1
            t = t[3] if t[0] == "var" else t[1]
        return t

    def has_winner(l):
        if l.kind == "variant" and l.variants and l.variants <= {"Some", "Ok", "Continue"} and any(x[0] == "call" and x[1] == GW for x in walk(l.term)) and \
                not any(x[0] == "call" and callee_name(x) in ("is_none", "map", "and_then", "filter") for x in walk(l.term)):
            return True     # `if let Some(w) = t.get_winner()`, `t.get_winner().ok_or_else(..)?`
        if l.kind == "call" and callee_name(l.term) in ("is_some", "is_none") and l.truth == (callee_name(l.term) == "is_some") and \
                any(x[0] == "call" and x[1] == GW for x in walk(l.term)):
            return True
        if not any(x[0] == "call" and callee_name(x) == "get_leafs" for x in walk(l.term)):
            return False
        if l.kind == "call" and callee_name(l.term) == "contains" and l.truth is True:
            return True
        if l.kind == "call" and callee_name(l.term) == "is_empty" and l.truth is False:
            return True
        if l.kind == "cmp" and l.truth is not None and l.term[3][0] == "const":
            op, k, t_ = l.term[1], l.term[3][2], l.truth
            # len > k (k >= 0), len >= k (k >= 1), !(len <= k), !(len < k) (k >= 1)
            return (op == "Gt" and t_ and k >= 0) or (op == "Ge" and t_ and k >= 1) or (op == "Le" and not t_ and k >= 0) or \
                (op == "Lt" and not t_ and k >= 1) or (op == "Ne" and t_ and k == 0) or (op == "Eq" and not t_ and k == 0)
        return False

    def no_winner(l):
        if l.kind == "variant" and l.variants == {"None"} and strip(l.term)[0] == "call" and strip(l.term)[1] == GW:
            return True
        return l.kind == "call" and callee_name(l.term) in ("is_some", "is_none") and l.truth == (callee_name(l.term) == "is_none") and \
            l.term[2] and strip(l.term[2][0])[0] == "call" and strip(l.term[2][0])[1] == GW
    # functions that report the winner-less state
    reporters = set()
    for b in facts.bodies:
        if not scope(b) or b.kind == "closure" or not b.local_ty(0).startswith("std::result::Result<"):
            continue
        for ob, st in assigns_of_return(b, "Err"):
            if any(no_winner(l) for l in lits_of(b, ob, facts)):
                reporters.add(b.path)
        du = du_of(b)
        for bi, t in b.calls():
            # `get_winner().ok_or_else(..)?`
            if t.callee is not None and t.callee.name in ("ok_or_else", "ok_or") and t.args:
                a0 = strip(du.operand_term(t.args[0], 10))
                if a0[0] == "call" and a0[1] == GW:
                    reporters.add(b.path)
    res.instance("R4", "functions that report a winner-less tree as an error: %s" % sorted(r.rsplit("::", 1)[-1] for r in reporters), None)
    res.floor("R4", "functions reporting the winner-less state", len(reporters), 2)
    n = 0
    for b in facts.bodies:
        if not scope(b):
            continue
        du = du_of(b)
        for bi, t in b.calls():
            if t.callee is None or t.callee.name not in ("unwrap", "expect", "unwrap_unchecked") or not t.args:
                continue
            a0 = strip(du.operand_term(t.args[0], 12))
            if a0[0] != "call":
                continue
            direct = a0[1] == GW
            indirect = a0[1] in reporters
            if not (direct or indirect):
                continue
            n += 1
            guarded = any(has_winner(l) for l in lits_of(b, bi, facts))
            where = "here"
            if not guarded and direct:
                # a private function may rely on its callers (`if let Some(w) = rt.get_winner() { self.helper(&rt) }`)
                root = facts.body(b.parent) if b.kind == "closure" and b.parent else b
                callers = [s_ for s_ in cg.callers_of(root.path) if s_.body.path != root.path]
                if root is not None and not root.public and callers and all(any(has_winner(l) for l in lits_of(s_.body, s_.block, facts)) for s_ in callers):
                    guarded, where = True, "at every caller"
            res.instance("R4", "%s: %s() on %s at line %s; a winner is known to exist (%s): %s" % (
                b.path, t.callee.name, "get_winner()" if direct else a0[1].rsplit("::", 1)[-1] + "(..), which reports a winner-less tree as Err", t.line, where, guarded), b.loc(t.line))
            if not guarded:
                what = "get_winner" if direct else a0[1].rsplit("::", 1)[-1]
                res.violation("R4", "%s|unwrap-on-winnerless-tree:%s" % ((facts.body(b.parent).path if b.kind == "closure" and b.parent and facts.body(b.parent) else b.path), what),
                              "%s calls %s() on %s without knowing that the tree has a winner: a tree whose revisions are all unreachable from a root (e.g. a saved "
                              "stage replayed after reload_until to a state where the object did not exist yet) has none, the crate's other operations report "
                              "that state as an error, this one aborts the calling thread" % (b.path, t.callee.name, "get_winner()" if direct else what + "(..)"), b.loc(t.line))
    res.floor("R4", "unwraps of get_winner() / of winner-reporting results", n, 1)


def _run_termination(facts, res):
    from . import c08_term
    c08_term.check(facts, res)


def _validate_exception(subj, body, site, bl, tok, facts=None, marker=None):
    """the recursive check_delta argument must derive from the `parents` field of the held delta: either directly
    (`self.check_delta(parent)` in a loop over parents) or through an iterator adaptor over `parents` whose closure
    passes its own element on"""
    from ..guards import root_of
    du = du_of(body)

    def from_held_parents(t):
        for x in walk(t):
            if x[0] == "field" and x[2] == "parents":
                _, inside = root_of(x[1])
                if tok in inside:
                    return True
        return False
    if site.closures and facts is not None and not any(t.path == marker for t in site.targets):
        if not site.term.args or not from_held_parents(du.operand_term(site.term.args[0], 30)):
            return False
        n = 0
        for cb in site.closures:
            cdu = du_of(cb)
            for bi, t in cb.calls():
                if t.callee is not None and t.callee.target() == marker:
                    n += 1
                    if len(t.args) < 2 or not any(x[0] == "param" and x[1] == 2 for x in walk(cdu.operand_term(t.args[1], 20))):
                        return False
        return n > 0
    if len(site.term.args) < 2:
        return False
    return from_held_parents(du.operand_term(site.term.args[1], 30))


def _cycles(graph, maxlen):
    out = []
    nodes = sorted(graph)

    def dfs(start, cur, path):
        for nxt in sorted(graph.get(cur, {})):
            if nxt == start and len(path) >= 2:
                out.append(list(path))
            elif nxt > start and nxt not in path and len(path) < maxlen:
                dfs(start, nxt, path + [nxt])
    for s in nodes:
        dfs(s, s, [s])
    return out


FIXTURE_EXPECT = ['relock-mutex', 'write-under-read', 'returns-guard', 'stores-guard', 'cycle:', 'nested-rayon-under']


def thorough(res):
    from .. import engine
    engine.sensitivity("C08", res)
