"""C07 - Resolving a conflict adopts the chosen revision (structural clauses)."""
from ..cfg import cfg_of
from ..defuse import du_of, walk, peel, callee_name, fmt
from ..conds import lits_of
from ..callgraph import cg_of
from ..roles import roles_of
from ..common import arg_term, contains_call, call_named, whole_iteration, inlined_sites, PARTIAL_ADAPTERS

TEXT = ("Dominance and provenance rules on resolve_as and on every site that re-asserts an object read back from "
        "storage. V1: every state mutation in resolve_as is edge-dominated by `leafs.contains(chosen)` and "
        "`leafs.len() > 1`. V2: the re-asserted object derives from the view reconstruction applied to the chosen "
        "revision parameter. V3: the sealing loop ranges over the complete leaf set and adds, for every leaf != winner, "
        "a marker built by Revision::new_resolved(leaf) with that leaf as parent, staged. V4 (reader/writer table "
        "agreement on sentinels): DataStorage::read_object synthesises placeholder objects for deleted / resolved / "
        "empty revisions which digest_object / write_object cannot map back, so any flow from a storage read of "
        "revision r into update_object / digest_object / write_object must be edge-dominated by !r.is_deleted(), and a "
        "chosen deletion must be re-expressed through Revision::new_deleted. Does not decide propagation or "
        "convergence of independent resolutions (history properties).")
TECHNIQUE = 'static analysis over rustc MIR: value provenance of the re-asserted object and sealing markers in resolve_as, edge dominance on deletion sentinels'
TRUSTED = ["rustc nightly MIR", "C05/W1: leaves never contain resolution markers", "public API names resolve_as / update_object / delete_object are stable anchors"]

READERS = ("read_object_at_revision", "datastorage::DataStorage::read_object")
REASSERT = ("update_object", "digest_object", "datastorage::DataStorage::write_object", "create_object")


def run(facts, res):
    R = roles_of(facts)
    res.rule("V1", "resolve_as mutates state only under leafs.contains(chosen) && leafs.len() > 1")
    res.rule("V2", "the re-asserted object is the view reconstruction at the chosen revision")
    res.rule("V3", "every leaf other than the winner is sealed with new_resolved(leaf), parent = leaf, staged")
    res.rule("V4", "storage sentinels are never re-asserted as live objects; a chosen deletion is re-expressed as a deletion")
    cg = cg_of(facts)
    b = facts.body("melda::Melda::resolve_as")
    if b is None:
        res.floor("V1", "resolve_as anchor", 0, 1)
        return
    du = du_of(b)
    # ------------------------------------------------------------------ V1
    # sites are read through the crate's private helpers (an extracted `reassert_chosen_leaf(uuid, chosen)` belongs to the
    # operation); argument terms and literals are in resolve_as' frame
    def is_mut(t):
        c = t.callee
        return c.name in ("update_object", "delete_object", "create_object", "remove_object") or \
            (c.name in ("add", "unvalidated_add") and "RevisionTree" in c.path)
    muts = inlined_sites(facts, b, is_mut)
    res.floor("V1", "state-mutating calls in resolve_as", len(muts), 2)
    for s in muts:
        ls = s.lits
        has_contains = False
        has_len = False
        for l in ls:
            if l.kind == "call" and callee_name(l.term) == "contains" and l.truth is True:
                if contains_call(l.term[2][0], "get_leafs") and _from_param(l.term[2][1], "winner"):
                    has_contains = True
            if l.kind == "cmp":
                op = l.term[1]
                a, c_ = l.term[2], l.term[3]
                if contains_call(a, "len") and contains_call(a, "get_leafs") and c_[0] == "const":
                    k = c_[2]
                    t = l.truth
                    if (op == "Le" and k == 1 and t is False) or (op == "Gt" and k == 1 and t is True) or \
                            (op == "Lt" and k == 2 and t is False) or (op == "Ge" and k == 2 and t is True):
                        has_len = True
        nm = s.term.callee.name
        res.instance("V1", "%s at %s: under contains(chosen)=%s, len>1=%s" % (nm, s.loc(), has_contains, has_len), s.loc())
        if not (has_contains and has_len):
            res.violation("V1", "resolve_as|unguarded-mutation:%s" % nm,
                          "resolve_as calls %s without being dominated by `leafs.contains(chosen)` (%s) and `leafs.len() > 1` (%s)" % (
                              nm, has_contains, has_len), s.loc())

    # ------------------------------------------------------------------ V2
    ups = inlined_sites(facts, b, lambda t: t.callee.name == "update_object")
    res.floor("V2", "update_object call in resolve_as", len(ups), 1)
    for s in ups:
        obj = s.args[2] if len(s.args) > 2 else ("cut",)
        ok = False
        for x in walk(obj):
            if x[0] == "call" and callee_name(x) == R.name("recon") and len(x[2]) >= 4:
                if _from_param(x[2][3], "winner") and contains_call(x[2][3], "revision::Revision::from"):
                    ok = True
        res.instance("V2", "update_object(uuid, %s): derives from read_object_at_revision(.., chosen): %s" % (fmt(obj, 5), ok), s.loc())
        if not ok:
            res.violation("V2", "resolve_as|reasserted-object-not-the-view-at-chosen",
                          "resolve_as re-asserts %s, which is not read_object_at_revision(uuid, tree, Revision::from(winner))" % fmt(obj, 6), s.loc())

    # V2b: the re-assertion is not skippable: every path from the view reconstruction to the sealing of the other
    # leaves passes update_object or delete_object (for arrays in conflict the visible value is the *merge* of all leaves;
    # it exists as a revision only once it has been re-asserted, also when the chosen leaf already is the winner)
    from ..conds import all_edge_lits
    from ..common import ok_blocks

    def v2b_roles(fb):
        sites = cg.sites[fb.path]
        rec = {s.block for s in sites if s.callee is not None and s.callee.name == R.name("recon")}
        rea = {s.block for s in sites if s.callee is not None and s.callee.name in ("update_object", "delete_object")}
        sea = {s.block for s in sites if s.callee is not None and s.callee.name == "add" and "RevisionTree" in s.callee.path}
        plain = {e for e, l in all_edge_lits(fb, facts) if l.kind == "call" and callee_name(l.term) == "is_array_descriptor" and l.truth is False}
        return rec, rea, sea, plain
    rec, rea, sea, plain_only = v2b_roles(b)
    helper_note = []
    for s in cg.sites[b.path]:
        hb = facts.body(s.callee.target()) if s.callee is not None else None
        if hb is None or not hb.in_repo() or hb.public or hb.kind == "closure" or hb.impl_trait is not None:
            continue
        hrec, hrea, hsea, hplain = v2b_roles(hb)
        if not (hrec or hrea):
            continue
        hcfg = cfg_of(hb)
        oks = set(ok_blocks(hb))
        if hrec:
            # the helper reconstructs: complete if no Ok return is reachable from the reconstruction without a re-assertion
            incomplete = any(cfg_.reaches(r, o, avoid=hrea | hplain) for cfg_ in (hcfg,) for r in hrec for o in oks)
            helper_note.append("%s reconstructs and %s" % (hb.name, "may return Ok without re-asserting" if incomplete else "re-asserts on every Ok path"))
            if incomplete:
                rec.add(s.block)
        elif hrea:
            # re-asserts only: counts when every Ok return lies behind a re-assertion
            if not any(hcfg.reaches(0, o, avoid=hrea) or o == 0 for o in oks):
                rea.add(s.block)
    cfg = cfg_of(b)
    seals = inlined_sites(facts, b, lambda t: t.callee.name == "add" and "RevisionTree" in t.callee.path)
    n_recon = len(inlined_sites(facts, b, lambda t: t.callee.name == R.name("recon")))
    if n_recon and seals:
        skip = any(cfg.reaches(r, s.outer_block, avoid=rea | plain_only) for r in rec for s in seals)
        res.instance("V2", "resolve_as: no path from the reconstruction to the sealing loop skips update_object / delete_object: %s%s" % (
            not skip, " (" + "; ".join(helper_note) + ")" if helper_note else ""), b.loc())
        if skip:
            res.violation("V2", "resolve_as|reassertion-skippable",
                          "resolve_as can seal the other leaves without re-asserting the chosen state (a path skips update_object / delete_object): for a flattened "
                          "array in conflict the merged order is then never stored and the elements of the sealed leaves disappear", b.loc())

    # ------------------------------------------------------------------ V3
    adds = [s_ for s_ in inlined_sites(facts, b, lambda t: t.callee.name == "add" and "RevisionTree" in t.callee.path) if s_.via == ()]
    res.floor("V3", "sealing add() in resolve_as", len(adds), 1)
    for s in adds:
        sb = s.body                       # resolve_as itself, or the closure of `losers.into_iter().for_each(|r| ..)`
        rev = s.args[1] if len(s.args) > 1 else ("cut",)
        par = s.args[2] if len(s.args) > 2 else ("cut",)
        stg = s.args[3] if len(s.args) > 3 else ("cut",)
        while stg[0] == "var":
            stg = stg[3]
        nr = [x for x in walk(rev) if x[0] == "call" and callee_name(x) == "new_resolved"]
        def root_vars(t_):
            """the named variable(s) a value is a view / copy of (not the variables its definition mentions further down)"""
            out_, stack_ = set(), [t_]
            while stack_:
                y = stack_.pop()
                y = peel(y, stop_var=True)
                if y[0] == "param" and sb.kind == "closure":
                    out_.add(("param", y[1]))         # the element a for_each closure is applied to
                if y[0] == "var":
                    out_.add(y[1])
                    # a plain rebinding (`let leaf = r;`, `let p = r.clone();`) names the same value
                    inner_ = peel(y[3], stop_var=True)
                    if inner_[0] == "var":
                        stack_.append(inner_)
                elif y[0] == "agg" and y[2] == "Some" and y[3]:
                    stack_.append(y[3][0])
                elif y[0] == "phi":
                    stack_.extend(y[1])
            return out_
        leaf_vars = set().union(*[root_vars(x[2][0]) for x in nr]) if nr else set()
        par_vars = root_vars(par)
        same_leaf = bool(leaf_vars & par_vars)
        staged = stg[0] == "const" and stg[1] == "bool" and stg[2] is True
        # iteration over the whole leaf set
        whole = False
        ne = False
        if sb.kind == "closure" and s.outer_body is b:
            # closure form: the chain the closure is applied to
            ct_ = b.blocks[s.outer_block].term
            if ct_.callee is not None and ct_.callee.name in ("for_each", "try_for_each") and ct_.args:
                chain = arg_term(b, ct_, 0, 40)
                names = [callee_name(c) for c in walk(chain) if c[0] == "call"]
                if "get_leafs" in names and not (set(names) & (PARTIAL_ADAPTERS - {"filter"})) and \
                        ("filter" not in names or _filters_reject_only_equal(facts, chain)):
                    whole = True
                    for l in s.lits:
                        if l.kind == "call" and callee_name(l.term) in ("ne", "eq") and l.truth == (callee_name(l.term) == "ne") and \
                                any(contains_call(y, "get_winner") for y in l.term[2][:2]):
                            ne = True
        for x in (walk(par) if sb is b else []):
            if x[0] == "call" and callee_name(x) == "next":
                chain = x[2][0]
                names = [callee_name(c) for c in walk(chain) if c[0] == "call"]
                if "get_leafs" in names and whole_iteration(b, par):
                    whole = True
                elif "get_leafs" in names and "filter" in names and _filters_reject_only_equal(facts, chain) and \
                        not (set(names) & (PARTIAL_ADAPTERS - {"filter"})) and cfg_of(b).is_loop_header(x[3]):
                    # `leafs.iter().filter(|r| **r != winner)..collect()` then a loop over the collected losers
                    whole = True
                    for l in lits_of(b, s.block, facts):
                        if l.kind == "call" and callee_name(l.term) in ("ne", "eq") and l.truth == (callee_name(l.term) == "ne") and \
                                any(contains_call(y, "get_winner") for y in l.term[2][:2]):
                            ne = True
        # under leaf != winner where winner = get_winner() of the tree
        for l in (lits_of(b, s.block, facts) if sb is b else []):
            if l.kind == "call" and callee_name(l.term) in ("ne", "eq") and l.truth == (callee_name(l.term) == "ne"):
                a0, a1 = l.term[2][0], l.term[2][1]
                for x, y in ((a0, a1), (a1, a0)):
                    if ({v[1] for v in walk(x) if v[0] == "var"} & leaf_vars) and contains_call(y, "get_winner"):
                        ne = True
        res.instance("V3", "add(new_resolved(leaf)=%s, parent is that leaf=%s, staged=%s) for every leaf (whole set=%s) != get_winner() (%s)" % (
            bool(nr), same_leaf, staged, whole, ne), s.loc())
        if not (nr and same_leaf and staged and whole and ne):
            res.violation("V3", "resolve_as|sealing-incomplete",
                          "resolve_as sealing loop: marker=new_resolved(leaf):%s parent=leaf:%s staged:%s whole-leaf-set:%s guard leaf!=winner:%s" % (
                              bool(nr), same_leaf, staged, whole, ne), s.loc())

    # ------------------------------------------------------------------ V4 (crate-wide)
    n4 = 0
    for body in facts.repo_bodies():
        if body.path.startswith("datastorage::") or body.path == R.path("recon"):
            continue
        for s in cg.sites[body.path]:
            c = s.callee
            if c is None or not any(c.target().endswith(n) or c.name == n for n in REASSERT):
                continue
            for i in range(len(s.term.args)):
                at = arg_term(body, s.term, i, 30)
                reads = [x for x in walk(at) if x[0] == "call" and
                         (callee_name(x) == R.name("recon") or x[1] == "datastorage::DataStorage::read_object")]
                if not reads:
                    continue
                n4 += 1
                for rd in reads:
                    if callee_name(rd) == R.name("recon") and len(rd[2]) < 4:
                        continue
                    rev = rd[2][3] if callee_name(rd) == R.name("recon") else rd[2][1]
                    rvars = {v[1] for v in walk(rev) if v[0] == "var"}
                    guard = False
                    for l in lits_of(body, s.block, facts):
                        if l.kind == "call" and callee_name(l.term) == "is_deleted" and l.truth is False:
                            lv = {v[1] for v in walk(l.term[2][0]) if v[0] == "var"}
                            if lv & rvars:
                                guard = True
                    res.instance("V4", "%s: object read at revision %s flows into %s under !is_deleted(): %s" % (
                        body.path, fmt(rev, 3), c.name, guard), s.loc())
                    if not guard:
                        res.violation("V4", "%s|sentinel-object-reasserted" % body.path,
                                      "%s passes an object read from storage at revision %s to %s without being dominated "
                                      "by !is_deleted() on that revision: for a deletion the synthesised {\"_deleted\":true} "
                                      "would be stored as a live object" % (body.path, fmt(rev, 3), c.name), s.loc())
    res.floor("V4", "sites re-asserting an object read back from storage", n4, 2)
    # a chosen deletion is re-expressed as a deletion
    ok5 = False
    for s in inlined_sites(facts, b, lambda t: any(cg.reaches(fb_, "revision::Revision::new_deleted") for fb_ in [facts.body(t.callee.target())] if fb_ is not None and fb_.public)):
        for l in s.lits:
            if l.kind == "call" and callee_name(l.term) == "is_deleted" and l.truth is True and _from_param(l.term[2][0], "winner"):
                ok5 = True
                res.instance("V4", "resolve_as: on chosen.is_deleted() the deletion is re-asserted through %s (reaches Revision::new_deleted)" % s.term.callee.name, s.loc())
    if not ok5:
        res.violation("V4", "resolve_as|deletion-not-reexpressed",
                      "resolve_as has no branch that re-asserts a chosen deletion through Revision::new_deleted")


def _filters_reject_only_equal(facts, chain):
    """every `filter` of the chain rejects an element only when it equals something (the winner): the closure's `false` result
    lies behind an eq-true / ne-false literal"""
    from ..conds import closure_result_lits
    n = 0
    for x in walk(chain):
        if x[0] != "call" or callee_name(x) != "filter" or len(x[2]) < 2:
            continue
        c_ = x[2][1]
        hops = 0
        while hops < 20 and c_[0] in ("ref", "deref", "cast", "var"):
            hops += 1
            c_ = c_[3] if c_[0] == "var" else c_[1]
        fcb = facts.body(c_[1]) if c_[0] == "closure" else None
        if fcb is None:
            return False
        fl = closure_result_lits(fcb, facts, False)
        if not any((l.kind == "call" and callee_name(l.term) in ("eq", "ne") and l.truth == (callee_name(l.term) == "eq")) or
                   (l.kind == "cmp" and l.term[1] in ("Eq", "Ne") and l.truth == (l.term[1] == "Eq")) for l in fl):
            return False
        n += 1
    return n > 0


def _from_param(t, name):
    # resolve_as(&self, uuid, winner): the chosen revision is parameter 3
    idx = {"winner": 3, "uuid": 2}[name]
    return any(x[0] == "param" and x[1] == idx for x in walk(t))


def thorough(res):
    from .. import engine
    engine.sensitivity("C07", res)
