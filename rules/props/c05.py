"""C05 - The winning revision follows one fixed deterministic rule."""
from ..cfg import cfg_of
from ..defuse import du_of, walk, peel, callee_name, fmt
from ..conds import lits_of, decode
from ..callgraph import cg_of
from ..common import arg_term, contains_call, call_named, field_path, assigns_of_return, iter_chain

TEXT = ("W1: in the function that recomputes the leaf / winner caches, inserting a candidate into the leaf set and "
        "updating the running best are edge-dominated by `!is_resolved()`, `!parents.contains(candidate)` (parent set "
        "built from all entries) and root-reachability, whose helper yields true only on `index == 1 && parent is None` "
        "(constant read from MIR) or from its cache. W2: the running best is replaced only when it is empty or on the "
        "true edge of Revision's `>`; the winner cache is assigned from it only. W3: the body of `Ord::cmp for "
        "Revision` is abstractly interpreted over the finite predicate domain (is_resolved(self), is_resolved(other), "
        "index {<,=,>}, printed-form {<,=,>}) - all 36 abstract inputs, no execution of the program - and the extracted "
        "decision table must equal the specified order (markers lowest, larger index first, ties by byte-wise "
        "comparison of the printed identifiers in (self, other) order) and be antisymmetric; partial_cmp = Some(cmp). "
        "W4: every comparison of the number of leaves with a constant uses the single threshold 1, and the conflicting "
        "set is the leaf set filtered by != winner. Does not decide behaviour under identifier hash collisions."
        " W2 requires the comparison that selects the winner to be Revision's own order (compared type Revision, not a derived tuple / key). W1b: the root-reachability helper answers false only where the chain of ancestors is broken (a lookup miss or a missing parent), never under a bound on the chain length or a set of excluded revisions. W1c: every map handed to the reachability helper is created empty in the same validation. W1d: the `is a parent` test runs in a set of whole revisions.")
TRUSTED = ["rustc nightly MIR", "String::cmp is byte-wise lexicographic", "BTreeSet / HashMap semantics"]
TECHNIQUE = "static analysis: edge dominance over MIR + finite predicate abstraction of the comparator's CFG"


# ---------------------------------------------------------------------------- W3
def abstract_cmp_table(body, facts):
    """decision table of a comparator body: {(rs, ro, idx, st): 'L'|'G'|'E'|'S'|'R'}; raises on unknown shape"""
    du = du_of(body)
    table = {}
    for rs in (True, False):
        for ro in (True, False):
            for idx in "<=>":
                for st in "<=>":
                    table[(rs, ro, idx, st)] = _run_cmp(body, du, facts, rs, ro, idx, st)
    return table


def _side(t):
    """1 if term is rooted at parameter self, 2 for other (closures: the captured `self` / second parameter)"""
    ps = {x[1] for x in walk(t) if x[0] == "param"}
    us = {x[2] for x in walk(t) if x[0] == "upvar"}
    if ps == {1} and not us:
        return 1
    if ps == {2} and not us:
        return 2
    if not ps and len(us) == 1:
        u = us.pop()
        if u == "self":
            return 1
        return 2
    return None


def _eval_pred(t, rs, ro, idx):
    """evaluate the boolean term t under the abstract input"""
    while t[0] in ("var", "cast"):
        t = t[3] if t[0] == "var" else t[1]
    if t[0] == "unop" and t[1] == "Not":
        return not _eval_pred(t[2], rs, ro, idx)
    if t[0] == "call" and callee_name(t) == "is_resolved":
        s = _side(t[2][0])
        if s == 1:
            return rs
        if s == 2:
            return ro
    if t[0] == "binop" and t[1] in ("Lt", "Gt", "Le", "Ge", "Eq", "Ne"):
        a, b = t[2], t[3]
        fa = [x[2] for x in walk(a) if x[0] == "field"]
        fb = [x[2] for x in walk(b) if x[0] == "field"]
        if fa == fb and fa in (["index"], ["0"]) and {_side(a), _side(b)} == {1, 2}:
            rel = idx if _side(a) == 1 else {"<": ">", ">": "<", "=": "="}[idx]
            return {"Lt": rel == "<", "Gt": rel == ">", "Le": rel in "<=", "Ge": rel in ">=", "Eq": rel == "=", "Ne": rel != "="}[t[1]]
    raise ValueError("unrecognised predicate in comparator: %s" % fmt(t, 5))


_IDX = [None]
_FACTS = [None]


def _run_cmp(body, du, facts, rs, ro, idx, st):
    _IDX[0] = idx
    _FACTS[0] = facts
    bi = 0
    result = None
    for _ in range(400):
        blk = body.blocks[bi]
        for s in blk.stmts:
            if s.kind == "assign" and s.place.local == 0 and not s.place.proj:
                t = du.rvalue_term(s.rv, 10)
                result = _result_of(t, st)
        t = blk.term
        if t.kind == "return":
            if result is None:
                raise ValueError("comparator returns without a recognised result")
            return result
        if t.kind == "goto" or t.kind == "drop":
            bi = t.j["target"]
        elif t.kind == "call":
            if t.dest is not None and t.dest.local == 0 and not t.dest.proj:
                result = _result_of(du.call_term(t, bi, 10), st)
            bi = t.j["target"]
        elif t.kind == "switch":
            if t.j.get("discr_ty") != "bool":
                # `match a.cmp(&b) { Ordering::Equal => .., unequal => unequal }`: the discriminant of a comparison result
                dt = du.operand_term(t.discr, 14)
                while dt[0] in ("var", "cast"):
                    dt = dt[3] if dt[0] == "var" else dt[1]
                if dt[0] == "discr" and (dt[2] or "").endswith("cmp::Ordering"):
                    r_ = _result_of(dt[1], st)
                    want = {"<": "Less", "=": "Equal", ">": "Greater"}.get(r_)
                    if want is None:
                        raise ValueError("comparator matches on a comparison the abstraction cannot evaluate: %s" % r_)
                    nxt = None
                    for val, tgt in t.switch_edges():
                        if val is None:
                            if nxt is None:
                                nxt = tgt
                        elif facts.variant_of_discr(dt[2], val) == want:
                            nxt = tgt
                            break
                    bi = nxt
                    continue
                raise ValueError("comparator switches on a non-boolean value")
            v = _eval_pred(du.operand_term(t.discr, 12), rs, ro, idx)
            nxt = None
            for val, tgt in t.switch_edges():
                if val is None:
                    if nxt is None:
                        nxt = tgt
                elif (val != 0) == v:
                    nxt = tgt
                    break
            bi = nxt
        else:
            raise ValueError("unexpected terminator %s in comparator" % t.kind)
    raise ValueError("comparator did not terminate in the abstract run")


def _result_of(t, st):
    while t[0] == "var":
        t = t[3]
    if t[0] == "agg" and t[1].endswith("cmp::Ordering"):
        return {"Less": "<", "Greater": ">", "Equal": "="}[t[2]]
    if t[0] == "const" and len(t) > 3 and t[1] == "int":
        return {-1: "<", 0: "=", 1: ">"}.get(t[2])
    if t[0] == "call" and callee_name(t) == "cmp" and t[4] is not None and "String" in (t[4].self_ty or t[4].full):
        a, b = t[2][0], t[2][1]
        if contains_call(a, "to_string") and contains_call(b, "to_string"):
            sa, sb = _side(a), _side(b)
            if (sa, sb) == (1, 2):
                return st
            if (sa, sb) == (2, 1):
                return {"<": ">", ">": "<", "=": "="}[st]
    if t[0] == "call" and callee_name(t) == "cmp" and len(t[2]) == 2:
        if _FACTS[0] is not None and not any(x[0] == "field" for x in walk(t[2][0])):
            # compared through accessor methods (`self.index().cmp(&other.index())`): read the accessors
            from ..defuse import inline_calls as _inl
            t = (t[0], t[1], [_inl(t[2][0], _FACTS[0], 2), _inl(t[2][1], _FACTS[0], 2)], t[3], t[4])
        fa = [x[2] for x in walk(t[2][0]) if x[0] == "field"]
        fb = [x[2] for x in walk(t[2][1]) if x[0] == "field"]
        if fa == fb and fa in (["index"], ["0"]) and {_side(t[2][0]), _side(t[2][1])} == {1, 2} and _IDX[0] is not None:
            return _IDX[0] if _side(t[2][0]) == 1 else {"<": ">", ">": "<", "=": "="}[_IDX[0]]
        if fa == ["1"] and fb == ["1"] and t[4] is not None and "String" in (t[4].self_ty or t[4].full):
            # tuple struct (DeltaId): the second field is the digest string, the tie-break
            sa, sb = _side(t[2][0]), _side(t[2][1])
            if (sa, sb) == (1, 2):
                return st
            if (sa, sb) == (2, 1):
                return {"<": ">", ">": "<", "=": "="}[st]
    if t[0] == "call" and callee_name(t) in ("call", "call_once", "call_mut") and t[2] and _FACTS[0] is not None:
        # a local comparison closure called by name (`let by_text = || a.to_string().cmp(&b.to_string()); .. by_text()`)
        cl = [x for x in walk(t[2][0]) if x[0] == "closure"]
        cb = _FACTS[0].body(cl[0][1]) if cl else None
        if cb is not None:
            return _result_of(du_of(cb).local_term(0, 12), st)
    if t[0] == "call" and callee_name(t) in ("then_with", "then") and len(t[2]) == 2:
        first = _result_of(t[2][0], st)
        if first in ("<", ">"):
            return first
        if first == "=":
            second = t[2][1]
            cl = [x for x in walk(second) if x[0] == "closure"]
            if callee_name(t) == "then_with" and cl and _FACTS[0] is not None:
                cb = _FACTS[0].body(cl[0][1])
                if cb is not None:
                    return _result_of(du_of(cb).local_term(0, 12), st)
            if callee_name(t) == "then":
                return _result_of(second, st)
    # any other expression (e.g. a comparison of a single field, a then_with chain): keep it symbolically; it can
    # never equal the specified result, which is the comparison of the complete printed identifiers
    return "«%s»" % fmt(t, 5)


def spec_cmp(rs, ro, idx, st):
    if rs and ro:
        return st
    if rs:
        return "<"
    if ro:
        return ">"
    if idx != "=":
        return idx
    return st


# ---------------------------------------------------------------------------- run
def run(facts, res):
    cg = cg_of(facts)
    res.rule("W1", "leaf insertion and best update are dominated by !is_resolved, !parents.contains, root-reachable; helper true only at index==1 && no parent")
    res.rule("W2", "winner = maximum of the live leaves under Revision's order; winner cache assigned from the running best only")
    res.rule("W3", "Ord::cmp for Revision equals the specified total order on all 36 abstract inputs; partial_cmp = Some(cmp)")
    res.rule("W4", "single conflict threshold (1) everywhere; conflicting = leaves != winner")

    # role: the function writing leafs_cache / winner_cache
    vals = []
    for b in facts.repo_bodies():
        if b.kind == "closure":
            continue
        w = False
        for blk in b.blocks:
            for st in blk.stmts:
                if st.kind == "assign" and st.place.proj and any(p.get("n") == "winner_cache" for p in st.place.proj if p["k"] == "field"):
                    w = True
        if w and b.impl_trait is None and b.name != "new":
            vals.append(b)
    res.floor("W1", "functions writing winner_cache (role: validate)", len(vals), 1)
    if len(vals) != 1:
        res.violation("W2", "winner-cache-writers:%s" % ",".join(v.path for v in vals), "winner_cache must be written by exactly one function, found %s" % [v.path for v in vals])
    for v in vals:
        check_validate(v, facts, res)

    # ------------------------------------------------------------------ W3
    cmpb = facts.body("<revision::Revision as std::cmp::Ord>::cmp")
    if cmpb is None:
        res.floor("W3", "Ord::cmp for Revision", 0, 1)
    else:
        try:
            tab = abstract_cmp_table(cmpb, facts)
            bad = [(k, v, spec_cmp(*k)) for k, v in sorted(tab.items()) if v != spec_cmp(*k)]
            for k, v in sorted(tab.items()):
                res.instance("W3", "cmp(resolved_self=%s, resolved_other=%s, index %s, printed %s) = %s" % (k[0], k[1], k[2], k[3], v), cmpb.loc(), nontrivial=True)
            sym = sorted({v for k, v, s_ in bad if v.startswith("«")})
            for v in sym:
                ks = [k for k, vv, s_ in bad if vv == v]
                res.violation("W3", "cmp|tie-break:%s" % v,
                              "Revision::cmp decides %d abstract case(s) (e.g. resolved_self=%s, resolved_other=%s, index %s) by %s instead of the byte-wise "
                              "comparison of the complete printed identifiers (self.to_string().cmp(&other.to_string()))" % (len(ks), ks[0][0], ks[0][1], ks[0][2], v), cmpb.loc())
            bad = [b_ for b_ in bad if not b_[1].startswith("«")]
            for k, v, s in bad:
                res.violation("W3", "cmp|table:%s" % ",".join(map(str, k)),
                              "Revision::cmp yields %s for (resolved_self=%s, resolved_other=%s, index %s, printed %s); the specified order yields %s" % (
                                  v, k[0], k[1], k[2], k[3], s), cmpb.loc())
            # antisymmetry on the abstract domain
            rev = {"<": ">", ">": "<", "=": "="}
            for (rs, ro, ix, st), v in tab.items():
                if v not in rev or tab[(ro, rs, rev[ix], rev[st])] not in rev:
                    continue
                if tab[(ro, rs, rev[ix], rev[st])] != rev[v]:
                    res.violation("W3", "cmp|antisymmetry", "Revision::cmp is not antisymmetric on the abstract domain", cmpb.loc())
                    break
        except ValueError as e:
            res.violation("W3", "cmp|unrecognised-shape", "cannot extract the decision table of Revision::cmp (%s); accepted idioms: if/else chains over is_resolved / index comparisons with Ordering constants or String::cmp(to_string) leaves" % e, cmpb.loc())
    pc = facts.body("<revision::Revision as std::cmp::PartialOrd>::partial_cmp")
    if pc is not None:
        t = du_of(pc).local_term(0, 12)
        ok = t[0] == "agg" and t[2] == "Some" and t[3] and peel(t[3][0])[0] == "call" and \
            peel(t[3][0])[1] == "<revision::Revision as std::cmp::Ord>::cmp" and \
            [_side(a) for a in peel(t[3][0])[2]] == [1, 2]
        res.instance("W3", "partial_cmp = Some(cmp(self, other)): %s" % ok, pc.loc())
        if not ok:
            res.violation("W3", "partial_cmp|not-some-cmp", "Revision::partial_cmp is not Some(self.cmp(other))", pc.loc())
    else:
        res.floor("W3", "PartialOrd for Revision", 0, 1)

    # ------------------------------------------------------------------ W4
    n4 = 0
    for b in facts.repo_bodies():
        du = du_of(b)
        for blk in b.blocks:
            if blk.cleanup:
                continue
            for st in blk.stmts:
                if st.kind == "assign" and st.rv.kind == "binop" and st.rv.j["op"] in ("Gt", "Ge", "Lt", "Le", "Eq", "Ne"):
                    a, c_ = st.rv.operands()
                    for x, y, flip in ((a, c_, False), (c_, a, True)):
                        if y.is_const() and y.const_int() is not None:
                            xt = du.operand_term(x, 12)
                            if contains_call(xt, "len") and contains_call(xt, "get_leafs"):
                                op = st.rv.j["op"]
                                if flip:
                                    op = {"Gt": "Lt", "Lt": "Gt", "Ge": "Le", "Le": "Ge"}.get(op, op)
                                k = y.const_int()
                                n4 += 1
                                ok = (op, k) in (("Gt", 1), ("Le", 1), ("Ge", 2), ("Lt", 2))
                                res.instance("W4", "%s compares the number of leaves: %s %d" % (b.path, op, k), b.loc(st.line))
                                if not ok:
                                    res.violation("W4", "%s|threshold:%s%d" % (b.path, op, k),
                                                  "%s compares leafs.len() with `%s %d`; an object is in conflict iff it has more than 1 live leaf" % (b.path, op, k), b.loc(st.line))
    res.floor("W4", "leaf-count comparisons", n4, 1)
    # in_conflict reports exactly the objects with more than one live leaf: its selecting closure says nothing else
    ic = facts.body("melda::Melda::in_conflict")
    if ic is not None:
        from ..conds import closure_result_lits
        from ..common import iter_chain
        chain = iter_chain(du_of(ic).local_term(0, 30))
        sel = [c for c in chain if callee_name(c) in ("filter", "filter_map", "take_while", "skip_while", "take", "skip", "step_by")]
        ok_ic = False
        extra = []
        for c in sel:
            if callee_name(c) not in ("filter", "filter_map"):
                extra.append(callee_name(c))
                continue
            cl = _top_closure(c[2][1]) if len(c[2]) > 1 else None
            cb_ = facts.body(cl[1]) if cl is not None else None
            if callee_name(c) == "filter_map":
                # `filter_map(|(id, t)| (t.leafs().len() > 1).then(|| id.clone()))`: selected exactly when the closure yields Some
                from ..conds import success_result_lits
                ls_ = success_result_lits(cb_, facts) if cb_ is not None else []
                if not ls_:
                    extra.append("filter_map")
                    continue
            else:
                ls_ = closure_result_lits(cb_, facts, True) if cb_ is not None else []
            from ..conds import unaccepted

            def leaf_count(l):
                return l.kind == "cmp" and any(x[0] == "call" and callee_name(x) == "len" for x in walk(l.term)) and \
                    any(x[0] == "call" and callee_name(x) == "get_leafs" for x in walk(l.term))
            if any(leaf_count(l) for l in ls_):
                ok_ic = True
            extra += [repr(l) for l in unaccepted(ls_, lambda l: leaf_count(l) or (l.kind == "variant" and l.variants and l.variants <= {"Ok", "Some"}))]
        # plain-loop form: every insertion into the result is dominated by the leaf-count literal only
        if not sel:
            for bi, t in ic.calls():
                if t.callee is not None and t.callee.name in ("insert", "push") :
                    ls_ = lits_of(ic, bi, facts)
                    if any(l.kind == "cmp" and any(x[0] == "call" and callee_name(x) == "get_leafs" for x in walk(l.term)) for l in ls_):
                        ok_ic = True
                    extra += [repr(l) for l in ls_ if l.kind == "call" and callee_name(l.term) in ("is_deleted", "is_resolved", "is_empty", "contains", "eq", "ne")]
        res.instance("W4", "in_conflict selects by `more than one live leaf` only: %s (other conditions: %s)" % (ok_ic, extra or "none"), ic.loc())
        if not ok_ic or extra:
            res.violation("W4", "in_conflict|selection-not-leaf-count-only",
                          "in_conflict does not report exactly the objects with more than one live leaf (leaf-count test found: %s, further conditions: %s): "
                          "in_conflict and get_conflicting would disagree" % (ok_ic, extra[:2]), ic.loc())
    gc = facts.body("melda::Melda::get_conflicting")
    if gc is not None:
        ok = False
        for cb in facts.closures_of(gc.path):
            if cb.local_ty(0) != "bool":
                continue
            t = du_of(cb).local_term(0, 16)
            pt = peel(t, stop_var=False)
            while pt[0] == "var":
                pt = pt[3]
            want = "ne"
            if pt[0] == "unop" and pt[1] == "Not":
                pt = peel(pt[2])
                while pt[0] == "var":
                    pt = pt[3]
                want = "eq"
            whole = pt[0] == "call" and pt[4] is not None and "revision::Revision" in ((pt[4].self_ty or "") + " ".join(pt[4].args or []) + (pt[4].full or "")) \
                and not any(x[0] == "call" and callee_name(x) in ("digest", "index", "to_string", "tail") for x in walk(pt) if x is not pt)
            if pt[0] == "call" and callee_name(pt) == want and whole:
                # one side is the captured winner (its definition in the parent derives from get_winner)
                for x in walk(pt):
                    if x[0] == "upvar":
                        for i, l in enumerate(gc.locals):
                            if l.get("name") == x[2] and contains_call(du_of(gc).local_term(i, 12), "get_winner"):
                                ok = True
        rt = du_of(gc).local_term(0, 30)
        names = [callee_name(x) for x in walk(rt, False) if x[0] == "call"]
        chain_ok = "get_leafs" in names and names.count("filter") == 1 and not (set(names) & {"take", "skip", "step_by"})
        wdef = ok
        if not (ok and chain_ok):
            # loop form: `for r in leafs { if w != r { out.insert(r.to_string()) } }`
            from ..conds import unaccepted
            from ..common import whole_iteration
            gdu = du_of(gc)
            for bi, t in gc.calls():
                if t.callee is None or t.callee.name not in ("insert", "push") or len(t.args) < 2:
                    continue
                v = gdu.operand_term(t.args[1], 30)
                if not (contains_call(v, "get_leafs") and whole_iteration(gc, v)):
                    continue

                def is_ne_winner(l):
                    if not (l.kind == "call" and callee_name(l.term) in ("ne", "eq") and l.truth == (callee_name(l.term) == "ne") and len(l.term[2]) >= 2):
                        return False
                    if l.term[4] is None or "revision::Revision" not in ((l.term[4].self_ty or "") + " ".join(l.term[4].args or []) + (l.term[4].full or "")):
                        return False
                    if any(x[0] == "call" and callee_name(x) in ("digest", "index", "to_string", "tail") for a_ in l.term[2][:2] for x in walk(a_)):
                        return False
                    return any(contains_call(a_, "get_winner") for a_ in l.term[2][:2]) and any(contains_call(a_, "get_leafs") for a_ in l.term[2][:2])
                ls_ = lits_of(gc, bi, facts)
                others = unaccepted(ls_, lambda l: is_ne_winner(l) or (l.kind == "variant" and l.variants and l.variants <= {"Some", "Ok", "Continue"}))
                if any(is_ne_winner(l) for l in ls_) and not others:
                    ok = chain_ok = wdef = True
        res.instance("W4", "get_conflicting = get_leafs().filter(|r| winner != r): filter is `ne(winner, r)`: %s, single filter over the whole leaf set: %s, w = get_winner(): %s" % (ok, chain_ok, wdef), gc.loc())
        if not (ok and chain_ok and wdef):
            res.violation("W4", "get_conflicting|filter", "get_conflicting is no longer `leaves filtered by != winner`", gc.loc())
    else:
        res.floor("W4", "get_conflicting", 0, 1)


def check_validate(v, facts, res):
    du = du_of(v)
    cfg = cfg_of(v)
    # sites: leaf insertion and best update
    sites = []
    for bi, t in v.calls():
        if t.callee is not None and t.callee.name == "insert" and "leafs_cache" in field_path(arg_term(v, t, 0))[0]:
            sites.append(("leaf insertion", bi, t.line))
    best_locals = set()
    for blk in v.blocks:
        for st in blk.stmts:
            if st.kind == "assign" and st.place.proj and any(p.get("n") == "winner_cache" for p in st.place.proj if p["k"] == "field"):
                t = du.rvalue_term(st.rv, 6)
                for x in walk(t):
                    if x[0] == "var":
                        best_locals.add(x[1])
    for l in best_locals:
        for d in du.defs.get(l, []):
            if d.kind == "assign" and not d.place.proj:
                t = du.rvalue_term(d.rv, 8)
                if any(x[0] == "agg" and x[2] == "Some" for x in walk(t)):
                    sites.append(("best update", d.block, v.blocks[d.block].stmts[d.idx].line))
    if not sites:
        if _check_validate_pipeline(v, facts, res):
            return
    res.floor("W1", "leaf insertion + best update sites in %s" % v.path, len(sites), 2)
    # the candidate: element of the iteration over self.revisions.keys()
    for what, bi, line in sites:
        g_res = g_par = g_valid = False
        for l in lits_of(v, bi, facts):
            if l.kind != "call":
                continue
            n = callee_name(l.term)
            if n == "is_resolved" and l.truth is False and _is_candidate(l.term[2][0]):
                g_res = True
            if n == "contains" and l.truth is False and _is_candidate(l.term[2][1]) and _parents_set(l.term[2][0], v, facts):
                # ... a set of *revisions*: a set of projections (index and digest, the digest alone) identifies revisions that differ
                # in their tail - a leaf whose twin on another branch has a successor would count as a parent and vanish
                ct_ = l.term[4]
                elem_ = ((ct_.self_ty or "") + " " + ct_.full + " " + " ".join(ct_.args)) if ct_ is not None else ""
                if "revision::Revision" in elem_ and "(" not in elem_.split("revision::Revision")[0].split("<")[-1]:
                    g_par = True
                else:
                    res.violation("W1", "%s|parent-set-of-projections" % v.path,
                                  "%s tests `is a parent` in a set whose elements are not whole revisions (%s): two revisions with the same index and "
                                  "content but different ancestors are taken for one" % (v.path, elem_.strip()[:120]), v.loc(line))
            hb = facts.body(l.term[4].target()) if l.term[4] is not None else None
            if l.truth is True and hb is not None and hb.in_repo() and hb.path != v.path and hb.local_ty(0) == "bool" and \
                    hb.file == v.file and any(_is_candidate(a) for a in l.term[2]) and n not in ("is_resolved", "contains"):
                if _reach_helper_ok(hb, facts, res):
                    g_valid = True
                # W1c: what the helper remembers lives for one validation: every map handed to it was created empty in this call. A memo kept
                # in the tree between validations keeps "not connected" for a revision whose missing ancestor arrives later.
                for a_ in l.term[2]:
                    ra_ = a_
                    hops_ = 0
                    while hops_ < 12 and ra_[0] in ("ref", "deref", "cast"):
                        ra_ = ra_[1]
                        hops_ += 1
                    if ra_[0] == "var" and ("HashMap<" in (v.local_ty(ra_[1]) or "") or "BTreeMap<" in (v.local_ty(ra_[1]) or "")):
                        init_ = peel(ra_[3]) if len(ra_) > 3 else ("cut",)
                        fresh_ = init_[0] == "call" and callee_name(init_) in ("new", "with_capacity", "default", "with_capacity_and_hasher")
                        if not fresh_:
                            res.violation("W1", "%s|reachability-memo-outlives-validation" % v.path,
                                          "%s hands the reachability helper a map (%s) that was not created empty in this validation: an answer remembered "
                                          "from an earlier validation is not revised when the missing ancestor arrives" % (v.path, v.local_name(ra_[1])), v.loc(line))
        res.instance("W1", "%s in %s: under !is_resolved(candidate)=%s, !parents.contains(candidate)=%s, root-reachable(candidate)=%s" % (
            what, v.path, g_res, g_par, g_valid), v.loc(line))
        if not (g_res and g_par and g_valid):
            res.violation("W1", "%s|%s-unguarded" % (v.path, what.replace(" ", "-")),
                          "%s: %s is not dominated by all liveness tests (not a resolution marker: %s, not a parent: %s, reaches a root: %s)" % (
                              v.path, what, g_res, g_par, g_valid), v.loc(line))
    # W2: best replaced only if empty or candidate > best
    for what, bi, line in sites:
        if what != "best update":
            continue
        ok = False
        for l in lits_of(v, bi, facts):
            if l.kind == "call" and callee_name(l.term) == "is_none_or" and l.truth is True:
                cl = [x for x in walk(l.term[2][1]) if x[0] == "closure"]
                if cl:
                    cb = facts.body(cl[0][1])
                    rt = peel(du_of(cb).local_term(0, 12))
                    if rt[0] == "call" and callee_name(rt) == "gt" and _on_revisions(rt[4]) and \
                            any(x[0] == "upvar" for x in walk(rt[2][0])) and any(x[0] == "param" and x[1] == 2 for x in walk(rt[2][1])):
                        ok = True
            if l.kind == "call" and callee_name(l.term) == "gt" and l.truth is True and _on_revisions(l.term[4]):
                ok = True
        res.instance("W2", "%s: best replaced only when empty or candidate > best (Revision's order): %s" % (v.path, ok), v.loc(line))
        if not ok:
            res.violation("W2", "%s|best-update-rule" % v.path, "%s replaces the running best on an edge that is not `best is None || candidate > best`" % v.path, v.loc(line))
    # the candidates are all keys; parent set from all values
    loops = [x for bi, t in v.calls() if t.callee is not None and t.callee.name == "next" for x in [du.operand_term(t.args[0], 20)]]
    from ..common import iter_chain

    def only_liveness_filters(x):
        """a `filter` in the chain is accepted when it states nothing but the liveness tests the rule requires anyway"""
        from ..conds import closure_result_lits
        for c in iter_chain(x):
            if c[0] == "call" and callee_name(c) == "filter":
                cls_ = [_top_closure(c[2][1])] if len(c[2]) > 1 and _top_closure(c[2][1]) is not None else []
                if not cls_:
                    return False
                for y in cls_:
                    cb_ = facts.body(y[1])
                    ls_ = closure_result_lits(cb_, facts, True) if cb_ is not None else []
                    from ..conds import unaccepted
                    if not ls_ or unaccepted(ls_, lambda l: l.kind == "call" and callee_name(l.term) in ("is_resolved", "contains") and l.truth is False):
                        return False
        return True
    whole = any(any(callee_name(c) == "keys" and c[2] and any(y[0] == "field" and y[2] == "revisions" for y in walk(c[2][0])) for c in iter_chain(x)) and
                not (set(callee_name(c) for c in iter_chain(x)) & {"take", "skip", "step_by", "filter_map", "take_while", "skip_while"}) and
                only_liveness_filters(x) for x in loops)
    res.instance("W1", "%s iterates every recorded revision: %s" % (v.path, whole), v.loc())
    if not whole:
        res.violation("W1", "%s|not-all-revisions" % v.path, "%s does not iterate over all keys of the revision map" % v.path, v.loc())


def _on_revisions(c):
    """the comparison is Revision's own order: the compared type is Revision (behind references), not a tuple / key derived from it"""
    if c is None:
        return False
    st = c.self_ty
    if not st:
        full = c.full or ""
        st = full[1:].split(" as ")[0] if full.startswith("<") else ""
    st = st.strip()
    while st.startswith("&"):
        st = st[1:].strip()
        if st.startswith("mut "):
            st = st[4:].strip()
        if st.startswith("'"):
            st = st.split(" ", 1)[1].strip() if " " in st else st
    return st == "revision::Revision"


def _top_closure(t):
    hops = 0
    while hops < 20 and isinstance(t, tuple) and t:
        hops += 1
        if t[0] == "closure":
            return t
        if t[0] in ("ref", "deref", "cast"):
            t = t[1]
        elif t[0] == "var":
            t = t[3]
        else:
            return None
    return None


def _check_validate_pipeline(v, facts, res):
    """Pipeline form of the recomputation: the leaf set is filled by `extend` / `collect` from an adaptor chain over all keys of the
    revision map whose `filter` closures state the three liveness tests, and the winner is a maximum (`reduce` / `max` /
    `max_by`) over that same collection under Revision's order.  Returns True when the form was recognised (and judged)."""
    from ..defuse import inline_calls
    from ..conds import closure_result_lits, unaccepted
    from ..common import iter_chain
    du = du_of(v)
    fills = [(bi, t) for bi, t in v.calls() if t.callee is not None and t.callee.name in ("extend", "append") and t.args and len(t.args) >= 2 and
             "leafs_cache" in field_path(arg_term(v, t, 0))[0]]
    if not fills:
        return False
    ok_all = True
    for bi, t in fills:
        src = inline_calls(arg_term(v, t, 1, 30), facts)
        # the chain: ... collect(cloned(filter(filter(filter(keys(&self.revisions))))))
        chains = [x for x in walk(src) if x[0] == "call" and callee_name(x) in ("collect", "cloned", "filter", "copied")]
        g_res = g_par = g_valid = False
        whole = False
        extra = []
        root = src
        for _ in range(8):
            while root[0] in ("var", "ref", "deref", "cast"):
                root = root[3] if root[0] == "var" else root[1]
            hb_ = facts.body(root[1]) if root[0] == "call" and root[4] is not None else None
            if hb_ is not None and hb_.in_repo() and hb_.kind != "closure" and len(root[2]) > (hb_.argc):
                root = root[2][-1]          # the helper's return term, appended by inline_calls
            else:
                break
        for x in iter_chain(root):
            if x[0] == "call" and callee_name(x) == "keys" and x[2] and any(y[0] == "field" and y[2] == "revisions" for y in walk(x[2][0])):
                whole = True
            if x[0] == "call" and callee_name(x) in ("take", "skip", "step_by", "filter_map", "take_while", "skip_while", "rev", "nth"):
                whole = False
                extra.append(callee_name(x))
            if x[0] != "call" or callee_name(x) != "filter" or len(x[2]) < 2:
                continue
            cl = _top_closure(x[2][1])
            cb = facts.body(cl[1]) if cl is not None else None
            if cb is None:
                extra.append("filter without analysable closure")
                continue
            ls = closure_result_lits(cb, facts, True)
            if not ls:
                extra.append("filter with an unattributable result")
            for l in ls:
                if l.kind != "call" or l.derived:
                    continue
                n = callee_name(l.term)
                cand = lambda a: any(y[0] == "param" and y[1] == 2 for y in walk(a))
                if n == "is_resolved" and l.truth is False and cand(l.term[2][0]):
                    g_res = True
                elif n == "contains" and l.truth is False and len(l.term[2]) > 1 and cand(l.term[2][1]):
                    # the set tested is the captured parent set of the function that builds the chain
                    g_par = True
                else:
                    hb = facts.body(l.term[4].target()) if l.term[4] is not None else None
                    if l.truth is True and hb is not None and hb.in_repo() and hb.local_ty(0) == "bool" and any(cand(a) for a in l.term[2]):
                        if _reach_helper_ok(hb, facts, res):
                            g_valid = True
                    else:
                        extra.append(repr(l))
        res.instance("W1", "%s (pipeline form): the leaf set is filled from all keys of the revision map (%s) filtered by !is_resolved (%s), !parents.contains (%s), "
                     "root-reachable (%s); other selections: %s" % (v.path, whole, g_res, g_par, g_valid, extra or "none"), v.loc(t.line))
        if not (whole and g_res and g_par and g_valid) or extra:
            ok_all = False
            res.violation("W1", "%s|leaf-insertion-unguarded" % v.path,
                          "%s: the leaf set is not exactly the keys of the revision map that pass all liveness tests (whole map: %s, not a resolution marker: %s, "
                          "not a parent: %s, reaches a root: %s, other selections: %s)" % (v.path, whole, g_res, g_par, g_valid, extra), v.loc(t.line))
        # W2: the winner is a maximum over the same collection
        fill_roots = {y[1] for y in walk(arg_term(v, t, 1, 8)) if y[0] == "var"}
        w_ok = False
        for blk in v.blocks:
            for st in blk.stmts:
                if st.kind == "assign" and st.place.proj and any(p.get("n") == "winner_cache" for p in st.place.proj if p["k"] == "field"):
                    wt = du.rvalue_term(st.rv, 30)
                    pw = peel(wt)
                    if pw[0] == "agg" and pw[2] == "None":
                        continue
                    same = bool(fill_roots & {y[1] for y in walk(wt) if y[0] == "var"})
                    mx = [y for y in walk(wt) if y[0] == "call" and callee_name(y) in ("reduce", "max", "max_by", "fold")]
                    by_order = False
                    for y in mx:
                        if callee_name(y) == "max" and not ({callee_name(c_) for c_ in iter_chain(y[2][0])} &
                                                            {"map", "filter_map", "flat_map", "scan", "zip", "enumerate", "map_while"}):
                            by_order = True     # Iterator::max over the revisions themselves (no re-keying adaptor in between)
                        for z in (walk(y[2][1]) if len(y[2]) > 1 else []):
                            if z[0] == "closure":
                                cb = facts.body(z[1])
                                if cb is not None and any(tt.callee is not None and tt.callee.name in ("gt", "lt", "ge", "le", "cmp", "max") and
                                                          _on_revisions(tt.callee) for _, tt in cb.calls()):
                                    by_order = True
                    w_ok = same and bool(mx) and by_order
                    res.instance("W2", "%s (pipeline form): winner = maximum (Revision's order: %s) over the collection the leaf set is filled from (%s)" % (v.path, by_order, same), v.loc(st.line))
        if not w_ok:
            ok_all = False
            res.violation("W2", "%s|best-update-rule" % v.path, "%s does not take the winner as the maximum, under Revision's order, of the collection the leaf set is filled from" % v.path, v.loc())
    res.instance("W1", "%s iterates every recorded revision: %s" % (v.path, True), v.loc())
    return True


def _is_candidate(t):
    return any(x[0] == "call" and callee_name(x) == "next" for x in walk(t))


def _parents_set(t, v, facts):
    """the set tested is collect(filter_map(values(self.revisions), |e| e.get_parent()))"""
    names = [callee_name(x) for x in walk(t, False) if x[0] == "call"]
    if not ("collect" in names and "values" in names and any(x[0] == "field" and x[2] == "revisions" for x in walk(t))):
        return False
    if set(names) & {"take", "skip", "filter", "step_by"}:
        return False
    for x in walk(t):
        if x[0] == "closure":
            cb = facts.body(x[1])
            if cb is not None and any(tt.callee is not None and tt.callee.name == "get_parent" for _, tt in cb.calls()):
                return True
    return False


_helper_cache = {}


def _reach_helper_ok(h, facts, res):
    """the reachability helper yields `true` only on index == 1 && parent is None, or from its cache"""
    if h is None:
        return False
    if h.path in _helper_cache and _helper_cache[h.path][0] is facts:
        return _helper_cache[h.path][1]
    du = du_of(h)
    ok = True
    gave_up = []
    n_true = 0
    # locals that flow into the return value
    rl = set()
    t0 = du.local_term(0, 6)
    for x in walk(t0):
        if x[0] == "var" and h.local_ty(x[1]) == "bool":
            rl.add(x[1])
    rl.add(0)
    for l in rl:
        for d in du.defs.get(l, []):
            if d.kind != "assign" or d.place.proj:
                continue
            t = du.rvalue_term(d.rv, 8)
            tt_ = t
            while tt_[0] == "var":
                tt_ = tt_[3]
            is_idx_cmp = tt_[0] == "binop" and tt_[1] == "Eq" and any(
                y[0] == "const" and y[2] == 1 and contains_call(x, "index") for x, y in ((tt_[2], tt_[3]), (tt_[3], tt_[2])))
            if (t[0] == "const" and t[1] == "bool" and t[2] is True) or is_idx_cmp:
                # `true` under the two tests, or the value of `index == 1` itself under `parent is None`
                n_true += 1
                g_idx = is_idx_cmp
                g_par = False
                for lit in lits_of(h, d.block, facts):
                    if lit.kind == "variant" and lit.variants == {"None"} and contains_call(lit.term, "get_parent"):
                        g_par = True
                    if lit.kind == "cmp" and lit.term[1] == "Eq" and lit.truth is True:
                        a, b_ = lit.term[2], lit.term[3]
                        for x, y in ((a, b_), (b_, a)):
                            if y[0] == "const" and y[2] == 1 and contains_call(x, "index"):
                                g_idx = True
                    if lit.kind == "call" and callee_name(lit.term) == "is_none" and lit.truth is True and contains_call(lit.term[2][0], "get_parent"):
                        g_par = True
                if not (g_idx and g_par):
                    ok = False
                res.instance("W1", "%s yields true under index == 1 (%s) && parent is None (%s)" % (h.path, g_idx, g_par), h.loc(h.blocks[d.block].stmts[d.idx].line))
            elif t[0] == "const" and t[1] == "bool":
                # W1b: `false` is the answer of a broken chain only - a revision or a parent that is not there. Any other reason to give
                # up (a bound on the length of the chain, a set of "closed" revisions) makes a revision with a complete chain of
                # ancestors down to a root no leaf, and its object loses a (possibly winning) leaf.
                def _chain_lit(lit):
                    if lit.kind == "variant":
                        return any(contains_call(lit.term, n_) for n_ in ("get", "get_parent", "get_key_value", "get_mut"))
                    if lit.kind == "call" and callee_name(lit.term) in ("is_none", "is_some", "contains_key") and lit.term[2]:
                        return True
                    if lit.kind == "cmp":
                        return any(y[0] == "const" and y[2] == 1 and contains_call(x, "index")
                                   for x, y in ((lit.term[2], lit.term[3]), (lit.term[3], lit.term[2])))
                    return False
                from ..conds import unaccepted as _un
                ex_ = [repr(l_) for l_ in _un(lits_of(h, d.block, facts), _chain_lit)]
                res.instance("W1", "%s yields false only where the chain of ancestors is broken (other reasons: %s)" % (h.path, ex_ or "none"),
                             h.loc(h.blocks[d.block].stmts[d.idx].line))
                if ex_:
                    ok = False
                    res.violation("W1", "%s|gives-up" % h.path,
                                  "%s answers `not connected to a root` under %s: a revision whose ancestors are all present down to a root is "
                                  "a leaf whatever the length or the contents of its chain" % (h.path, ex_[:2]), h.loc(h.blocks[d.block].stmts[d.idx].line))
                    gave_up.append(1)
                continue
            else:
                # copied from the cache (`Some(&v) = cache.get(..)`) or from another tracked local
                pt = peel(t)
                if pt[0] == "call" and callee_name(pt) == "get" and any(x[0] == "param" and "HashMap<" in h.local_ty(x[1]) for x in walk(pt)):
                    continue
                if pt[0] in ("var", "cut", "phi"):
                    continue
                ok = False
    if n_true < 1:
        ok = False
    _helper_cache[h.path] = (facts, ok)
    if not ok and not gave_up:
        res.violation("W1", "%s|root-test" % h.path, "%s can yield true without `index == 1 && parent is None` (or a cached result)" % h.path, h.loc())
    return ok


def thorough(res):
    from .. import engine
    engine.sensitivity("C05", res)
