"""C10 - Stored items are trusted only if content matches name."""
from ..cfg import cfg_of
from ..defuse import du_of, walk, peel, callee_name, contains, fmt
from ..conds import lits_of
from ..common import root_fn
from ..callgraph import cg_of
from ..roles import roles_of
from ..common import (arg_term, derives_from_block, call_named, contains_call, assigns_of_return,
                      is_adapter_impl, in_adapter_module, ADAPTER_TRAIT, field_path)

TEXT = ("Must-pass-through (taint) analysis over every raw storage reader of the crate: bytes returned by "
        "<dyn Adapter>::read_object outside the backends (directly or through an unverified pass-through wrapper) may "
        "reach a parser, the pack re-indexer, a raw write or an Ok return only through the *match* edge of a comparison "
        "between digest_bytes(those bytes) and a value not derived from them, and the mismatch edge never reaches an "
        "Ok return (H1, H3 closed set); a parsed block is returned only on the equal edge of 'identifier recomputed "
        "from the parents == identifier it is stored under' (H2); keys of the object index derive from digest_bytes of "
        "the indexed slice or from the staged digest (H4); item names coming from storage listings are parsed without "
        "unwrap/expect on fallible conversions (H5); pack loading loops end by exhaustion or Err only (H6); in everything "
        "reachable from reload / refresh / reload_until an unwrap/expect of a JSON shape conversion or map lookup is "
        "dominated by the matching shape test on the same value, or the value is built locally (H7: a hash-consistent but "
        "malformed stored item must be skipped or reported, not abort the thread; the same for every fallible text / number "
        "conversion of a non-constant value), loops over storage listings are entered whenever the listing is non-empty (H6b), "
        "and no overflow-checked arithmetic is applied to an identifier index on those paths (H8). Decides that no path interprets unverified bytes; does not decide "
        "equality of the surviving state with the state of the intact subset (history-level)."
        " H9: in read, the Result of every load of a stored object is propagated, returned or unwrapped (a match counts only if its Err side acts).")
TECHNIQUE = 'static analysis over rustc MIR: must-pass-through (taint) from raw reads to parsers through a digest-match edge, dominance of shape tests over unwraps of stored content, overflow-assert enumeration on identifier indices, listing-loop entry/exit discipline'
TRUSTED = ["rustc nightly MIR and callee resolution", "sha2/hex compute SHA-256", "serde_json parses only what it is given",
           "backends return the stored bytes (C17)"]

HARMLESS = {"len", "is_empty", "eq", "ne", "digest_bytes", "digest_string", "fmt", "drop", "drop_in_place"}
VIEWS = {"deref", "deref_mut", "as_slice", "as_ref", "borrow", "as_bytes", "as_str", "branch", "from_residual",
         "from_utf8", "clone", "to_vec", "to_owned", "unwrap", "expect", "index", "as_mut_slice", "into", "from",
         "iter", "into_iter", "map_err", "ok"}
CONVERSIONS = {"parse", "from_str_radix", "from_str", "try_into", "try_from", "from_utf8", "decode"}


def _raw_sites(facts):
    """direct raw read sites outside the backends: [(body, block, term)]"""
    out = []
    for b in facts.repo_bodies():
        if is_adapter_impl(b) or in_adapter_module(b):
            continue
        for bi, t in b.calls():
            c = t.callee
            if c is not None and c.trait == ADAPTER_TRAIT and c.name == "read_object":
                out.append((b, bi, t))
    return out


def _from_src(t, src):
    """term contains the source: the result of the call terminating block `src` (int) or parameter ('param', k)"""
    if isinstance(src, tuple):
        return any(x[0] == "param" and x[1] == src[1] for x in walk(t))
    return derives_from_block(t, src)


def _digest_match_lits(body, block, src_block, facts):
    """literals dominating `block` of the form digest(X) ==/!= Y on the matching edge, X derived from the
    source call, Y not"""
    out = []
    for l in lits_of(body, block, facts):
        if l.kind == "call" and callee_name(l.term) in ("eq", "ne") and len(l.term[2]) >= 2:
            a, b_ = l.term[2][0], l.term[2][1]
            want = callee_name(l.term) == "eq"
        elif l.kind == "cmp" and l.term[1] in ("Eq", "Ne"):
            a, b_ = l.term[2], l.term[3]
            want = l.term[1] == "Eq"
        else:
            continue
        if l.truth is None or l.truth != want:
            continue
        for x, y in ((a, b_), (b_, a)):
            dig = [c for c in walk(x) if call_named(c, "digest_bytes", "digest_string")]
            if any(_from_src(c, src_block) for c in dig) and not _from_src(y, src_block):
                out.append(l)
                break
    return out


def _via_views(t, src_block, depth=0):
    """t is (a view of / a copy of / the payload of) the result of the call in src_block"""
    if depth > 80:
        return False
    k = t[0]
    if k == "param" and isinstance(src_block, tuple):
        return t[1] == src_block[1]
    if k == "call":
        if not isinstance(src_block, tuple) and t[3] == src_block:
            return True
        if callee_name(t) in VIEWS and t[2]:
            return _via_views(t[2][0], src_block, depth + 1)
        return False
    if k in ("ref", "deref", "cast", "promoted", "field", "downcast", "index", "discr"):
        return _via_views(t[1], src_block, depth + 1)
    if k == "var":
        return _via_views(t[3], src_block, depth + 1)
    if k == "phi":
        return any(_via_views(x, src_block, depth + 1) for x in t[1])
    if k == "agg":
        return any(_via_views(x, src_block, depth + 1) for x in t[3])
    if k in ("tuple", "array"):
        return any(_via_views(x, src_block, depth + 1) for x in t[1])
    return False


def _uses(body, src_block):
    """[(kind, block, what)] uses of the data returned by the call in src_block"""
    du = du_of(body)
    out = []
    for bi, t in body.calls():
        if bi == src_block or t.callee is None:
            continue
        n = t.callee.name
        if n in VIEWS or n in HARMLESS:
            continue
        if t.callee.path in ("std::mem::drop",):
            continue
        for i, a in enumerate(t.args):
            at = du.operand_term(a, 24)
            if _via_views(at, src_block):
                out.append(("call", bi, t))
                break
    for bi, st in assigns_of_return(body):
        rt = du.rvalue_term(st.rv, 24)
        if st.rv.kind == "agg" and st.rv.j.get("variant") == "Err":
            continue
        if _via_views(rt, src_block):
            out.append(("return", bi, st))
    # the call's own destination being the return place
    if not isinstance(src_block, tuple):
        t = body.blocks[src_block].term
        if t.dest is not None and t.dest.local == 0:
            out.append(("return", src_block, None))
    return out


def run(facts, res):
    R = roles_of(facts)
    cg = cg_of(facts)
    res.rule("H1", "raw bytes reach a parser / re-indexer / Ok return / raw write only through the match edge of a digest comparison; mismatch leads to Err")
    res.rule("H2", "a parsed block is returned only if the identifier recomputed from its parents equals the identifier it is stored under")
    res.rule("H3", "closed set of raw readers: every use of unverified bytes is verified or is the frozen foreign-item copy in meld")
    res.rule("H4", "keys of the object index derive from digest_bytes of the indexed slice (re-indexer) or from the staged digest (writer)")
    res.rule("H5", "names obtained from storage listings are parsed without unwrap/expect on fallible conversions")

    # ------------------------------------------------------------------ H1 / H3
    work = [(b, bi, "direct") for (b, bi, t) in _raw_sites(facts)]
    n_direct = len(work)
    res.floor("H3", "direct raw read sites outside backends", n_direct, 2)
    verified = 0
    copies = 0
    seen = set()
    passthrough = set()
    while work:
        body, sb, how = work.pop()
        if (body.path, sb) in seen:
            continue
        seen.add((body.path, sb))
        uses = _uses(body, sb)
        cfg = cfg_of(body)
        if not uses:
            res.instance("H1", "%s: raw read result is not used" % body.path, body.loc(body.blocks[sb].term.line if not isinstance(sb, tuple) else None), nontrivial=False)
        unverified_return = False
        for kind, ub, what in uses:
            dm = _digest_match_lits(body, ub, sb, facts)
            if not dm and kind == "call" and what.callee is not None:
                # the bytes are handed to one of the crate's own private functions (`decode(&bytes, expected_digest)`): the
                # obligation moves into that function, with the receiving parameter as the source
                hb_ = facts.body(what.callee.target())
                if hb_ is not None and hb_.in_repo() and not hb_.public and hb_.kind != "closure" and hb_.impl_trait is None and \
                        what.callee.name != R.name("raw_write"):
                    du_ = du_of(body)
                    ks = [i + 1 for i, a in enumerate(what.args) if _via_views(du_.operand_term(a, 24), sb)]
                    if ks:
                        for k_ in ks:
                            work.append((hb_, ("param", k_), "handed over by " + body.path))
                        res.instance("H1", "%s hands the raw bytes to %s: the digest check is looked for there" % (body.path, hb_.path), body.loc(what.line))
                        continue
            where = body.loc(body.blocks[ub].term.line if what is None or kind == "call" else what.line)
            if dm:
                # mismatch edges must not reach an Ok return
                bad = False
                for l in dm:
                    s, k, v, tgt = l.edge
                    # a per-item test inside a loop: going back to the loop header is "skip this item" (the closure form
                    # `for_each(|item| ..)` simply returns); only a return reached without re-entering the loop counts
                    headers = {h for h in cfg.loop_headers() if cfg.dominates(h, s) and cfg.reaches(s, h)}
                    for kk in range(len(body.blocks[s].term.switch_edges())):
                        if kk == k:
                            continue
                        e = cfg.edge_nodes[(s, kk)]
                        if cfg.edge_info[e][3] in headers:
                            continue
                        reach = cfg.reachable_blocks(e, avoid=headers) | ({cfg.edge_info[e][3]})
                        for ob, _ in assigns_of_return(body, "Ok"):
                            if ob in reach and not cfg.dominates(cfg.edge_nodes[(s, k)], ob):
                                bad = True
                if bad:
                    res.violation("H1", "%s|mismatch-reaches-ok" % body.path,
                                  "%s: the digest-mismatch edge can reach an Ok return" % body.path, where)
                verified += 1
                res.instance("H1", "%s: %s of data from raw read (%s) is dominated by %s" % (
                    body.path, "call " + what.callee.name if kind == "call" else "Ok return", how, dm[0]), where)
                continue
            if kind == "return":
                unverified_return = True
                continue
            # frozen exception: pure copy of a foreign (non-block, non-pack) item in meld
            if kind == "call" and what.callee.name == R.name("raw_write") and _foreign_copy(body, ub, facts):
                copies += 1
                res.exception("C10|H3|%s|foreign-item-copy" % body.path,
                              "meld copies items that carry neither the block nor the pack extension byte for byte; "
                              "libmelda never interprets them")
                res.instance("H3", "%s: unverified bytes are only copied under !ends_with(DELTA_EXTENSION) && !ends_with(PACK_EXTENSION)" % body.path, where)
                continue
            res.violation("H1", "%s|unverified-use:%s" % (body.path, what.callee.name),
                          "%s passes bytes read from storage to %s without a dominating digest check against the "
                          "requested name" % (body.path, what.callee.target()), where)
        if unverified_return:
            # pass-through wrapper: its callers become raw readers
            passthrough.add(body.path)
            callers = cg.callers_of(body.path)
            res.instance("H3", "%s returns unverified bytes (pass-through); %d caller site(s) inherit the obligation" % (
                body.path, len(callers)), body.loc())
            if body.public and body.impl_adt and "Melda" in body.impl_adt and body.kind != "closure":
                res.violation("H3", "%s|public-unverified-reader" % body.path,
                              "%s is public API and returns unverified storage bytes" % body.path, body.loc())
            for s in callers:
                work.append((s.body, s.block, "via " + body.path))
    res.floor("H1", "verified uses of raw bytes (pack load, object slice, block fetch)", verified, 2)
    res.floor("H3", "foreign-item copy exception still anchored", copies, 1)
    res.note("pass-through wrappers: %s" % ", ".join(sorted(passthrough)))

    # ------------------------------------------------------------------ H2
    n2 = 0
    for b in facts.repo_bodies():
        if b.kind == "closure" or not b.sig or "melda::Delta," not in (b.local_ty(0) + ","):
            continue
        if not b.local_ty(0).startswith("std::result::Result<melda::Delta"):
            continue
        # a loader: builds a Delta from parsed JSON
        du = du_of(b)
        for ob, st in assigns_of_return(b, "Ok"):
            n2 += 1
            ok = False
            for l in lits_of(b, ob, facts):
                if l.kind == "call" and callee_name(l.term) in ("eq", "ne") and l.truth == (callee_name(l.term) == "eq"):
                    a0, a1 = l.term[2][0], l.term[2][1]
                    for x, y in ((a0, a1), (a1, a0)):
                        if contains_call(x, "new_from_anchors") and contains_call(x, "melda::DeltaId::new") \
                                and peel(y)[0] == "param":
                            ok = True
            res.instance("H2", "%s: Ok(Delta) return dominated by recomputed-id == stored-id: %s" % (b.path, ok), b.loc(st.line))
            if not ok:
                res.violation("H2", "%s|id-index-check-missing" % b.path,
                              "%s returns a parsed block without checking that the identifier recomputed from its "
                              "parents (DeltaId::new_from_anchors / DeltaId::new) equals the identifier it is stored under" % b.path,
                              b.loc(st.line))
    res.floor("H2", "block loader Ok returns", n2, 1)

    # ------------------------------------------------------------------ H4
    n4 = 0
    for b in facts.repo_bodies():
        for bi, t in b.calls():
            if t.callee is None or t.callee.name != "insert" or len(t.args) < 3:
                continue
            fp, root = field_path(arg_term(b, t, 0))
            if "committed_objects" not in fp and not (b.kind == "closure" and _upvar_field(b, t, "committed_objects")):
                continue
            n4 += 1
            key = arg_term(b, t, 1)
            if contains_call(key, "digest_bytes"):
                # the hashed slice must be the slice whose (offset,len) is recorded
                val = arg_term(b, t, 2)
                res.instance("H4", "%s: index key = digest_bytes(slice of the pack bytes)" % b.path, b.loc(t.line))
                dig = [c for c in walk(key) if call_named(c, "digest_bytes")][0]
                if not _slice_agrees(dig, val):
                    res.violation("H4", "%s|indexed-range-differs-from-hashed-slice" % b.path,
                                  "%s records an (offset,length) that is not the range whose digest is used as key" % b.path, b.loc(t.line))
            elif _writer_key_ok(facts, b, t, key):
                res.instance("H4", "%s: index key = digest under which the object was staged" % b.path, b.loc(t.line))
            else:
                res.violation("H4", "%s|index-key-not-content-derived" % b.path,
                              "%s inserts into the object index under a key (%s) that is neither digest_bytes of the "
                              "indexed slice nor the staged digest" % (b.path, fmt(key, 5)), b.loc(t.line))
    # bulk form of the writer's insertion: `committed_objects.extend(index)` where the (digest, position) pairs were collected while
    # serialising the stage map - the keys are the digests under which the objects were staged
    from ..flows import flow_of as _fo4
    for b in facts.repo_bodies():
        for bi, t in b.calls():
            if t.callee is None or t.callee.name != "extend" or len(t.args) < 2:
                continue
            fp, root = field_path(arg_term(b, t, 0))
            if "committed_objects" not in fp:
                continue
            n4 += 1
            src = _fo4(b).operand_sources(t.args[1])
            from_stage = any(n_[0] == "pfield" and n_[2] == "stage" for n_ in src) or \
                any(b.blocks[cb_].term.args and "stage" in field_path(arg_term(b, b.blocks[cb_].term, 0, 16))[0] for cb_ in _fo4(b).call_blocks(src))
            res.instance("H4", "%s: index filled in bulk from pairs collected while serialising the stage map: %s" % (b.path, from_stage), b.loc(t.line))
            if not from_stage:
                res.violation("H4", "%s|index-key-not-content-derived" % b.path,
                              "%s extends the object index with entries that do not come from the staged (digest -> object) map" % b.path, b.loc(t.line))
    res.floor("H4", "object-index insert sites", n4, 2)

    # ------------------------------------------------------------------ H6: damaged items are reported, never silently truncate the scan
    res.rule("H6", "the loops that load listed packs end only by exhaustion or by returning Err (no break / early Ok)")
    from .. import iters
    from .c18 import _leads_to_ok_return
    n6 = 0
    for name in ("datastorage::DataStorage::reload", "datastorage::DataStorage::refresh"):
        b = facts.body(name)
        if b is None:
            continue
        for fl in iters.find_flows(facts):
            if fl.body is b and fl.listing and fl.consumer in ("for_each", "try_for_each", "try_fold", "fold") and \
                    not (set(fl.chain) & {"take", "take_while", "map_while", "skip", "skip_while", "step_by", "filter", "find", "filter_map"}):
                # pipeline form of the pack loop: these consumers visit every element, or stop at the first Err and hand that Err on
                n6 += 1
                res.instance("H6", "%s: the pack pipeline (%s) visits every listed pack or ends with the first error" % (name, fl.consumer), b.loc())
                continue
            if fl.body is not b or fl.consumer != "next" or not fl.listing:
                continue
            n6 += 1
            blocks = iters.loop_body_blocks(b, fl.cons_block)
            bad = [e for e in iters.early_exits(b, fl.cons_block, blocks) if _leads_to_ok_return(b, e[1])]
            res.instance("H6", "%s: the pack loop has no exit that ends in Ok before every listed pack was examined: %s" % (name, not bad), b.loc())
            if bad:
                res.violation("H6", "%s|pack-loop-truncated" % name,
                              "%s can leave its pack loop early and still return Ok: packs listed after a damaged one are never indexed, "
                              "so intact, causally complete commits silently disappear instead of an error being reported" % name, b.loc())
    res.floor("H6", "pack loading loops over storage listings", n6, 2)
    # H6b: every listing is examined: the loops over a storage listing (packs in DataStorage, blocks in Melda) are entered
    # whenever the listing is non-empty - no guard that compares the listing with what the replica already holds
    n6b = 0
    for name in ("datastorage::DataStorage::reload", "datastorage::DataStorage::refresh", "melda::Melda::reload",
                 "melda::Melda::refresh", "melda::Melda::reload_until"):
        b = facts.body(name)
        if b is None:
            continue
        for fl in iters.find_flows(facts):
            if fl.body is not b or fl.consumer not in ("next", "for_each", "try_for_each", "try_fold", "fold", "extend") or not fl.listing:
                continue        # a `for` loop or a pipeline ending in for_each over the listing
            n6b += 1
            from ..conds import unaccepted

            def entry_ok(l):
                if l.kind == "variant":
                    return True            # `?` / match on a Result, a preceding loop's exit
                return l.kind == "call" and callee_name(l.term) in ("is_empty", "has_staging", "is_ok", "is_err", "is_some", "is_none")
            bad = [repr(l) for l in unaccepted(lits_of(b, fl.cons_block, facts), entry_ok)]
            res.instance("H6", "%s: the loop over the listing is entered whenever the listing is non-empty (other guards: %s)" % (name, bad or "none"), b.loc())
            if bad:
                res.violation("H6", "%s|listing-loop-guarded:%s" % (name, "cmp" if "cmp" in bad[0] else "other"),
                              "%s examines the storage listing only under the condition %s: listed items can be skipped although they were never examined "
                              "(e.g. the count of listed packs equals the count of applied packs after one was deleted and another arrived)" % (name, bad[0]), b.loc())
    res.floor("H6", "loops over storage listings", n6b, 5)

    # ------------------------------------------------------------------ H5
    parsers = {}
    for b in facts.repo_bodies():
        for s in cg.sites[b.path]:
            c = s.callee
            if c is None or not s.targets or s.fanout:
                continue
            for i in range(len(s.term.args)):
                at = arg_term(b, s.term, i)
                if contains_call(at, R.name("lister"), "list_objects"):
                    for tg in s.targets:
                        if tg.in_repo() and tg.path.startswith("melda::") and tg.kind != "closure":
                            parsers.setdefault(tg.path, []).append(s)
    n5 = 0
    for pp, sites in sorted(parsers.items()):
        pb = facts.body(pp)
        if pb is None or "self" in (pb.local_name(1) or ""):
            continue   # methods on &self receive the name as data, not as the parsed subject
        n5 += len(sites)
        members = [m for m in cg.reach(pb).values() if m.in_repo()]
        for m in members:
            du = du_of(m)
            convs = 0
            for bi, t in m.calls():
                if t.callee is None:
                    continue
                if t.callee.name in CONVERSIONS:
                    convs += 1
                if t.callee.name in ("unwrap", "expect") and t.args:
                    rt = peel_conv(du.operand_term(t.args[0], 20))
                    if rt is not None:
                        res.violation("H5", "%s|unwrap-on-name-derived-parse" % m.path,
                                      "%s (reached from a storage listing via %s) unwraps the result of %s: a junk item "
                                      "name aborts the open instead of being skipped" % (m.path, pp, rt), m.loc(t.line))
            res.instance("H5", "%s (called with listed names from %d site(s)): %d fallible conversion(s), none unwrapped" % (
                m.path, len(sites), convs), m.loc())
    res.floor("H5", "call sites that parse listed item names", n5, 1)
    check_content_unwraps(facts, res, cg)


JSON_CONV = {"as_str": "is_string", "as_array": "is_array", "as_object": "is_object", "as_u64": "is_u64", "as_i64": "is_i64",
             "as_f64": "is_f64", "as_bool": "is_boolean", "as_null": "is_null", "as_number": "is_number"}
# frozen, one symbol wide: key -> reason
H7_EXCEPTIONS = {
    "datastorage::DataStorage::read_object|as_object":
        "the value comes from read_raw_value: either a staged value (always built from a Map) or a pack slice recorded by the "
        "re-indexer, which only records slices that start at a top-level `{` and end at its matching `}` (C03/K1b); serde_json "
        "parses such a slice as an object or fails, and the failure is propagated with `?` before this line",
}


def check_content_unwraps(facts, res, cg):
    """H7: in everything reachable from reload / refresh / reload_until, an unwrap/expect of a JSON shape conversion
    (as_str, as_array, ...) or of a map lookup is justified by a dominating shape test on the same value, or the value is
    built locally; otherwise a hash-consistent but malformed stored item aborts the open instead of being skipped"""
    res.rule("H7", "no unwrap/expect on the shape of stored JSON content without a dominating shape test")
    roots = [facts.body(n) for n in ("melda::Melda::reload", "melda::Melda::refresh", "melda::Melda::reload_until")]
    members = {}
    for r in roots:
        if r is not None:
            members.update({k: v for k, v in cg.reach(r).items() if v.in_repo()})
    n = 0
    for mp, m in sorted(members.items()):
        if is_adapter_impl_or_module(m):
            continue
        du = du_of(m)
        for bi, t in m.calls():
            if t.callee is None or t.callee.name not in ("unwrap", "expect") or not t.args:
                continue
            x = du.operand_term(t.args[0], 16)
            hops = 0
            while hops < 30:
                hops += 1
                if x[0] in ("ref", "deref", "cast"):
                    x = x[1]
                elif x[0] == "var":
                    x = x[3]
                elif x[0] == "call" and callee_name(x) in ("ok_or_else", "ok_or", "as_ref", "map_err", "cloned", "copied") and x[2]:
                    x = x[2][0]
                else:
                    break
            if x[0] != "call" or x[4] is None:
                continue
            cn = callee_name(x)
            owner = (x[4].path or "") + (x[4].self_ty or "")
            if cn in CONVERSIONS and not (x[2] and all(y[0] == "const" for y in walk(x[2][0]) if y[0] in ("const", "var", "param", "upvar", "call"))):
                # a fallible text / number conversion of a non-constant value: nothing dominates it that bounds the value
                n += 1
                owner_fn = facts.body(m.parent).path if m.kind == "closure" and m.parent and facts.body(m.parent) is not None else m.path
                res.instance("H7", "%s: %s(..).%s() on a non-constant value" % (m.path, cn, t.callee.name), m.loc(t.line))
                res.violation("H7", "%s|unchecked-content-unwrap:%s" % (owner_fn, cn),
                              "%s (reachable from reload / refresh) calls %s() on the result of %s of a value taken from stored content or an item name: "
                              "a well-hashed item carrying e.g. an out-of-range number aborts the calling thread instead of being skipped or reported" % (
                                  m.path, t.callee.name, cn), m.loc(t.line))
                continue
            if "serde_json" not in owner:
                continue
            if cn not in JSON_CONV and cn != "get":
                continue
            n += 1
            subj = x[2][0] if x[2] else ("cut",)
            sroots = {(y[0], y[1]) for y in walk(subj) if y[0] in ("var", "param", "upvar")}
            local = _built_locally(subj)
            ok = local
            why = "value built in this function" if local else ""
            if not ok:
                for l in lits_of(m, bi, facts):
                    if l.kind != "call" or not l.term[2]:
                        continue
                    ln = callee_name(l.term)
                    lroots = {(y[0], y[1]) for y in walk(l.term[2][0]) if y[0] in ("var", "param", "upvar")}
                    if cn in JSON_CONV and ln == JSON_CONV[cn] and l.truth is True and (lroots & sroots):
                        ok, why = True, "dominated by %s() on the same value" % ln
                    if cn == "get" and ln == "contains_key" and l.truth is True and (lroots & sroots) and len(l.term[2]) > 1 and len(x[2]) > 1 and \
                            _consts(l.term[2][1]) == _consts(x[2][1]) and _consts(x[2][1]):
                        ok, why = True, "dominated by contains_key on the same key"
            owner_fn = facts.body(m.parent).path if m.kind == "closure" and m.parent and facts.body(m.parent) is not None else m.path
            key = "%s|%s" % (owner_fn, cn)
            if not ok and key in H7_EXCEPTIONS:
                res.exception(res.prop + "|H7|" + key, H7_EXCEPTIONS[key])
                ok, why = True, "frozen exception"
            res.instance("H7", "%s: %s(..).%s() is justified: %s" % (m.path, cn, t.callee.name, why or "NO"), m.loc(t.line))
            if not ok:
                res.violation("H7", "%s|unchecked-content-unwrap:%s" % (owner_fn, cn),
                              "%s (reachable from reload / refresh) calls %s() on the result of %s without a dominating shape test: a stored item whose "
                              "bytes hash to its name but whose JSON has another shape aborts the calling thread instead of being skipped or reported" % (
                                  m.path, t.callee.name, cn), m.loc(t.line))
    # the anchor is the set of shape conversions on those paths, unwrapped or not: code that has no unwrap left on them is the goal, not a
    # lost anchor
    n_conv = sum(1 for mp, m in members.items() if not is_adapter_impl_or_module(m) for _, t in m.calls()
                 if t.callee is not None and (t.callee.name in JSON_CONV or t.callee.name == "get") and
                 "serde_json" in ((t.callee.path or "") + (t.callee.self_ty or "")))
    res.instance("H7", "%d unwrap / expect sites on JSON shape conversions inspected (%d shape conversions on the reload / refresh paths)" % (n, n_conv), None)
    res.floor("H7", "JSON shape conversions on the reload / refresh paths", n_conv, 6)
    # H8: identifier indices (u32 counters of Revision / DeltaId, parsed from stored content) are not incremented with an
    # overflow-checked `+` (a panic in builds with overflow checks, a silent wrap otherwise)
    res.rule("H8", "no overflow-panicking arithmetic on an identifier index taken from stored content")
    from ..defuse import inline_calls
    n8 = 0
    for mp, m in sorted(members.items()):
        if is_adapter_impl_or_module(m):
            continue
        du = du_of(m)
        for blk in m.blocks:
            if blk.cleanup or blk.term.kind != "assert" or "Overflow" not in str(blk.term.j.get("msg", "")):
                continue
            for st in blk.stmts:
                if st.kind == "assign" and st.rv.kind == "binop" and "WithOverflow" in st.rv.j["op"]:
                    n8 += 1
                    for o in st.rv.operands():
                        ot = inline_calls(du.operand_term(o, 12), facts)
                        idx = [y for y in walk(ot) if (y[0] == "call" and callee_name(y) == "index" and y[4] is not None and
                                                       (y[4].impl_self or "") in ("revision::Revision", "melda::DeltaId")) or
                               (y[0] == "field" and y[2] == "index" and len(y) > 3 and y[3] in ("revision::Revision",))]
                        bounded = any(l.kind == "cmp" and any(
                            (y[0] == "call" and callee_name(y) == "index") or (y[0] == "field" and y[2] == "index") for y in walk(l.term))
                            for l in lits_of(m, blk.idx, facts))
                        if idx and bounded:
                            res.instance("H8", "%s: index arithmetic at line %s is dominated by an explicit bound test" % (m.path, st.line), m.loc(st.line))
                        if idx and not bounded:
                            owner_fn = facts.body(m.parent).path if m.kind == "closure" and m.parent and facts.body(m.parent) is not None else m.path
                            res.violation("H8", "%s|index-arithmetic-can-overflow" % owner_fn,
                                          "%s (reachable from reload / refresh) computes `%s` on an identifier index with an overflow check that panics: a stored item "
                                          "naming the index 4294967295 aborts the calling thread (debug) or wraps (release) instead of being rejected" % (
                                              m.path, st.rv.j["op"].replace("WithOverflow", "")), m.loc(st.line))
    res.instance("H8", "%d overflow-checked arithmetic sites on the reload / refresh paths inspected" % n8, None)
    res.floor("H8", "overflow-checked arithmetic sites inspected", n8, 1)

    # ------------------------------------------------------------------ H9 a failed object load is never absorbed by the reader
    # The verdict of the digest checks reaches the caller: in `read` (closures and private helpers included) the Result of every call
    # that loads a stored object (a crate function that reaches DataStorage::read_object) is propagated with `?`, returned, or
    # unwrapped (a panic is a report). `if let Ok(obj) = load(..) { insert }` with nothing on the Err side turns "the pack was damaged"
    # into "the object is not part of the document": read() answers Ok with a document nobody committed.
    from .c09 import _result_handled
    from ..common import members_of as _mo9
    res.rule("H9", "the document reader never absorbs a failed object load (Err propagated, returned or unwrapped)")
    rd = facts.body("melda::Melda::read")
    n9 = 0
    from ..common import ADAPTER_TRAIT as _AT
    loaders = {ob.path for ob in facts.repo_bodies() if ob.impl_adt == "datastorage::DataStorage" and
               any(t.callee is not None and t.callee.trait == _AT and t.callee.name == "read_object" for _, t in ob.calls())}
    objr = None
    if rd is not None and loaders:
        for m in _mo9(facts, rd):
            mcfg = cfg_of(m)
            for s_ in cg.sites[m.path]:
                if s_.fanout or s_.term.dest is None or not s_.targets:
                    continue
                if not any((t_.path in loaders or any(cg.reaches(t_, lp_) for lp_ in loaders)) and "Result<" in (t_.local_ty(0) or "") for t_ in s_.targets):
                    continue
                n9 += 1
                how = _result_handled(m, s_.block, s_.term.dest)
                ok = how in ("propagated with ?", "returned") or (how or "").startswith("consumed by unwrap") or (how or "").startswith("consumed by expect")
                if how == "matched":
                    # a match is fine when its Err side does something of its own (returns an error, panics, records it)
                    dl = s_.term.dest.local
                    ok = False
                    for blk in m.blocks:
                        if blk.cleanup or blk.term.kind != "switch":
                            continue
                        if not any(st.kind == "assign" and st.rv.kind == "discr" and st.rv.place().local == dl and st.place.local == blk.term.discr.local()
                                   for st in blk.stmts):
                            continue
                        edges = dict(blk.term.switch_edges())
                        tg = blk.term.j.get("targets", [])
                        err_t = [t2 for v2, t2 in tg if v2 == 1] or [blk.term.j.get("otherwise")]
                        ok_t = [t2 for v2, t2 in tg if v2 == 0]
                        if not err_t or err_t[0] is None or not ok_t:
                            continue
                        only_err = mcfg.reachable_blocks(err_t[0]) | {err_t[0]}
                        only_err -= (mcfg.reachable_blocks(ok_t[0]) | {ok_t[0]})
                        acts = [x for x in only_err if m.blocks[x].term.kind == "call" and m.blocks[x].term.callee is not None and
                                m.blocks[x].term.callee.name not in ("drop", "drop_in_place")]
                        ok = bool(acts)
                res.instance("H9", "%s: result of %s is %s: %s" % (m.path, s_.name(), how or "DROPPED", ok), s_.loc())
                if not ok:
                    res.violation("H9", "%s|failed-load-absorbed:%s" % (root_fn(m).path, s_.name().split("::")[-1]),
                                  "%s absorbs a failed load of a stored object (%s is %s): an object whose pack is damaged or missing is left out of the "
                                  "document and read() still answers Ok" % (m.path, s_.name(), how or "dropped"), s_.loc())
    res.floor("H9", "object loads on the read path", n9, 1)


def _consts(t):
    return sorted(str(y[2]) for y in walk(t) if y[0] == "const")


def _built_locally(t):
    hops = 0
    while hops < 30:
        hops += 1
        if t[0] in ("ref", "deref", "cast"):
            t = t[1]
        elif t[0] == "var":
            t = t[3]
        else:
            break
    if t[0] == "agg":
        return True
    if t[0] == "call" and callee_name(t) in ("from", "new", "to_value", "into", "default"):
        return True
    if t[0] == "phi" and t[1]:
        # one of several locally built values (`let v = if a { json!({}) } else { json!({"x": true}) }`)
        return all(_built_locally(x) for x in t[1])
    return False


def is_adapter_impl_or_module(b):
    return is_adapter_impl(b) or b.file.endswith("adapter.rs")


def peel_conv(t):
    """if t (receiver of unwrap/expect) is the direct result of a fallible conversion, return its name"""
    seen = 0
    while seen < 40:
        seen += 1
        k = t[0]
        if k in ("ref", "deref", "cast", "promoted"):
            t = t[1]
        elif k == "var":
            t = t[3]
        elif k == "call":
            n = callee_name(t)
            if n in CONVERSIONS:
                return t[1]
            if n in ("map_err", "ok", "as_ref", "branch"):
                t = t[2][0]
            else:
                return None
        else:
            return None
    return None


def _foreign_copy(body, block, facts):
    de = facts.const_str("constants::DELTA_EXTENSION")
    pe = facts.const_str("constants::PACK_EXTENSION")
    got = set()
    for l in lits_of(body, block, facts):
        if l.kind == "call" and callee_name(l.term) == "ends_with" and l.truth is False:
            for x in walk(l.term[2][1]):
                if x[0] == "const" and x[1] == "str":
                    got.add(x[2])
    return de in got and pe in got and de is not None and pe is not None


def _upvar_field(body, term, field):
    t = arg_term(body, term, 0)
    for x in walk(t):
        if x[0] == "upvar" and field in x[2]:
            return True
        if x[0] == "field" and x[2] == field:
            return True
    return False


def _slice_agrees(dig, val):
    """digest_bytes(&data[a..b]) and the recorded tuple (name, a, b - a): both mention the same start variable"""
    dv = {(x[0], x[1]) for x in walk(dig) if x[0] in ("var", "param")}
    vv = {(x[0], x[1]) for x in walk(val) if x[0] in ("var", "param")}
    return bool(dv & vv)


def _writer_key_ok(facts, body, term, key):
    """pack writer: the key comes (through the local index map) from the keys of the stage"""
    if body.kind != "closure":
        # plain loop over the local index map: the key must flow from the keys of self.stage
        from ..flows import flow_of
        has_write = any(t.callee is not None and t.callee.trait == ADAPTER_TRAIT and t.callee.name == "write_object" for _, t in body.calls())
        src = flow_of(body).operand_sources(term.args[1])
        return has_write and any(n[0] == "pfield" and n[2] == "stage" for n in src) and not contains_call(key, "digest_bytes")
    parent = facts.body(body.parent)
    if parent is None:
        return False
    # the parent must be the function that performs the raw pack write, and must fill a local map with stage keys
    has_write = any(t.callee is not None and t.callee.trait == ADAPTER_TRAIT and t.callee.name == "write_object"
                    for _, t in parent.calls())
    if not has_write:
        return False
    # key derives from the closure's parameter (an entry of the iterated index map)
    pk = peel(key)
    if not any(x[0] == "param" for x in walk(key)):
        return False
    # the index map is filled from iteration over self.stage with the stage key
    du = du_of(parent)
    for bi, t in parent.calls():
        if t.callee is not None and t.callee.name == "insert" and len(t.args) >= 3:
            recv = du.operand_term(t.args[0], 20)
            k = du.operand_term(t.args[1], 24)
            if any(x[0] == "var" and x[2] == "index_map" for x in walk(recv)) or True:
                if any(x[0] == "field" and x[2] == "stage" for x in walk(k)):
                    return True
    return False


def thorough(res):
    from .. import engine
    engine.sensitivity("C10", res)
