"""C18 - Results do not depend on threads, hash order, listing order or cache sizes."""
from ..cfg import cfg_of
from ..defuse import du_of, walk, peel, callee_name, fmt
from ..conds import lits_of
from ..callgraph import cg_of
from ..common import arg_term, contains_call, field_path, is_adapter_impl, in_adapter_module
from .. import iters
from ..roles import roles_of

TEXT = ("Order-taint analysis over the whole crate. D1: every iteration whose order is not content-defined (HashMap / "
        "HashSet iteration, rayon parallel iteration, read_dir, the Vec<String> returned by a storage listing) is traced "
        "through its adapter chain to its consumer; the consumer must be a sanitizer (collect into a keyed container, "
        "keyed insert, boolean any/all, max/min under a total order, per-element effect) or the flow must be one of the "
        "frozen, individually justified flows whose order only affects serialised bytes that every reader treats as a "
        "set. A new flow into a positional sink (push / append / first-match / last-wins assignment / mutation of outer "
        "state through an unknown callee) is a violation naming source and sink. D2: bodies reachable from rayon "
        "closures perform no positional accumulation into shared state and never ask for the thread index / pool size. "
        "D3: the data cache is content-addressed: at every DataStorage::write_object(rev, obj) the revision's digest "
        "derives from digest_object of that same obj, cache keys are digests (array cache: C16/E3), and no call that "
        "writes replica state or storage is guarded by a query of an LRU cache (a hit is not evidence that the value is "
        "staged or stored). Does not decide "
        "equality of outcomes across runs as such - only the absence of order / capacity dependence."
        " D3c': a function that empties the object index empties the object cache with it.")
TECHNIQUE = 'static analysis over rustc MIR: order-taint from unordered iterations to positional sinks, commutativity of effects in rayon regions, cache transparency (content-addressed keys, no cache query guarding a state change)'
TRUSTED = ["rustc nightly MIR", "BTreeMap/BTreeSet iterate in key order", "C05/W3: Revision's order is total", "C10/H1: every copy of an object is hash-verified"]

# frozen order-sensitive flows: key -> reason (one line each, confirmed by reading)
FROZEN = {
    "melda::Melda::commit|hash|positional":
        "staged revisions of one tree (HashMap) -> change-record array of the block: block bytes only; the applier / replay_stage insert by revision (C01/L1, C15/G4b)",
    "melda::Melda::stage|hash|positional":
        "stage export: same as commit; replay_stage adds each record by key, unconditionally",
    "<pack_writer>|hash|positional":
        "staged objects (HashMap) -> pack bytes: readers index every object by its own digest (C10/H4), never by position",
    "melda::Melda::meld|hash|positional":
        "HashSet of foreign item names -> the list of copied names returned by meld: informational, not replica state",
    "datastorage::DataStorage::refresh|vec|positional":
        "listing order -> list of newly applied pack names returned by DataStorage::refresh: informational, Melda::refresh ignores it",
}

KEYED_FNS = {
    "datastorage::DataStorage::write_raw_item", "datastorage::DataStorage::write_object", "datastorage::DataStorage::write_raw_value",
    "revisiontree::RevisionTree::add", "revisiontree::RevisionTree::unvalidated_add", "revisiontree::RevisionTree::commit",
    "revisiontree::RevisionTree::unstage", "revisiontree::RevisionTree::validate", "revisiontree::RevisionTreeEntry::commit",
}
POSITIONAL = {"push", "push_back", "push_front", "extend", "extend_from_slice", "append", "push_str", "write", "write_all",
              "insert_str", "splice", "truncate", "pop", "swap", "reverse", "rotate_left", "rotate_right"}
THREAD_ID = ("rayon::current_thread_index", "rayon_core::current_thread_index", "rayon::current_num_threads",
             "rayon_core::current_num_threads", "std::thread::current", "std::thread::available_parallelism")


def mutation_class(facts, t, depth=0):
    """'keyed' | 'access' | 'positional' for a call that receives &mut of outer state"""
    c = t.callee
    n = c.name
    s = " ".join([c.path, c.self_ty or "", c.impl_self or ""])
    if n in ("insert", "entry", "or_insert_with", "or_insert", "remove", "put", "get_or_insert_with", "retain", "clear", "extend") and \
            any(k in s for k in iters.KEYED_TYPES + ("lru::LruCache",)):
        return "keyed"
    if n in ("lock", "deref_mut", "deref", "as_mut", "get_mut", "borrow_mut", "next", "iter_mut", "by_ref", "as_mut_slice",
             "values_mut", "index_mut", "write", "read") and not ("Vec<" in s and n == "write"):
        if n == "write" and "RwLock" not in s:
            return "positional"
        return "access"
    if n == "insert" and ("Vec<" in s or "VecDeque" in s or "String" in s):
        return "positional"
    tp = c.target()
    if tp in KEYED_FNS:
        return "keyed"
    tb = facts.body(tp)
    if tb is not None and depth < 4:
        # classify by what the callee does to its own &mut parameters
        cls = "access"
        for bi, tt in tb.calls():
            if tt.callee is None:
                continue
            for a in tt.args:
                if a.place is not None and not a.place.proj and tb.local_ty(a.place.local).startswith("&mut "):
                    at = du_of(tb).operand_term(a, 10)
                    if any(x[0] == "param" for x in walk(at)):
                        k = mutation_class(facts, tt, depth + 1)
                        if k == "positional":
                            return "positional"
                        if k == "keyed":
                            cls = "keyed"
        # direct field assignments through &mut self
        for blk in tb.blocks:
            if blk.cleanup:
                continue
            for st in blk.stmts:
                if st.kind == "assign" and st.place.proj and st.place.proj[0]["k"] == "deref" and 1 <= st.place.local <= tb.argc:
                    cls = "keyed" if cls != "positional" else cls
        return cls
    if n in POSITIONAL:
        return "positional"
    return "positional"


def analyse_region(facts, body, blocks, is_closure):
    """order-sensitive effects of the code in `blocks` of body on state outside it: list of descriptions"""
    du = du_of(body)
    cfg = cfg_of(body)
    sinks = []
    for (bi, t, root, name, at) in iters.outer_mutations(facts, body, blocks, cfg):
        k = mutation_class(facts, t)
        if k == "positional":
            v = [x[2] for x in walk(at) if x[0] in ("var", "upvar", "param")]
            sinks.append("%s(%s)" % (name, v[0] if v else "?"))
    if not is_closure:
        inside = set(blocks)
        for bi in sorted(blocks):
            for i, st in enumerate(body.blocks[bi].stmts):
                if st.kind != "assign" or st.place.proj:
                    continue
                l = st.place.local
                nm = body.local_name(l)
                if not nm:
                    continue
                ds = du.defs.get(l, [])
                if any(d.block not in inside for d in ds):
                    # commutative fold? (max under a total order)
                    fold = any(lit.kind == "call" and callee_name(lit.term) in ("gt", "lt", "ge", "le", "is_none_or", "max", "min")
                               for lit in lits_of(body, bi, facts))
                    # idempotent / commutative accumulations: x = const, x += const, x |= .., counters
                    rt = du.rvalue_term(st.rv, 4)
                    while rt[0] in ("var", "field") and rt[0] == "field":
                        rt = rt[1]
                    if rt[0] == "const":
                        fold = True
                    if rt[0] == "binop" and rt[1].split("With")[0] in ("Add", "Sub", "BitOr", "BitAnd", "BitXor", "Mul") and \
                            any(x[0] == "const" for x in (rt[2], rt[3])):
                        fold = True
                    if st.rv.kind == "use" and st.rv.operands()[0].place is not None and st.rv.operands()[0].place.proj:
                        # `x = move (tmp.0)` of a checked arithmetic op on x itself with a constant
                        src = st.rv.operands()[0].place.local
                        for d in du.defs.get(src, []):
                            if d.kind == "assign" and d.rv.kind == "binop" and d.rv.j["op"].split("With")[0] in ("Add", "Sub", "Mul") and \
                                    any(o.is_const() for o in d.rv.operands()):
                                fold = True
                    if not fold:
                        sinks.append("assign(%s)" % nm)
    return sorted(set(sinks))


def run(facts, res):
    cg = cg_of(facts)
    res.rule("D1", "no unjustified flow from an unordered iteration to an order-sensitive sink")
    res.rule("D2", "parallel tasks perform only commutative / keyed effects on shared state; no thread-identity queries")
    res.rule("D3", "the data cache is content-addressed and transparent")

    flows = iters.find_flows(facts)
    n_src = 0
    used = set()
    for fl in flows:
        kind = fl.src_kind
        unordered = kind in ("hash", "dir") or kind.startswith("rayon") or (kind == "vec" and fl.listing)
        if not unordered:
            continue
        n_src += 1
        body = fl.body
        line = body.blocks[fl.src_block].term.line
        owner_fn = facts.body(body.parent) if body.kind == "closure" and body.parent else body
        if owner_fn is not None and (is_adapter_impl(owner_fn) or in_adapter_module(owner_fn)):
            # backends *produce* listings (no order by contract); their consumers are checked instead
            res.instance("D1", "%s: %s iteration inside a storage backend: listing order is unspecified by the Adapter contract (consumers are checked)" % (body.path, kind),
                         body.loc(line), nontrivial=False)
            continue
        cons = fl.consumer
        verdict = None
        why = ""
        sinks = []
        cterm = body.blocks[fl.cons_block].term
        if cons in iters.COMMUTATIVE:
            verdict, why = "sanitized", "commutative fold `%s`" % cons
        elif cons in ("collect", "from_iter", "collect_into_vec"):
            tgt = " ".join(cterm.callee.args)
            dty = body.local_ty(cterm.dest.local) if cterm.dest is not None else ""
            if any(k in dty for k in iters.KEYED_TYPES):
                verdict, why = "sanitized", "collected into keyed container %s" % dty.split("<")[0]
            elif _positional_uses_order_free(facts, cg, body, fl.cons_block):
                verdict, why = "sanitized", "collected into %s whose every use is order-free (keyed extend, maximum under a total order, len / contains / sort)" % dty.split("<")[0]
            else:
                verdict, why = "sink", "collected into positional container %s" % dty.split("<")[0]
                sinks = ["collect(%s)" % dty.split("<")[0].rsplit("::", 1)[-1]]
        elif cons == "next":
            blocks = iters.loop_body_blocks(body, fl.cons_block)
            sinks = analyse_region(facts, body, blocks, False)
            exits = iters.early_exits(body, fl.cons_block, blocks)
            ret_exits = [e for e in exits if _leads_to_ok_return(body, e[1])]
            if ret_exits:
                sinks.append("early-exit")
            verdict = "sink" if sinks else "sanitized"
            why = "for-loop body: " + (", ".join(sinks) if sinks else "only keyed / per-element / commutative effects")
        elif cons in ("for_each", "try_for_each"):
            cls = [cb for cb in [facts.body(p) for p in cterm.callee.fnargs] if cb is not None]
            for cb in cls:
                blocks = {b.idx for b in cb.blocks if not b.cleanup}
                sinks += analyse_region(facts, cb, blocks, True)
            verdict = "sink" if sinks else "sanitized"
            why = "closure body: " + (", ".join(sinks) if sinks else "only keyed / per-element effects")
        elif cons in iters.FIRST_MATCH:
            verdict, why, sinks = "sink", "first-match consumer `%s`" % cons, [cons]
        elif cons == "extend" and cterm.args and any(k in (body.local_ty(cterm.args[0].place.local) if cterm.args[0].place is not None else "")
                                                      or k in " ".join(cterm.callee.args) or k in (cterm.callee.self_ty or "") or k in cterm.callee.path
                                                      for k in iters.KEYED_TYPES):
            verdict, why = "sanitized", "extends a keyed container"
        else:
            verdict, why, sinks = "sink", "order-dependent consumer `%s`" % cons, [cons]
        where = body.loc(line)
        owner = body.path
        if cons in ("for_each", "try_for_each") and sinks:
            cbs = [cb for cb in [facts.body(p) for p in cterm.callee.fnargs] if cb is not None]
            if cbs:
                owner = cbs[0].path
        root = facts.body(owner)
        if root is not None and root.kind == "closure" and root.parent:
            owner = root.parent
        for _ in range(3):
            ob = facts.body(owner)
            if ob is None or ob.public or ob.impl_trait is not None:
                break
            callers = sorted({(facts.body(s_.body.parent) if s_.body.kind == "closure" and s_.body.parent else s_.body).path
                              for s_ in cg.callers_of(owner)} - {owner})
            if len(callers) != 1:
                break
            owner = callers[0]
        if owner == roles_of(facts).path("pack_writer"):
            owner = "<pack_writer>"
        # sink classes, not the individual calls: how a loop body appends (push / extend / running offset) is not part of the key
        kinds = sorted({("early-exit" if x == "early-exit" else "first-match" if x.split("(")[0] in iters.FIRST_MATCH else "positional") for x in sinks})
        key = "%s|%s|%s" % (owner, kind, ",".join(kinds))
        res.instance("D1", "%s: %s iteration (%s%s) -> %s: %s" % (body.path, kind, fl.src[4].name, "".join("." + c for c in reversed(fl.chain)), cons, why), where,
                     nontrivial=True)
        if verdict == "sink":
            if key in FROZEN:
                used.add(key)
                res.exception("C18|D1|" + key, FROZEN[key])
            else:
                res.violation("D1", key, "%s: elements of an unordered %s iteration (%s at %s) reach an order-sensitive sink: %s" % (
                    body.path, kind, fl.src[4].name, where, why), where)
    res.floor("D1", "unordered iteration sites", n_src, 10)
    for k in FROZEN:
        if k not in used and not (k.startswith("<filesystemadapter") and "filesystemadapter" not in facts.features):
            res.note("frozen flow no longer present: " + k)

    # ------------------------------------------------------------------ D2
    regions = []
    for b in facts.repo_bodies():
        for s in cg.sites[b.path]:
            if s.callee is not None and s.callee.krate.startswith("rayon") and s.closures:
                regions.append((b, s))
    members = {}
    for b, s in regions:
        for cb in s.closures:
            for p, m in cg.reach(cb).items():
                if m.in_repo():
                    members[p] = m
    res.floor("D2", "bodies reachable from rayon closures", len(members), 30)
    n2 = 0
    for p, m in sorted(members.items()):
        du = du_of(m)
        for bi, t in m.calls():
            c = t.callee
            if c is None:
                continue
            if any(c.path.startswith(x) for x in THREAD_ID):
                res.violation("D2", "%s|thread-identity:%s" % (p, c.name), "%s (reachable from a rayon task) calls %s" % (p, c.path), m.loc(t.line))
            if c.name in ("write", "write_all") and c.trait != "std::io::Write":
                continue
            if c.name in POSITIONAL and t.args:
                at = du.operand_term(t.args[0], 14)
                shared = _shared_root(at, m)
                n2 += 1
                if shared:
                    res.violation("D2", "%s|positional-on-shared:%s" % (p, c.name),
                                  "%s (reachable from a rayon task) performs positional accumulation `%s` on shared state (%s): the result depends on task order" % (
                                      p, c.name, shared), m.loc(t.line))
    res.instance("D2", "%d parallel regions, %d reachable bodies, %d positional mutations inspected (all on task-local values)" % (len(regions), len(members), n2), None)

    # ------------------------------------------------------------------ D3
    n3 = 0
    for b in facts.repo_bodies():
        for bi, t in b.calls():
            if t.callee is None or t.callee.target() != "datastorage::DataStorage::write_object":
                continue
            n3 += 1
            rev = arg_term(b, t, 1, 30)
            obj = arg_term(b, t, 2, 12)

            def digest_of_obj(rev_t, obj_t):
                ov = {(x[0], x[1]) for x in walk(obj_t) if x[0] in ("var", "param")}
                for x in walk(rev_t):
                    if x[0] == "call" and callee_name(x) == "digest_object":
                        dv = {(y[0], y[1]) for y in walk(x[2][0]) if y[0] in ("var", "param")}
                        if dv & ov:
                            return True
                return False
            ok = digest_of_obj(rev, obj)
            if not ok and b.kind != "closure" and any(x[0] == "param" for x in walk(rev)):
                # extracted helper: digest and object arrive as parameters - check the relation at every caller
                from ..defuse import subst
                callers = [s_ for s_ in cg.callers_of(b.path) if s_.body.path != b.path]
                ok = bool(callers)
                for s_ in callers:
                    mp = {i_ + 1: arg_term(s_.body, s_.term, i_, 24) for i_ in range(len(s_.term.args))}
                    if not digest_of_obj(subst(rev, mp), subst(obj, mp)):
                        ok = False
            res.instance("D3", "%s: write_object(rev, obj): rev.digest = digest_object(obj): %s" % (b.path, ok), b.loc(t.line))
            if not ok:
                res.violation("D3", "%s|cache-key-not-digest-of-object" % b.path,
                              "%s stores an object under a revision whose digest is not digest_object of that object: a cache hit would differ from a storage read" % b.path, b.loc(t.line))
    res.floor("D3", "DataStorage::write_object call sites", n3, 1)
    wo = facts.body("datastorage::DataStorage::write_object")
    ro = facts.body("datastorage::DataStorage::read_object")
    for b, nm in ((wo, "put"), (ro, "get")):
        if b is None:
            continue
        ok = False
        for bi, t in b.calls():
            if t.callee is not None and t.callee.name == nm and "lru::LruCache" in t.callee.path:
                k = arg_term(b, t, 1, 12)
                ok = contains_call(k, "revision::Revision::digest") or contains_call(k, "digest")
        res.instance("D3", "%s: cache %s keyed by the revision's digest: %s" % (b.path, nm, ok), b.loc())
        if not ok:
            res.violation("D3", "%s|cache-key" % b.path, "%s: the data cache is not keyed by the object digest" % b.path, b.loc())
    # cache capacity only sizes the LRU: the value read from the environment flows into NonZeroUsize::new / LruCache::new only
    for ctor in ("datastorage::DataStorage::new", "melda::Melda::new"):
        b = facts.body(ctor)
        if b is None:
            continue
        du = du_of(b)
        uses = []
        for bi, t in b.calls():
            if t.callee is None:
                continue
            for i, a in enumerate(t.args):
                at = du.operand_term(a, 20)
                if contains_call(at, "var") and any(x[0] == "const" and x[1] == "str" and "CACHE_CAP" in x[2] for x in walk(at)):
                    if t.callee.name not in ("unwrap_or_else", "parse", "unwrap", "new", "deref", "as_str", "expect", "map_or", "map_or_else", "unwrap_or",
                                             "unwrap_or_default", "ok", "and_then", "map", "as_deref", "as_ref", "from_str", "branch", "ok_or", "ok_or_else",
                                             "new_unchecked", "get", "max", "into", "from", "try_from", "try_into", "filter", "or", "or_else", "is_ok", "is_err"):
                        uses.append(t.callee.name)
        res.instance("D3", "%s: the configured cache capacity only flows into the LRU constructor (other uses: %s)" % (ctor, uses), b.loc())
        if uses:
            res.violation("D3", "%s|capacity-used-elsewhere" % ctor, "%s: the cache capacity setting influences %s" % (ctor, uses), b.loc())


    # D3b: no query of a capacity-bounded cache decides whether replica state or storage is written. A cached entry
    # proves only that the value was seen at some time, not that it is (still) staged or stored: unstage and reload
    # do not evict, and whether an entry survives depends on the configured capacity
    from ..effects import effects_of, REPLICA_STATE
    from ..common import ADAPTER_TRAIT
    eff = effects_of(facts)
    n3b = 0
    for b in facts.repo_bodies():
        for s_ in cg.sites[b.path]:
            se = eff.site_effects(s_) & REPLICA_STATE
            stores = s_.callee is not None and s_.callee.trait == ADAPTER_TRAIT and s_.callee.name == "write_object"
            if not se and not stores and not any(_reaches_adapter_write(cg, t_) for t_ in s_.targets + s_.closures):
                continue
            n3b += 1
            for l in lits_of(b, s_.block, facts):
                q = [callee_name(x) for x in walk(l.term) if x[0] == "call" and x[4] is not None and "lru::LruCache" in (x[4].path or "") and
                     callee_name(x) not in ("new", "put", "push", "unbounded", "resize")]
                if q:
                    res.violation("D3", "%s|state-change-guarded-by-cache-query" % b.path,
                                  "%s: the call %s (writes %s) runs only under a condition on the content of an LRU cache (%s): the outcome depends on the cache "
                                  "capacity and on what earlier, possibly discarded, operations left in the cache" % (
                                      b.path, s_.name(), sorted(f_ for _, f_ in se) or "storage", sorted(set(q))), s_.loc())
    res.instance("D3", "%d state-changing / storing call sites inspected: none is guarded by a query of an LRU cache" % n3b, None)
    res.floor("D3", "state-changing call sites inspected for cache guards", n3b, 10)

    # D3c: the cache holds nothing the replica does not hold: cache entries are written for objects as they are staged (D3), so an
    # object leaves "staged or committed" only when the stage is emptied without being packed - every function that removes
    # entries from DataStorage.stage either moves them into the object index (the pack writer) or empties the cache as well.
    # Otherwise a discarded object stays readable from the cache: the availability test of the block checker succeeds for a block
    # whose object is in no pack, an incremental refresh applies what a reload holds back, and the value is lost on eviction.
    from ..common import field_path as _fp, arg_term as _at
    DEL = {"clear", "remove", "retain", "drain", "take", "pop", "remove_entry", "split_off", "truncate"}
    n3c = 0
    for b in facts.repo_bodies():
        if b.impl_adt != "datastorage::DataStorage" and not (b.kind == "closure" and (b.parent or "").startswith("datastorage::DataStorage")):
            continue
        bcfg = cfg_of(b)
        drops = [(bi, t) for bi, t in b.calls() if t.callee is not None and t.callee.name in DEL and t.args and
                 _fp(_at(b, t, 0, 12))[0][:1] == ["stage"]]
        if not drops:
            continue
        moves = any(t.callee is not None and t.callee.name in ("insert", "extend") and t.args and
                    ("committed_objects" in _fp(_at(mb_, t, 0, 12))[0] or
                     any(x[0] == "upvar" and "committed_objects" in str(x[2]) for x in walk(_at(mb_, t, 0, 12))))
                    for mb_ in [b] + facts.closures_of(b.path) for _, t in mb_.calls())
        evicts = [bi for bi, t in b.calls() if t.callee is not None and "lru::LruCache" in (t.callee.path or "") and t.callee.name in ("clear", "pop", "pop_lru", "resize")]
        for bi, t in drops:
            n3c += 1
            ok = moves or any(bcfg.dominates(e_, bi) or bcfg.postdominates(e_, bi) for e_ in evicts)
            res.instance("D3", "%s empties the object stage: entries move to the object index (%s) or the object cache is emptied with it (%s)" % (
                b.path, moves, bool(evicts)), b.loc(t.line))
            if not ok:
                res.violation("D3", "%s|stage-dropped-cache-kept" % b.path,
                              "%s removes staged objects without emptying the object cache: a discarded object stays readable from the cache, so the "
                              "block checker accepts a block whose object is in no pack (incremental refresh applies it, a reload of the same storage holds "
                              "it back) and the value disappears when the entry is evicted" % b.path, b.loc(t.line))
    res.floor("D3", "functions that empty the object stage", n3c, 2)
    # D3c': the same for the object index: a function that empties DataStorage.committed_objects (to rebuild it from the packs that are
    # listed now) forgets every object whose pack is gone - the cache must forget them too, or the availability test answers from the
    # cache for an object that is in no pack: the reloaded replica applies a block that a fresh open of the same storage holds back.
    n3e = 0
    for b in facts.repo_bodies():
        if b.impl_adt != "datastorage::DataStorage":
            continue
        bcfg = cfg_of(b)
        drops = [(bi, t) for bi, t in b.calls() if t.callee is not None and t.callee.name in DEL and t.args and
                 _fp(_at(b, t, 0, 12))[0][:1] == ["committed_objects"]]
        evicts = [bi for bi, t in b.calls() if t.callee is not None and "lru::LruCache" in (t.callee.path or "") and t.callee.name in ("clear", "pop", "pop_lru", "resize")]
        for bi, t in drops:
            n3e += 1
            ok = any(bcfg.dominates(e_, bi) or bcfg.postdominates(e_, bi) for e_ in evicts)
            res.instance("D3", "%s empties the object index: the object cache is emptied with it: %s" % (b.path, ok), b.loc(t.line))
            if not ok:
                res.violation("D3", "%s|index-dropped-cache-kept" % b.path,
                              "%s forgets the object index without emptying the object cache: an object whose pack is no longer stored stays readable "
                              "from the cache, so a reload applies a block that a fresh open of the same storage (or a smaller cache) holds back" % b.path, b.loc(t.line))
    res.floor("D3", "functions that empty the object index", n3e, 1)
    # D3d: the cache is filled only with what has just been staged (or read back verified): every `put` into the object cache
    # lies behind the success edge of the call that stages the same object - not on a path where the staging was skipped
    # (sentinel revisions are never staged; cached under their digest they would shadow the value synthesised for them)
    from ..conds import success_dominates as _sd
    n3d = 0
    for b in facts.repo_bodies():
        if b.impl_adt != "datastorage::DataStorage":
            continue
        puts = [(bi, t) for bi, t in b.calls() if t.callee is not None and t.callee.name in ("put", "push", "get_or_insert") and
                "lru::LruCache" in (t.callee.path or "") and "ArrayDescriptor" not in " ".join(t.callee.args)]
        if not puts:
            continue
        stagers = [s_ for s_ in cg.sites[b.path] if not s_.fanout and ("datastorage::DataStorage", "stage") in eff.site_effects(s_)]
        readers = [s_ for s_ in cg.sites[b.path] if s_.callee is not None and s_.callee.name in (roles_of(facts).name("obj_reader"),)]
        for bi, t in puts:
            n3d += 1
            ok = any(_sd(b, s_.block, bi, facts) for s_ in stagers + readers)
            res.instance("D3", "%s: the object cache is filled only behind a successful staging (or verified read) of the object: %s" % (b.path, ok), b.loc(t.line))
            if not ok:
                res.violation("D3", "%s|cache-filled-without-staging" % b.path,
                              "%s puts an object into the cache on a path where it was not staged: a value that is neither staged nor stored (e.g. the "
                              "object submitted for a sentinel revision) becomes readable while it stays cached, so what a replica shows depends on the "
                              "cache capacity and differs from a reopened replica" % b.path, b.loc(t.line))
    res.floor("D3", "object cache fill sites", n3d, 1)


def _positional_uses_order_free(facts, cg, body, collect_block, depth=0):
    """the Vec produced by the collect() in `collect_block` is only ever used in ways that do not depend on its order: extended
    into a keyed container, reduced to a maximum / minimum under a comparison, asked for its length / membership, sorted; when
    the function returns it (a private helper), the same holds for the call's result in every caller"""
    du = du_of(body)
    t = body.blocks[collect_block].term
    if t.dest is None or t.dest.proj:
        return False
    ORDER_FREE = {"len", "is_empty", "contains", "sort", "sort_by", "sort_unstable", "sort_by_key", "sort_unstable_by", "drop", "iter", "into_iter",
                  "deref", "as_slice", "cloned", "copied", "any", "all", "count", "max", "min", "sum", "clone", "borrow", "as_ref"}

    def derives(term):
        return any((x[0] == "call" and x[3] == collect_block and x[1] == t.callee.target()) for x in walk(term))
    used = False
    for bi, tt in body.calls():
        if bi == collect_block or tt.callee is None:
            continue
        hit = [i for i, a in enumerate(tt.args) if derives(du.operand_term(a, 20))]
        if not hit:
            continue
        used = True
        n = tt.callee.name
        sig = (tt.callee.path or "") + (tt.callee.self_ty or "") + " ".join(tt.callee.args or [])
        if n in ("extend", "append", "collect", "from_iter") and any(k in sig for k in ("BTreeSet", "BTreeMap", "HashSet", "HashMap")):
            continue
        if n in ("reduce", "max_by", "min_by", "fold", "try_fold", "max_by_key", "min_by_key"):
            # a selection by comparison: the closure compares its two arguments
            cmp_ = False
            for cb in [facts.body(p_) for p_ in tt.callee.fnargs]:
                if cb is not None and any(t2.callee is not None and t2.callee.name in ("gt", "lt", "ge", "le", "cmp", "partial_cmp", "max", "min") for _, t2 in cb.calls()):
                    cmp_ = True
            if cmp_:
                continue
            return False
        if n in ORDER_FREE:
            continue
        return False
    # returned from a private function: the callers' uses of the result
    rt = du.local_term(0, 12)
    if derives(rt):
        if body.public or depth > 1:
            return False
        callers = [s_ for s_ in cg.callers_of(body.path) if s_.body.path != body.path]
        if not callers:
            return False
        for s_ in callers:
            if not _result_uses_order_free(facts, cg, s_.body, s_.block, depth + 1):
                return False
        return True
    return used


def _result_uses_order_free(facts, cg, body, call_block, depth):
    """same as _positional_uses_order_free for the value returned by the call in `call_block`"""
    return _positional_uses_order_free(facts, cg, body, call_block, depth)


_RAW = {}


def _reaches_adapter_write(cg, body):
    from ..common import ADAPTER_TRAIT
    k = (id(cg), body.path)
    if k not in _RAW:
        hit = False
        for mb in cg.reach(body).values():
            if not mb.in_repo():
                continue
            for _, t in mb.calls():
                if t.callee is not None and t.callee.trait == ADAPTER_TRAIT and t.callee.name == "write_object":
                    hit = True
        _RAW[k] = hit
    return _RAW[k]


def _leads_to_ok_return(body, block):
    """the loop exit edge can end the function with a non-error value (break / first match) - i.e. an
    `_0 = Ok(..)` / plain value assignment is reachable from it"""
    cfg = cfg_of(body)
    reach = cfg.reachable_blocks(block) | {block}
    for b in reach:
        for st in body.blocks[b].stmts:
            if st.kind == "assign" and st.place.local == 0 and not st.place.proj:
                if st.rv.kind == "agg" and st.rv.j.get("variant") == "Err":
                    continue
                return True
    return False


def _shared_root(t, body):
    """description of the shared root of a receiver term, or None when it is task-local"""
    n = 0
    while n < 60:
        n += 1
        k = t[0]
        if k in ("ref", "deref", "cast", "promoted", "field", "downcast", "index"):
            t = t[1]
        elif k == "var":
            inner = t[3]
            pi = inner
            while pi[0] in ("ref", "deref"):
                pi = pi[1]
            if pi[0] == "call" and callee_name(pi) in ("new", "with_capacity", "into_vec", "box_assume_init_into_vec_unsafe", "to_vec", "clone", "to_owned",
                                                      "to_string", "collect", "from", "into", "unwrap", "default", "as_array", "get_order"):
                return None
            if pi[0] in ("agg", "tuple", "array", "const", "cut", "phi"):
                return None
            lty_ = body.local_ty(t[1]) or ""
            if pi[0] == "call" and "&" not in lty_ and "*" not in lty_ and \
                    lty_.split("<")[0].split("::")[-1] in ("PathBuf", "String", "Vec", "OsString", "BTreeSet", "BTreeMap", "HashMap", "HashSet", "VecDeque"):
                return None     # an owned value built by a call (`let mut p = self.path.join(prefix)`): task-local
            t = inner
        elif k == "upvar":
            parent = body.facts.body(body.direct_parent) if body.direct_parent else None
            if parent is None and body.parent:
                parent = body.facts.body(body.parent)
            if parent is not None:
                for i, l in enumerate(parent.locals):
                    if l.get("name") == t[2]:
                        if 1 <= i <= parent.argc:
                            return None if l["ty"].startswith("&mut ") else "captured shared parameter `%s`" % t[2]
                        return _shared_root(du_of(parent).local_term(i, 14), parent)
            return "captured `%s`" % t[2]
        elif k == "param":
            ty = body.local_ty(t[1])
            if ty.startswith("&mut "):
                return None   # exclusive borrow handed in by the caller (checked at the caller)
            return "parameter `%s`" % t[2]
        elif k == "call":
            nme = callee_name(t)
            c = t[4]
            if c is not None and c.path in ("std::sync::Mutex::<T>::lock", "std::sync::RwLock::<T>::write", "std::sync::RwLock::<T>::read"):
                return "lock-protected shared value"
            if nme in ("new", "with_capacity", "to_vec", "clone", "collect", "into_vec", "to_owned", "default"):
                return None
            ret_ = (c.j.get("ret") or "") if c is not None and hasattr(c, "j") else ""
            if ret_ and not any(m_ in ret_ for m_ in ("&", "*mut", "*const", "Guard", "RefMut", "Ref<", "Entry", "Iter", "Mut", "Drain", "'")) and \
                    ret_.split("<")[0].split("::")[-1] in ("PathBuf", "String", "Vec", "OsString", "BTreeSet", "BTreeMap", "HashMap", "HashSet", "VecDeque"):
                return None     # an owned value built by the call (`self.path.join(prefix)`): task-local
            if t[2]:
                t = t[2][0]
            else:
                return None
        else:
            return None
    return None


FIXTURE_EXPECT = ['positional-on-shared', 'thread-identity', 'ordered_from_hash|hash|positional', 'ordered_from_hash|hash|first-match']


def thorough(res):
    from .. import engine
    engine.sensitivity("C18", res)
