"""C14 - Time travel shows exactly the chosen past state (structural clauses)."""
from ..cfg import cfg_of
from ..defuse import du_of, walk, peel, callee_name, fmt
from ..conds import lits_of, all_edge_lits, status_variant
from ..callgraph import cg_of
from ..effects import effects_of
from ..roles import roles_of
from ..common import arg_term, contains_call, field_path, assigns_of_return, whole_iteration
from . import c02

TEXT = ("Thin claim: equality with the past state is a history property and is NOT decided. Decided structural clauses: "
        "T1 - in reload_until's work-list loop, on the edge where a block was applied successfully every element of its "
        "complete parent set is enqueued, the requested heads are all enqueued first, and the loop runs until the work "
        "list is empty (so the whole ancestry is applied). T2 - the first application is reachable only after every "
        "requested head passed `is known` and `status == Ready`; otherwise Err. T3 - documents, block map and the data "
        "index are cleared before parsing, the staged-changes guard holds (C15/G1) and an empty target set delegates to "
        "reload. T4 - get_value with a revision reads data only under `get_revisions().contains_key(rev)`, and "
        "get_parent_revision answers from the tree entry alone. T5 - the applier does not consume the `inserted` flag of "
        "the tree insertion nor any query of the tree's content to decide its result (taint closure over data and control "
        "dependence), so its outcome cannot depend on revisions already delivered or on the order of a block's records. "
        "T6 - the object index and the applied-pack set only grow between reloads (who-may-write: keyed insert anywhere, "
        "clear only in DataStorage::reload)."
        " T4b: nothing get_value returns derives from the tree's current leaf set or from the merge fold.")
TECHNIQUE = 'static analysis over rustc MIR: work-list completeness in reload_until (dominance + whole-iteration), data/control-dependence taint of tree queries in the applier, who-may-shrink on the object index'
TRUSTED = ["rustc nightly MIR", "C02 (apply only when Ready)", "C15/G1"]


def run(facts, res):
    R = roles_of(facts)
    cg = cg_of(facts)
    res.rule("T1", "reload_until applies the whole ancestry: all heads and all parents of applied blocks are enqueued; loop until empty")
    res.rule("T2", "requested heads are validated (known and Ready) before anything is applied")
    res.rule("T3", "time travel starts from a clean slate and delegates the empty target set to reload")
    res.rule("T4", "historical lookups are membership-checked")
    _applier_total(facts, res, R)
    _index_only_grows(facts, res)
    b = facts.body("melda::Melda::reload_until")
    if b is None:
        res.floor("T1", "reload_until", 0, 1)
        return
    du = du_of(b)
    cfg = cfg_of(b)
    # the work list: the collection elements are popped from; enqueue sites: push_back / push in a loop over X, extend(X-chain),
    # or the initial collect() of an X-chain (X = the requested heads / the parents of an applied block)
    pops = [bi for bi, t in b.calls() if t.callee is not None and t.callee.name in ("pop_front", "pop_back", "pop")]
    worklist_vars = set()
    for bi in pops:
        inner = arg_term(b, b.blocks[bi].term, 0, 6)
        x = inner
        while x[0] in ("ref", "deref", "cast"):
            x = x[1]
        if x[0] == "var":
            worklist_vars.add(x[1])

    def on_worklist(t_):
        x = t_
        while x[0] in ("ref", "deref", "cast"):
            x = x[1]
        return x[0] == "var" and x[1] in worklist_vars
    PART = {"take", "skip", "filter", "step_by", "take_while", "skip_while", "rev", "filter_map", "nth", "skip_last", "map_while", "find"}
    enq = []      # (block, line, element/chain term, is_loop_push)
    for bi, t in b.calls():
        if t.callee is None or not t.args:
            continue
        if t.callee.name in ("push_back", "push", "push_front") and len(t.args) >= 2 and on_worklist(arg_term(b, t, 0, 6)):
            enq.append((bi, t.line, arg_term(b, t, 1, 30), True))
        elif t.callee.name == "extend" and len(t.args) >= 2 and on_worklist(arg_term(b, t, 0, 6)):
            enq.append((bi, t.line, arg_term(b, t, 1, 30), False))
        elif t.callee.name in ("collect", "from_iter", "from") and t.dest is not None and not t.dest.proj:
            # the initial content: `let mut to_apply: VecDeque<_> = anchors.iter().cloned().collect();`
            dl = t.dest.local
            flows_to_wl = dl in worklist_vars or any(
                st_.kind == "assign" and not st_.place.proj and st_.place.local in worklist_vars and st_.rv.kind == "use" and
                st_.rv.operands()[0].local() == dl for blk_ in b.blocks for st_ in blk_.stmts)
            if flows_to_wl:
                enq.append((bi, t.line, arg_term(b, t, 0, 30), False))
    pushes = [(bi, b.blocks[bi].term) for bi, _, _, _ in enq]
    res.floor("T1", "work-list enqueue sites", len(enq), 2)
    seen_parent = seen_heads = False
    for bi, line, v, is_push in enq:
        names = [callee_name(x) for x in walk(v, False) if x[0] == "call"]
        partial = bool(set(names) & PART)
        whole_ = (not partial) and (whole_iteration(b, v) if is_push else True)
        if any(x[0] == "field" and x[2] == "parents" for x in walk(v)):
            st = c02.status_guard(b, bi, facts)
            applied = any(l.kind == "call" and l.says_ok() and l.term[2] and contains_call(l.term[2][0], R.name("applier"))
                          for l in lits_of(b, bi, facts))
            ok = st == "Ready" and applied and whole_
            seen_parent = seen_parent or ok
            res.instance("T1", "reload_until: every parent of an applied block is enqueued (status %s, after successful apply %s, whole set %s)" % (st, applied, whole_), b.loc(line))
            if not ok:
                res.violation("T1", "reload_until|parents-not-enqueued", "reload_until does not enqueue every parent of each successfully applied block", b.loc(line))
        elif any(x[0] == "param" and x[1] == 2 for x in walk(v)):
            ok = whole_
            seen_heads = seen_heads or ok
            res.instance("T1", "reload_until: every requested head is enqueued: %s" % ok, b.loc(line))
            if not ok:
                res.violation("T1", "reload_until|heads-not-enqueued", "reload_until does not enqueue every requested head", b.loc(line))
    if not (seen_parent and seen_heads):
        res.violation("T1", "reload_until|worklist-shape", "reload_until: enqueueing of parents (%s) / heads (%s) not found" % (seen_parent, seen_heads), b.loc())
    # loop until empty: `while !to_apply.is_empty() { pop_front().unwrap() .. }` or `while let Some(x) = to_apply.pop_front()`;
    # elements leave by pop only, the loop is left only when the list is empty
    cond_ok = False
    pop_none_edges = set()
    for bi in pops:
        for l in lits_of(b, bi, facts):
            if l.kind == "call" and callee_name(l.term) == "is_empty" and l.truth is False and l.term[2] and on_worklist(l.term[2][0]):
                cond_ok = True
    for e_, l in all_edge_lits(b, facts):
        if l.kind == "variant" and l.variants in ({"Some"}, {"None"}) and peel(l.term)[0] == "call" and peel(l.term)[3] in pops:
            if l.variants == {"Some"}:
                cond_ok = True
    applies = [(bi, t) for bi, t in b.calls() if t.callee is not None and t.callee.name == R.name("applier")]
    other_exits = []
    if applies:
        from .. import iters
        # blocks of the while loop: reachable from the pop back to itself
        for pb in pops:
            loop = {x for x in cfg.reachable_blocks(pb) if cfg.reaches(x, pb)} | {pb}
            for x in loop:
                for y in cfg.block_succs(x):
                    if y not in loop and b.blocks[y].term.kind != "unreachable":
                        lits = [l for l in lits_of(b, y, facts)]
                        if not any((l.kind == "call" and callee_name(l.term) == "is_empty" and l.truth is True and l.term[2] and on_worklist(l.term[2][0])) or
                                   (l.kind == "variant" and l.variants == {"None"} and peel(l.term)[0] == "call" and peel(l.term)[3] in pops) for l in lits):
                            other_exits.append((x, y))
    res.instance("T1", "reload_until: work-list loop runs while !to_apply.is_empty() (%s), no other exit (%d)" % (cond_ok, len(other_exits)), b.loc())
    if not cond_ok or other_exits:
        res.violation("T1", "reload_until|loop-exit", "reload_until's work-list loop can stop before the work list is empty", b.loc())

    # ------------------------------------------------------------------ T2
    edges = all_edge_lits(b, facts)
    val_entry = None
    for e, l in edges:
        if l.kind == "variant" and l.variants == {"Some"}:
            pt = peel(l.term)
            if pt[0] == "call" and callee_name(pt) == "next" and any(x[0] == "param" and x[1] == 2 for x in walk(pt)):
                # the validation loop is the first loop over anchors (it contains no push_back)
                body_blocks = cfg.reachable_blocks(e, avoid={pt[3]})
                if not any(pb in body_blocks for pb, _ in pushes):
                    val_entry = (e, pt[3], body_blocks)
    if val_entry is None or not applies:
        res.violation("T2", "reload_until|no-validation-loop", "reload_until has no loop validating the requested heads before applying", b.loc())
    else:
        e, hdr, body_blocks = val_entry

        def known(l):
            if l.kind == "variant" and l.variants == {"Some"}:
                pt_ = peel(l.term)
                return pt_[0] == "call" and callee_name(pt_) == "get" and pt_[2] and any(x[0] == "field" and x[2] == "deltas" for x in walk(pt_[2][0]))
            return l.kind == "call" and callee_name(l.term) == "contains_key" and l.truth is True and any(x[0] == "field" and x[2] == "deltas" for x in walk(l.term[2][0]))

        def ready(l):
            if l.kind != "call" or callee_name(l.term) not in ("eq", "ne") or l.truth != (callee_name(l.term) == "eq"):
                return False
            return any((status_variant(a) or ("", ""))[1] == "Ready" for a in l.term[2]) and any(x[0] == "field" and x[2] == "status" for a in l.term[2] for x in walk(a))
        for what, pred in (("head is known", known), ("head is Ready", ready)):
            pe = {ee for ee, l in edges if l.edge[0] in body_blocks and pred(l)}
            reach = any(cfg.reaches(e, ab, avoid=pe) for ab, _ in applies)
            res.instance("T2", "reload_until: nothing is applied unless `%s` held for every requested head (%d pass edge(s)): %s" % (what, len(pe), not reach and bool(pe)), b.loc())
            if reach or not pe:
                res.violation("T2", "reload_until|heads-not-validated:%s" % what.replace(" ", "-"), "reload_until can start applying blocks although the check `%s` failed for a requested head" % what, b.loc())
        # validation precedes the first apply
        ok = all(cfg.dominates(hdr, ab) for ab, _ in applies)
        if not ok:
            res.violation("T2", "reload_until|apply-before-validation", "reload_until applies a block before validating the requested heads", b.loc())

    # ------------------------------------------------------------------ T3
    eff = effects_of(facts)
    doc_clear = [bi for bi, t in b.calls() if t.callee is not None and t.callee.name == "clear" and any(x[0] == "field" and x[2] == "documents" for x in walk(arg_term(b, t, 0, 14)))]
    idx_clear = [s for s in cg.sites[b.path] if s.callee is not None and s.callee.target() == "datastorage::DataStorage::reload"]
    first_apply = [ab for ab, _ in applies]
    ok = bool(doc_clear) and bool(idx_clear) and all(any(cfg.dominates(c_, ab) for c_ in doc_clear) and any(cfg.dominates(s.block, ab) for s in idx_clear) for ab in first_apply)
    dr = facts.body("datastorage::DataStorage::reload")
    idx_ok = False
    if dr is not None:
        dcfg = cfg_of(dr)
        cl = {field_path(arg_term(dr, t, 0))[0][0]: bi for bi, t in dr.calls() if t.callee is not None and t.callee.name == "clear" and field_path(arg_term(dr, t, 0))[0]}
        lists = [bi for bi, t in dr.calls() if t.callee is not None and t.callee.name == "list_objects"]
        idx_ok = {"applied_pack_ids", "committed_objects"} <= set(cl) and all(dcfg.dominates(cl[f], l) for f in ("applied_pack_ids", "committed_objects") for l in lists)
    res.instance("T3", "reload_until clears documents and reloads the data index before applying (%s); DataStorage::reload clears the index before listing (%s)" % (ok, idx_ok), b.loc())
    if not (ok and idx_ok):
        res.violation("T3", "reload_until|not-clean-slate", "reload_until does not start from cleared documents / data index", b.loc())
    rl = facts.body("melda::Melda::reload")
    if rl is not None:
        rcfg = cfg_of(rl)
        clr = {}
        for bi, t in rl.calls():
            if t.callee is not None and t.callee.name == "clear" and t.args:
                for x in walk(arg_term(rl, t, 0, 14)):
                    if x[0] == "field" and x[2] in ("documents", "deltas"):
                        clr.setdefault(x[2], []).append(bi)
        ap = [s.block for s in cg.sites[rl.path] if any(t.path == R.path("applier") or cg.reaches(t, R.path("applier")) for t in s.targets + s.closures)]
        dsr = [s.block for s in cg.sites[rl.path] if s.callee is not None and s.callee.target() == "datastorage::DataStorage::reload"]
        ok = bool(ap) and all(k in clr and all(any(rcfg.dominates(c_, a) for c_ in clr[k]) for a in ap) for k in ("documents", "deltas")) and \
            bool(dsr) and all(any(rcfg.dominates(d_, a) for d_ in dsr) for a in ap)
        res.instance("T3", "reload (the way back to the latest state) clears documents, block map and data index before applying: %s" % ok, rl.loc())
        if not ok:
            res.violation("T3", "reload|not-clean-slate", "reload does not rebuild from cleared documents / block map / data index: a plain reload after time travel would not return to the latest state", rl.loc())
    deleg = False
    for s in cg.sites[b.path]:
        if s.callee is not None and s.callee.target() == "melda::Melda::reload":
            for l in lits_of(b, s.block, facts):
                if l.kind == "call" and callee_name(l.term) == "is_empty" and l.truth is True and any(x[0] == "param" and x[1] == 2 for x in walk(l.term[2][0])):
                    deleg = s.term.dest is not None and s.term.dest.local == 0
    res.instance("T3", "reload_until(empty set) returns reload(): %s" % deleg, b.loc())
    if not deleg:
        res.violation("T3", "reload_until|empty-set", "reload_until with an empty target set does not delegate to reload", b.loc())

    # ------------------------------------------------------------------ T4
    gv = facts.body("melda::Melda::get_value")
    if gv is not None:
        from ..defuse import inline_calls
        gcfg = cfg_of(gv)
        gedges = all_edge_lits(gv, facts)
        pass_e = {e for e, l in gedges if l.kind == "call" and callee_name(l.term) == "contains_key" and l.truth is True and contains_call(l.term[2][0], "get_revisions")}
        # edges on which no revision was requested (the Option<&str> parameter, or the parsed option, is None)
        none_e = set()
        for e, l in gedges:
            if l.kind == "variant" and l.variants == {"None"}:
                tt = inline_calls(l.term, facts)
                if any(x[0] == "param" and x[1] == 3 for x in walk(tt)) and not contains_call(tt, "get") and not contains_call(tt, "get_winner"):
                    none_e.add(e)
        n = 0
        for bi, t in gv.calls():
            if t.callee is None or t.callee.target() != "datastorage::DataStorage::read_object":
                continue
            rev = inline_calls(arg_term(gv, t, 1, 24), facts)
            if not contains_call(rev, "revision::Revision::from"):
                continue      # reads the winner only
            n += 1
            ok = bool(pass_e) and not gcfg.reaches(0, bi, avoid=pass_e | none_e) and bi != 0
            res.instance("T4", "get_value(uuid, Some(rev)): the data read is reachable only through `get_revisions().contains_key(rev)` (or when no revision was requested): %s" % ok, gv.loc(t.line))
            if not ok:
                res.violation("T4", "get_value|unchecked-revision", "get_value can read an arbitrary requested revision without checking that it belongs to the object's tree", gv.loc(t.line))
        res.floor("T4", "historical read in get_value", n, 1)
        # T4b: the value handed back for a revision is the object recorded at that revision: nothing get_value returns derives from the
        # tree's *current* leaf set or winner-dependent merge (get_merged_order_at_revision / get_leafs) - a historical lookup that merges
        # in today's leaves shows, after time travel or for an old revision, elements that were not there
        from ..flows import flow_of as _fo14
        from ..common import members_of as _mo14
        leaky = []
        for mb_ in _mo14(facts, gv):
            fl_ = _fo14(mb_)
            src_ = fl_.local_sources(0)
            for cb_ in fl_.call_blocks(src_):
                c_ = mb_.blocks[cb_].term.callee
                if c_ is not None and (c_.name in ("get_leafs",) or c_.target() in {b_.path for b_ in facts.repo_bodies()
                                                                                     if any(t_.callee is not None and t_.callee.target() == "utils::merge_arrays" for _, t_ in b_.calls())}):
                    leaky.append((mb_, cb_, c_.name))
        res.instance("T4", "get_value returns the recorded object of the revision (sources of the returned value that depend on the current leaf set: %s)" % (
            sorted({x[2] for x in leaky})), gv.loc())
        if leaky:
            mb_, cb_, nm_ = leaky[0]
            res.violation("T4", "get_value|value-depends-on-current-leaves:%s" % nm_,
                          "get_value can hand back a value computed from the tree's current leaf set (%s) instead of the object recorded at the requested "
                          "revision: an old revision of an array shows elements merged in from today's leaves" % nm_, mb_.loc(mb_.blocks[cb_].term.line))
    gp = facts.body("melda::Melda::get_parent_revision")
    if gp is not None:
        uses = [t.callee.target() for _, t in gp.calls() if t.callee is not None and (t.callee.impl_self or "").startswith(("revisiontree::", "datastorage::"))]
        ok = "revisiontree::RevisionTree::get_parent" in uses and not any(u.startswith("datastorage::") for u in uses)
        res.instance("T4", "get_parent_revision answers from RevisionTree::get_parent only: %s" % ok, gp.loc())
        if not ok:
            res.violation("T4", "get_parent_revision|source", "get_parent_revision no longer reads the parent from the revision tree entry", gp.loc())


def _applier_total(facts, res, R):
    """T5: applying a block is idempotent - what the applier reports does not depend on whether the block's revisions
    were already in the tree (reload_until enqueues a block's parents only when the apply reported success, and a
    revision shared by two blocks is 'already there' for the second one)"""
    from ..common import local_uses
    res.rule("T5", "the applier's result does not depend on which revisions were already present")
    ap = R.body("applier")
    if ap is None:
        res.floor("T5", "applier role", 0, 1)
        return
    n = 0
    from ..common import members_of
    ap_members = members_of(facts, ap)
    for mb in ap_members:
        for bi, t in mb.calls():
            if t.callee is None or t.callee.target() not in ("revisiontree::RevisionTree::unvalidated_add", "revisiontree::RevisionTree::add"):
                continue
            n += 1
            infl = _influences_outcome(mb, t.dest.local) if t.dest is not None and not t.dest.proj else None
            res.instance("T5", "%s: the 'inserted' flag returned by %s does not influence the applier's result: %s" % (mb.path, t.callee.name, infl is None), mb.loc(t.line))
            if infl is not None:
                res.violation("T5", "applier|outcome-depends-on-already-present",
                              "%s: the flag returned by %s (was the revision new?) decides the applier's result (%s): re-applying revisions that another block "
                              "already delivered changes the outcome, and reload_until stops following parents when the apply does not report success" % (
                                  mb.path, t.callee.name, infl), mb.loc(t.line))
    res.floor("T5", "tree insertion sites in the applier", n, 1)
    # ... nor on anything else the trees already contain: the records of one block arrive in hash-map order, so a record
    # may legitimately precede the record of its own parent revision
    QUERIES = {"get_revisions", "get_leafs", "get_winner", "get_parent", "get_all_revs", "contains", "is_empty", "len", "has_staging", "get_full_parents"}
    for mb in ap_members:
        src = set()
        for bi, t in mb.calls():
            if t.callee is not None and (t.callee.impl_self or "") == "revisiontree::RevisionTree" and t.callee.name in QUERIES and \
                    t.dest is not None and not t.dest.proj:
                src.add(t.dest.local)
        infl = _influences_outcome(mb, src) if src else None
        res.instance("T5", "%s: %d query site(s) of the tree's current content; the applier's result depends on them: %s" % (mb.path, len(src), infl is not None), mb.loc())
        if infl is not None:
            res.violation("T5", "applier|outcome-depends-on-tree-content",
                          "%s: the applier's result depends on what the revision tree already contains (%s): change records of one block are stored in "
                          "hash-map order, so a record can precede the record of its parent revision and the block would be rejected half-applied on reopen" % (
                              mb.path, infl), mb.loc())


def _index_only_grows(facts, res):
    from ..common import MUTATORS
    res.rule("T6", "the object index and the applied-pack set only grow between reloads")
    n = 0
    for b in facts.repo_bodies():
        root = facts.body(b.parent) if b.kind == "closure" and b.parent else b
        for bi, t in b.calls():
            c = t.callee
            if c is None or c.name not in MUTATORS or not t.args:
                continue
            fp, _ = field_path(arg_term(b, t, 0, 12))
            if not fp or fp[0] not in ("committed_objects", "applied_pack_ids"):
                continue
            if b.kind == "closure":
                pass
            n += 1
            ok = c.name in ("insert", "extend", "entry", "or_insert", "or_insert_with") or \
                (c.name == "clear" and root is not None and root.path == "datastorage::DataStorage::reload")
            res.instance("T6", "%s: %s on %s: %s" % (b.path, c.name, fp[0], "grows / full reset in reload" if ok else "SHRINKS"), b.loc(t.line))
            if not ok:
                res.violation("T6", "%s|index-shrinks:%s:%s" % (root.path if root is not None else b.path, fp[0], c.name),
                              "%s removes entries from %s with `%s` outside DataStorage::reload: objects of packs that are still in storage stop being "
                              "retrievable (values are shared between packs by digest, so 'not referenced by the loaded blocks' does not mean unused)" % (
                                  b.path, fp[0], c.name), b.loc(t.line))
    res.floor("T6", "mutation sites of the object index / applied-pack set", n, 3)


def _influences_outcome(body, local):
    """taint closure of `local` (a local or a set of locals) through data and control dependence inside `body`; returns a
    description when a tainted switch decides whether an Err is returned / a tainted value is returned, else None"""
    cfg = cfg_of(body)
    tainted = set(local) if isinstance(local, (set, frozenset, list, tuple)) else {local}
    tsw = set()
    changed = True
    while changed:
        changed = False
        for blk in body.blocks:
            if blk.cleanup:
                continue
            t = blk.term
            if t.kind == "switch" and t.discr.local() in tainted and blk.idx not in tsw:
                tsw.add(blk.idx)
                changed = True
        ctl = set()
        for sb in tsw:
            for k in range(len(body.blocks[sb].term.switch_edges())):
                e = cfg.edge_nodes.get((sb, k))
                if e is None:
                    continue
                ctl |= {x.idx for x in body.blocks if not x.cleanup and cfg.dominates(e, x.idx)}
        for blk in body.blocks:
            if blk.cleanup:
                continue
            for st in blk.stmts:
                if st.kind != "assign" or st.place is None:
                    continue
                src = any(o.place is not None and o.place.local in tainted for o in st.rv.operands()) or \
                    (st.rv.place() is not None and st.rv.place().local in tainted)
                if (src or blk.idx in ctl) and st.place.local not in tainted:
                    if st.place.local == 0 and blk.idx in ctl and not src:
                        continue
                    tainted.add(st.place.local)
                    changed = True
            t = blk.term
            if t.kind == "call" and t.dest is not None and t.dest.local not in tainted and \
                    any(a.place is not None and a.place.local in tainted for a in t.args):
                tainted.add(t.dest.local)
                changed = True
    ctl = set()
    for sb in tsw:
        for k in range(len(body.blocks[sb].term.switch_edges())):
            e = cfg.edge_nodes.get((sb, k))
            if e is not None:
                ctl |= {x.idx for x in body.blocks if not x.cleanup and cfg.dominates(e, x.idx)}
    for ob, st in assigns_of_return(body, "Err"):
        if ob in ctl:
            return "an Err return at line %s is control-dependent on it" % st.line
    if 0 in tainted:
        return "the returned value derives from it"
    return None


def thorough(res):
    from .. import engine
    engine.sensitivity("C14", res)
