"""C11 - Storage is content-addressed, append-only and byte-identical everywhere."""
from ..cfg import cfg_of
from ..defuse import du_of, walk, peel, callee_name, fmt
from ..conds import lits_of
from ..callgraph import cg_of
from ..roles import roles_of
from ..common import arg_term, contains_call, call_named, field_path, ADAPTER_TRAIT, is_adapter_impl
from ..backends import backends, classify_effect, sql_literals
from .. import engine
from . import c17

TEXT = ("N1 (provenance): in the pack writer and in commit the storage key derives from the SHA-256 of exactly the "
        "buffer that is handed to the raw write, with no mutation of that buffer between hashing and writing, and the "
        "block id's index comes from the constructor applied to the same anchor set that is serialised as parents. N2 "
        "(capability / who-may-call): the Adapter trait offers exactly {as_any, as_any_mut, read_object, write_object, "
        "list_objects}, and no destructive API (remove/rename/truncate/overwrite of files, map removal on a backend "
        "store, SQL DELETE/UPDATE/REPLACE/DROP, HTTP DELETE) is reachable from any Adapter method or from "
        "Melda/DataStorage. N3: every leaf backend's write is write-once (shared with C17/S1). N4: meld copies packs "
        "and blocks byte for byte: the bytes written are an unmodified view of the verified pack loader's result / of a "
        "raw read of the source for the same key on the match edge of a digest comparison with the identifier, behind a "
        "successful fetch + structural load (re-serialising a parsed block is rejected: parse-print is not the identity "
        "on floats). "
        "Configuration sub-check: serde_json is resolved without preserve_order / arbitrary_precision so object keys "
        "serialise sorted. Does not decide monotone growth over a history.")
TECHNIQUE = 'static analysis over rustc MIR: content-addressing provenance (key = hash of written bytes), effect classification of backend writes under an absence test, absence of destructive effects, print/parse normal-form agreement for blocks'
TRUSTED = ["rustc nightly MIR", "sha2/hex", "serde_json::to_string is deterministic for a given Value", "cargo metadata reports the resolved feature set"]

DESTRUCTIVE_FS = {"remove_file", "remove_dir", "remove_dir_all", "rename", "set_len", "truncate", "append", "write", "copy"}


def run(facts, res):
    R = roles_of(facts)
    cg = cg_of(facts)
    res.rule("N1", "the storage key is the hash of exactly the bytes written (no mutation in between); block index from the serialised parents")
    res.rule("N2", "no delete / overwrite capability exists or is reachable from the storage API")
    res.rule("N3", "every leaf backend's write is write-once")
    res.rule("N4", "meld copies packs and blocks byte for byte: unmodified, verified raw bytes of the source item")
    res.rule("N0", "serde_json is built without preserve_order / arbitrary_precision (sorted keys, canonical numbers)")

    # ------------------------------------------------------------------ N1
    n1 = 0
    for b in facts.repo_bodies():
        if is_adapter_impl(b) or b.file.endswith("adapter.rs") or b.kind == "closure":
            continue
        if b.path.startswith("melda::Melda::meld"):
            continue
        for bi, t in b.calls():
            c = t.callee
            if c is None:
                continue
            direct = c.trait == ADAPTER_TRAIT and c.name == "write_object"
            via = c.target() == R.path("raw_write")
            if not (direct or via):
                continue
            if b.path == R.path("raw_write"):
                continue   # pass-through: obligations are on its callers
            n1 += 1
            key = arg_term(b, t, 1, 40)
            data = arg_term(b, t, 2, 40)
            digs = [x for x in walk(key) if x[0] == "call" and callee_name(x) in ("digest_bytes", "digest_string")]
            dvars = {x[1] for x in walk(data) if x[0] == "var"}
            ok = False
            why = "key does not derive from a digest"
            for dg in digs:
                hb = _buffer_var(dg[2][0])
                db = _buffer_var(data)
                common = {hb} if (hb is not None and hb == db) else set()
                if not common:
                    why = "hashed buffer (%s) and written buffer (%s) are different variables" % (
                        b.local_name(hb) if hb is not None else "?", b.local_name(db) if db is not None else "?")
                    continue
                # no mutation of the common buffer between hashing and writing
                du = du_of(b)
                cfg = cfg_of(b)
                dirty = []
                for v in common:
                    for (mb, mi) in du.mutation_sites(v):
                        after_hash = mb in cfg.reachable_blocks(dg[3]) or mb == dg[3]
                        before_write = bi in cfg.reachable_blocks(mb) or mb == bi
                        if after_hash and before_write and mb != dg[3]:
                            dirty.append((b.local_name(v), mb))
                if dirty:
                    why = "buffer mutated between hashing and writing: %s" % dirty
                    continue
                # data must be a pure view of the buffer
                ok = True
                why = "key = H(%s), data = view of the same buffer, no mutation in between" % ", ".join(sorted(b.local_name(v) or "?" for v in common))
            res.instance("N1", "%s: %s" % (b.path, why), b.loc(t.line))
            if not ok:
                res.violation("N1", "%s|name-not-hash-of-written-bytes" % b.path,
                              "%s writes an item whose key is not the digest of exactly the bytes written (%s)" % (b.path, why), b.loc(t.line))
    res.floor("N1", "content-addressed raw writes (pack, block)", n1, 2)
    c = facts.body("melda::Melda::commit")
    if c is not None:
        du = du_of(c)
        ids = [(bi, t) for bi, t in c.calls() if t.callee is not None and t.callee.name == "new_from_anchors"]
        dl = [st for blk in c.blocks for st in blk.stmts if st.kind == "assign" and st.rv.kind == "agg" and st.rv.j.get("adt") == "melda::Delta"]
        ok = False
        for bi, t in ids:
            av = {x[1] for x in walk(arg_term(c, t, 1, 20)) if x[0] == "var"}
            for st in dl:
                f = st.rv.j["fields"]
                pv = {x[1] for x in walk(du.operand_term(st.rv.operands()[f.index("parents")], 20)) if x[0] == "var"}
                if av & pv:
                    ok = True
                # ... or both derive from the same call of get_anchors (the set read back out of the block being built)
                ga_ = lambda tt_: {x[3] for x in walk(tt_) if x[0] == "call" and callee_name(x) == "get_anchors"}
                if ga_(arg_term(c, t, 1, 20)) & ga_(du.operand_term(st.rv.operands()[f.index("parents")], 20)):
                    ok = True
                # ... or reads it back out of the block being built (`match &delta.parents { Some(anchors) => new_from_anchors(.., anchors) }`)
                if st.place is not None and not st.place.proj and any(
                        x[0] == "field" and x[2] == "parents" and any(y[0] == "var" and y[1] == st.place.local for y in walk(x[1]))
                        for x in walk(arg_term(c, t, 1, 20))):
                    ok = True
        res.instance("N1", "commit: the id constructor receives the same anchor set that is serialised as parents: %s" % ok, c.loc())
        if not ok:
            res.violation("N1", "commit|index-not-from-serialised-parents", "commit computes the block index from a different set than the parents it serialises", c.loc())

    # ------------------------------------------------------------------ N2
    tr = facts.traits.get(ADAPTER_TRAIT)
    items = sorted(i["name"] for i in tr["items"]) if tr else []
    res.instance("N2", "Adapter trait items: %s" % items, None)
    if items != sorted(["as_any", "as_any_mut", "read_object", "write_object", "list_objects"]):
        res.violation("N2", "adapter-trait-items:%s" % ",".join(items), "the Adapter trait's item set changed to %s (a delete/overwrite capability?)" % items)
    roots = []
    for b in facts.repo_bodies():
        if b.kind == "closure":
            continue
        if b.impl_trait == ADAPTER_TRAIT or b.impl_adt in ("melda::Melda", "datastorage::DataStorage"):
            roots.append(b)
    reach = {}
    for r in roots:
        for p, bb in cg.reach(r).items():
            reach.setdefault(p, r.path)
    destructive = []
    for b in facts.repo_bodies():
        for bi, t in b.calls():
            c_ = t.callee
            if c_ is None:
                continue
            d = None
            eff = classify_effect(t, b)
            if eff == "fs" and c_.name in DESTRUCTIVE_FS:
                d = "filesystem " + c_.name
            if eff == "map" and c_.name in ("remove", "clear", "retain", "pop_first", "pop_last", "remove_entry", "split_off") and \
                    (b.impl_trait == ADAPTER_TRAIT or b.file.endswith("adapter.rs")):
                d = "backend store " + c_.name
            if eff and eff.startswith("http:") and c_.name in ("delete", "patch"):
                d = "HTTP " + c_.name
            if eff == "diskcache" and (c_.name.startswith("remove") or c_.name.startswith("clear")):
                d = "disk cache " + c_.name
            if d:
                destructive.append((b, t, d))
        for (sql, sbi, st) in sql_literals(b):
            u = " ".join(sql.upper().split())
            for verb in ("DELETE", "UPDATE", "REPLACE", "DROP", "TRUNCATE", "ALTER"):
                if u.startswith(verb) or (" " + verb + " ") in (" " + u + " ") and not u.startswith("INSERT OR IGNORE"):
                    if verb == "REPLACE" or u.startswith(verb) or "OR REPLACE" in u:
                        destructive.append((b, st, "SQL " + verb))
                        break
    n_reach = 0
    for (b, t, d) in destructive:
        root = b
        if b.kind == "closure" and b.parent:
            root = facts.body(b.parent) or b
        r = reach.get(b.path) or reach.get(root.path)
        res.instance("N2", "destructive API %s in %s: reachable from storage API: %s" % (d, b.path, r or "no"), b.loc(t.line), nontrivial=True)
        if r:
            n_reach += 1
            res.violation("N2", "%s|destructive:%s" % (b.path, d.replace(" ", "-")),
                          "%s calls a destructive API (%s) and is reachable from %s: stored items could be removed or overwritten" % (b.path, d, r), b.loc(t.line))
    res.instance("N2", "%d bodies reachable from %d storage-API roots scanned; %d destructive call(s) in the crate, %d reachable" % (
        len(reach), len(roots), len(destructive), n_reach), None)
    res.floor("N2", "storage-API roots (Adapter methods, Melda, DataStorage)", len(roots), 40)

    # ------------------------------------------------------------------ N3
    bs = backends(facts)
    leaf = [b for b in bs if b.kind == "leaf"]
    feat = set(facts.features)
    exp_leaf = 1 + ("filesystemadapter" in feat) + ("sqlitedbadapter" in feat) + ("solidadapter" in feat)
    res.floor("N3", "leaf backends", len(leaf), exp_leaf)
    for b in leaf:
        c17.check_write_once(b, facts, res, "N3")

    # ------------------------------------------------------------------ N4
    m = facts.body("melda::Melda::meld")
    n4 = 0
    if m is not None:
        pe = facts.const_str("constants::PACK_EXTENSION")
        for cb in [m] + facts.closures_of(m.path):
            for bi, t in cb.calls():
                if t.callee is None or t.callee.name != R.name("raw_write"):
                    continue
                key = arg_term(cb, t, 1, 30)
                data = arg_term(cb, t, 2, 30)
                if pe in [x[2] for x in walk(key) if x[0] == "const" and x[1] == "str"]:
                    n4 += 1
                    src = _view_source(data)
                    ok = src is not None and callee_name(src) == R.name("pack_loader")
                    def elem_ids(tt):
                        return {("p", x[1]) for x in walk(tt) if x[0] == "param"} | {("n", x[3]) for x in walk(tt) if x[0] == "call" and callee_name(x) == "next"}
                    same = ok and bool(elem_ids(src[2][1]) & elem_ids(key))
                    res.instance("N4", "%s: pack bytes written = unmodified result of the verified loader for the same id: %s" % (cb.path, ok and same), cb.loc(t.line))
                    if not (ok and same):
                        res.violation("N4", "meld|pack-not-copied-verbatim", "meld writes pack bytes that are not the unmodified result of try_load_pack for the same pack id (%s)" % fmt(data, 5), cb.loc(t.line))
                elif contains_call(key, "melda::DeltaId::key"):
                    n4 += 1
                    # byte for byte: the bytes written are an unmodified view of a raw read of the source for the same key, that
                    # read's digest was compared with the identifier's digest (match edge), and the block passed the verified
                    # fetch + structural load. Serialising the parsed block again is NOT accepted: parse/print is not the
                    # identity on everything commit can write (floating point numbers in the commit information).
                    src = _view_source(data)
                    raw = src is not None and src[0] == "call" and callee_name(src) == R.name("raw_read")

                    def elem_ids(tt):
                        return {("p", x[1]) for x in walk(tt) if x[0] == "param"} | {("n", x[3]) for x in walk(tt) if x[0] == "call" and callee_name(x) == "next"}
                    same = raw and len(src[2]) > 1 and bool(elem_ids(src[2][1]) & elem_ids(key))
                    matched = validated_f = validated_l = False
                    for l in lits_of(cb, bi, facts):
                        if l.kind == "call" and callee_name(l.term) in ("eq", "ne") and l.truth is (callee_name(l.term) == "eq") and len(l.term[2]) >= 2:
                            a_, b_ = l.term[2][0], l.term[2][1]
                            for x_, y_ in ((a_, b_), (b_, a_)):
                                if raw and any(c_[0] == "call" and callee_name(c_) in ("digest_bytes", "digest_string") and
                                               any(z is src or (z[0] == "call" and z[3] == src[3] and callee_name(z) == callee_name(src)) for z in walk(c_))
                                               for c_ in walk(x_)) and contains_call(y_, "digest") and bool(elem_ids(y_) & elem_ids(key)):
                                    matched = True
                        if l.says_ok() and contains_call(l.term if l.kind == "variant" else l.term[2][0], R.name("fetcher")):
                            validated_f = True
                        if l.says_ok() and contains_call(l.term if l.kind == "variant" else l.term[2][0], R.name("loader")):
                            validated_l = True
                    ok = raw and same and matched and validated_f and validated_l
                    res.instance("N4", "%s: block bytes = raw bytes of the source item (%s) for the same key (%s), digest compared with the identifier (%s), block validated by fetch + load (%s/%s)" % (
                        cb.path, raw, same, matched, validated_f, validated_l), cb.loc(t.line))
                    if not ok:
                        res.violation("N4", "meld|block-not-copied-verbatim",
                                      "meld writes block bytes that are not the verified raw bytes of the source's item (raw read: %s, same key: %s, digest match edge: %s, "
                                      "validated: %s/%s; value: %s): a re-serialised or unverified block need not hash to its name on the receiver" % (
                                          raw, same, matched, validated_f, validated_l, fmt(data, 5)), cb.loc(t.line))
    res.floor("N4", "meld pack/block copy sites", n4, 2)

    # ------------------------------------------------------------------ N0
    try:
        fs = engine.dep_features("serde_json")
    except Exception as e:  # pragma: no cover
        fs = None
        res.violation("N0", "cargo-metadata-failed", "cannot determine serde_json features: %r" % (e,))
    if fs is not None:
        res.instance("N0", "serde_json resolved features: %s" % fs, None)
        for f in fs:
            bad = set(f) & {"preserve_order", "arbitrary_precision"}
            if bad:
                res.violation("N0", "serde_json-features:%s" % ",".join(sorted(bad)),
                              "serde_json is built with %s: serialised key order / number text is no longer canonical" % sorted(bad))
        if not fs:
            res.floor("N0", "serde_json in the dependency graph", 0, 1)


def _buffer_var(t):
    """local holding the buffer that term t is a pure view of"""
    VIEWS = {"deref", "as_slice", "as_ref", "as_bytes", "borrow", "as_str", "as_mut_slice"}
    n = 0
    while n < 60:
        n += 1
        k = t[0]
        if k in ("ref", "deref", "cast", "promoted"):
            t = t[1]
        elif k == "var":
            return t[1]
        elif k == "call" and callee_name(t) in VIEWS and t[2]:
            t = t[2][0]
        else:
            return None
    return None


def _view_source(t):
    """the non-view call a data term is a pure view of (or None)"""
    VIEWS = {"deref", "as_slice", "as_ref", "as_bytes", "borrow", "clone", "to_vec", "unwrap", "expect", "as_str"}
    n = 0
    while n < 60:
        n += 1
        k = t[0]
        if k in ("ref", "deref", "cast", "promoted"):
            t = t[1]
        elif k == "var":
            t = t[3]
        elif k == "field" and t[1][0] == "downcast" and t[1][2] in ("Ok", "Some"):
            t = t[1][1]
        elif k == "call":
            if callee_name(t) in VIEWS and t[2]:
                t = t[2][0]
            else:
                return t
        elif k == "phi" and len(t[1]) == 1:
            t = t[1][0]
        else:
            return None
    return None


FIXTURE_EXPECT = ['adapter-trait-items', 'destructive:filesystem-remove_file', 'unguarded-map']


def thorough(res):
    from .. import engine
    engine.sensitivity("C11", res)
