"""C17 - All storage backends implement the same write-once contract (sibling cross-check)."""
from ..cfg import cfg_of
from ..defuse import du_of, walk, peel, callee_name, fmt, inline_calls
from ..conds import lits_of
from ..callgraph import cg_of
from ..common import arg_term, contains_call, call_named, ADAPTER_TRAIT, assigns_of_return, root_fn
from ..roles import roles_of
from ..backends import backends, classify_effect, sql_literals, absence_lits, key_derived, METHODS

TEXT = ("Sibling cross-check over every `impl Adapter` of every cargo feature configuration (memory, directory, SQLite, "
        "Solid, Deflate, Brotli, DynAdapter - including backends that cannot run offline). S1: in every leaf backend "
        "each store-mutating effect of write_object is edge-dominated by an absence test on the same key (or is an "
        "INSERT OR IGNORE statement). S2: every key a leaf list_objects can return is produced under ends_with(ext) and "
        "passes through strip_suffix(ext). S3: wrappers append the same literal to the key in read/write/list, delegate "
        "to the backend method of the same name and strip the literal from listings. S4: every read_object returns the "
        "whole value under length==0 [&& offset==0] and otherwise the slice offset..offset+length. S5: consumers of "
        "listings re-append the same extension constant. Decides the shape of the contract in every backend; does not "
        "decide reopen equality, compression round trips or cross-backend state equality (runtime values)."
        " S3 (revised): a wrapper hands the delegate's listing on unchanged and maps a key to one backend key; S3d: its read passes through the delegate. S2c: the directory listing reads the store on every call. S6 / S6b: whole-buffer I/O, no truncating adaptor. S7 / S7b: file name / map key is the key itself, no byte-range slicing of the key. S8: SQLite schema creation is IF NOT EXISTS. The Solid backend is excluded by the property and not judged. S9: the directory backend reads through a file opened by the same call and a ranged read is dominated by a seek (no handle / cursor kept between calls). S4d: the slice of a ranged read starts at the offset itself, not at a position computed from it.")
TECHNIQUE = 'static analysis over rustc MIR: sibling agreement of all Adapter implementations (absence-guarded write effects, suffix filter+strip shape, ranged-read shape, wrapper delegation and codec symmetry)'
TRUSTED = ["rustc nightly MIR", "std::fs, BTreeMap, rusqlite, reqwest, flate2, brotli behave as documented",
           "SQLite PRIMARY KEY + INSERT OR IGNORE keeps the first row"]

ITER_PASS = {"collect", "into_iter", "iter", "filter", "keys", "cloned", "copied", "unwrap", "expect", "branch",
             "deref", "borrow", "lock", "into_par_iter", "par_iter", "rev", "skip_while", "take_while", "chain"}


def run(facts, res):
    bs = backends(facts)
    # the property excludes the Solid backend ("needs a network and is excluded"): it is counted (floors) but not judged
    solid = [b for b in bs if b.name() == "SolidAdapter"]
    bs = [b for b in bs if b.name() != "SolidAdapter"]
    leaf = [b for b in bs if b.kind == "leaf"]
    wrap = [b for b in bs if b.kind == "wrapper"]
    if solid:
        res.instance("S1", "SolidAdapter is compiled in: excluded from C17 by the property's quantifier, not judged", solid[0].methods.get("read_object").loc() if solid[0].methods.get("read_object") else None)
    res.rule("S1", "leaf write_object: every store-mutating effect is dominated by an absence test on the same key (write-once)")
    res.rule("S2", "leaf list_objects: every returned key is produced under ends_with(ext) and through strip_suffix(ext)")
    res.rule("S3", "wrappers: same literal appended in read/write/list, same-name delegation, literal stripped from listings")
    res.rule("S4", "read_object: whole value iff length==0 [&& offset==0], else slice offset..offset+length")
    res.rule("S5", "listing consumers re-append the extension constant they listed with")
    feat = set(facts.features)
    exp_leaf = 1 + ("filesystemadapter" in feat) + ("sqlitedbadapter" in feat)
    exp_wrap = 1 + ("flate2adapter" in feat) + ("brotliadapter" in feat)
    res.floor("S1", "leaf backends", len(leaf), exp_leaf)
    res.floor("S3", "delegating backends", len(wrap), exp_wrap)
    res.note("leaf: %s; wrappers: %s" % (", ".join(b.name() for b in leaf), ", ".join(b.name() for b in wrap)))
    for b in bs:
        for m in METHODS:
            if m not in b.methods:
                res.violation("S1", "%s|missing-method:%s" % (b.name(), m), "%s has no %s body" % (b.self_ty, m))
    for b in leaf:
        check_write_once(b, facts, res, "S1")
        check_listing(b, facts, res)
        check_listing_complete(b, facts, res)
        check_ranged_read(b, facts, res)
    res.rule("S7", "leaf backends address an item by its key itself (file name / map key = the key, viewed, never re-encoded)")
    n7 = 0
    for b in leaf:
        n7 += check_addressing(b, facts, res)
    res.floor("S7", "addressing sites of leaf backends (memory map key, directory file name)", n7, 1 + ("filesystemadapter" in feat))
    # S9: the directory backend reads from a file it opened for this read: the receiver of every read_exact / read_to_end in read_object
    # derives from a `File::open` of this call, and a ranged read seeks unconditionally. A handle (and cursor position) kept between
    # calls makes the bytes returned depend on what was read before.
    res.rule("S9", "directory backend: every read uses a file opened by this call; a ranged read always seeks")
    n9 = 0
    for b in leaf:
        if "Filesystem" not in b.name():
            continue
        for body in b.reach("read_object"):
            bcfg = cfg_of(body)
            seeks = [bi for bi, t in body.calls() if t.callee is not None and t.callee.name == "seek"]
            for bi, t in body.calls():
                if t.callee is None or t.callee.name not in ("read_exact", "read_to_end", "read", "read_to_string", "read_buf") or not t.args or \
                        "io::Read" not in (t.callee.path + (t.callee.trait or "")):
                    continue
                n9 += 1
                rc = arg_term(body, t, 0, 14)
                fresh = contains_call(rc, "open")
                ls_ = lits_of(body, bi, facts)
                whole_read = any(l.kind == "cmp" and l.term[1] in ("Eq", "Ne") and any(x[0] == "param" and "length" in str(x[2]) for x in walk(l.term)) and
                                 (l.truth is True) == (l.term[1] == "Eq") for l in ls_) or \
                    not any(x[0] == "param" and "offset" in str(x[2]) for bj, tj in body.calls() for a_ in range(len(tj.args)) for x in walk(arg_term(body, tj, a_, 6)))
                sought = whole_read or any(bcfg.dominates(sb, bi) for sb in seeks)
                res.instance("S9", "%s: %s in %s reads a file opened by this call (%s); positioned by an unconditional seek or a whole read (%s)" % (
                    b.name(), t.callee.name, body.path, fresh, sought), body.loc(t.line))
                if not fresh:
                    res.violation("S9", "%s|read-through-kept-handle" % b.name(),
                                  "%s reads through a file handle that was not opened by this call: the cursor position (and the file) left by an earlier "
                                  "read decides which bytes are returned" % body.path, body.loc(t.line))
                elif not sought:
                    res.violation("S9", "%s|ranged-read-without-seek" % b.name(),
                                  "%s performs a ranged read that is not dominated by a seek to the requested offset" % body.path, body.loc(t.line))
    if "filesystemadapter" in feat:
        res.floor("S9", "file reads of the directory backend", n9, 2)
    # S8: a persistent backend can be opened on what it stored before: the statements its constructors run against an existing store are
    # idempotent (`CREATE TABLE IF NOT EXISTS`; create_dir_all for the directory backend is classified "container" under S1)
    res.rule("S8", "persistent backends reopen: schema creation in the SQLite constructors is IF NOT EXISTS")
    n8 = 0
    for ob in facts.repo_bodies():
        if not ob.path.startswith("sqliteadapter::SqliteAdapter::") and "sqliteadapter::SqliteAdapter" not in (ob.impl_adt or ""):
            continue
        if ob.impl_trait:
            continue
        from ..common import members_of as _mo8
        opens_file = any(t.callee is not None and t.callee.krate == "rusqlite" and t.callee.name in ("open", "open_with_flags")
                         for mb_ in _mo8(facts, ob) for _, t in mb_.calls())
        if not opens_file or not ob.public:
            continue
        for mb_ in _mo8(facts, ob):
            for (sql, bi, t) in sql_literals(mb_):
                u = " ".join(sql.upper().split())
                if not u.startswith("CREATE"):
                    continue
                n8 += 1
                ok = "IF NOT EXISTS" in u
                res.instance("S8", "%s (opens a database file) runs %r: idempotent on an existing store: %s" % (ob.path, sql[:60], ok), mb_.loc(t.line))
                if not ok:
                    res.violation("S8", "SqliteAdapter|schema-creation-not-idempotent",
                                  "%s runs %r on the database it opened: on a database that already holds the table the statement fails (and the result is "
                                  "unwrapped), so a stored replica cannot be opened again" % (ob.path, sql[:80]), mb_.loc(t.line))
    if "sqlitedbadapter" in feat:
        res.floor("S8", "schema statements in SQLite constructors that open a file", n8, 1)
    for b in wrap:
        check_wrapper(b, facts, res)
        if b.name() != "DynAdapter":
            check_ranged_read(b, facts, res)
    check_consumers(facts, res)


# ------------------------------------------------------------------------------ S7
KEY_VIEW = {"deref", "as_ref", "as_str", "borrow", "to_string", "clone", "to_owned", "into", "from", "as_path", "new", "as_os_str", "to_path_buf"}


def _view_root(t):
    hops = 0
    while hops < 40:
        hops += 1
        if t[0] in ("ref", "deref", "cast"):
            t = t[1]
        elif t[0] == "var":
            t = t[3]
        elif t[0] == "call" and callee_name(t) in KEY_VIEW and t[2]:
            t = t[2][0]
        else:
            return t
    return t


def check_addressing(b, facts, res):
    """the name an item is stored under is its key: the last path component (directory backend) or the map key (memory backend) is the
    `key` argument, viewed or copied, not a transformed string. A re-encoding that is not one-to-one (characters replaced, case folded,
    a prefix cut) lets a second key land on the first key's item: the write is dropped by the write-once guard and reads of the second
    key return the first key's bytes, while the other backends keep the two apart."""
    n = 0
    bodies = []
    for m in ("read_object", "write_object"):
        for body in b.reach(m):
            if body not in bodies:
                bodies.append(body)
    for body in bodies:
        joins = [(bi, t) for bi, t in body.calls() if t.callee is not None and t.callee.name in ("join", "push") and
                 "path::Path" in (t.callee.path + (t.callee.self_ty or "")) and len(t.args) >= 2]
        inner = set()
        # `let mut p = root.join(prefix); p.push(key)`: a join whose result is pushed onto later does not give the last component
        for bi, t in joins:
            if t.callee.name == "push":
                rl_ = {x[1] for x in walk(arg_term(body, t, 0, 4)) if x[0] == "var"}
                for bj, tj in joins:
                    if tj.callee.name == "join" and tj.dest is not None and tj.dest.local in rl_ and cfg_of(body).reaches(bj, bi):
                        inner.add(bj)
        for bi, t in joins:
            for x in walk(arg_term(body, t, 0, 20)):
                if x[0] == "call" and callee_name(x) == "join":
                    inner.add(x[3])
        for bi, t in joins:
            if bi in inner:
                continue
            n += 1
            r = _view_root(arg_term(body, t, 1, 24))
            ok = r[0] == "param" and "str" in body.local_ty(r[1])
            res.instance("S7", "%s: last path component in %s is the key argument itself (%s): %s" % (b.name(), body.path, r[2] if r[0] == "param" else r[0], ok), body.loc(t.line))
            if not ok:
                res.violation("S7", "%s|file-name-not-the-key" % b.name(),
                              "%s builds the file name of an item from a transformed key (%s), not from the key itself: two keys can share one file" % (
                                  body.path, callee_name(r) if r[0] == "call" else r[0]), body.loc(t.line))
        for bi, t in body.calls():
            c = t.callee
            if c is None or not ("collections::BTreeMap" in c.path or "collections::HashMap" in c.path) or c.name not in ("insert", "get", "contains_key", "entry") or len(t.args) < 2:
                continue
            if not _store_receiver(body, t):
                continue
            n += 1
            r = _view_root(arg_term(body, t, 1, 24))
            ok = r[0] == "param" and "str" in body.local_ty(r[1])
            res.instance("S7", "%s: map %s in %s keyed by the key argument itself: %s" % (b.name(), c.name, body.path, ok), body.loc(t.line))
            if not ok:
                res.violation("S7", "%s|map-key-not-the-key" % b.name(),
                              "%s keys its store by a transformed key (%s)" % (body.path, callee_name(r) if r[0] == "call" else r[0]), body.loc(t.line))
    # S7b: no byte-range slicing of the key (`&key[..2]` panics for a key shorter than the range or when the offset falls inside a
    # multi-byte character; the other backends accept such keys): `str::get(range)` is the non-panicking form
    for body in bodies:
        for bi, t in body.calls():
            c = t.callee
            if c is None or c.name not in ("index", "index_mut") or (c.self_ty or "") != "str" or not t.args:
                continue
            r = _view_root(arg_term(body, t, 0, 24))
            if r[0] == "param" and "str" in body.local_ty(r[1]):
                res.violation("S7", "%s|key-sliced-by-byte-range" % b.name(),
                              "%s slices the key argument by a byte range (%s): a key shorter than the range, or with a multi-byte character across its end, "
                              "makes the backend panic where the other backends store the item" % (body.path, (c.args or ["?", "?"])[-1]), body.loc(t.line))
    return n


# ------------------------------------------------------------------------------ S1
def check_write_once(b, facts, res, rid):
    bodies = b.reach("write_object")
    effects = 0
    for body in bodies:
        for bi, t in body.calls():
            eff = classify_effect(t, body)
            if eff is None:
                continue
            if eff == "container":
                res.instance(rid, "%s: %s in %s only creates containers (idempotent, never touches an item)" % (b.name(), t.callee.name, body.path), body.loc(t.line))
                continue
            if eff == "http:post" and _is_container_post(body, bi, facts):
                res.instance(rid, "%s: POST in %s creates a container under HEAD != 200" % (b.name(), body.path), body.loc(t.line))
                continue
            if eff == "map" and not _store_receiver(body, t):
                continue
            effects += 1
            names = ("key",)
            if eff == "sql":
                lits = [s for (s, sbi, st) in sql_literals(body) if sbi == bi]
                ok = bool(lits) and all(_sql_write_once(s) for s in lits)
                res.instance(rid, "%s: SQL %r is write-once: %s" % (b.name(), lits, ok), body.loc(t.line))
                if not ok:
                    res.violation(rid, "%s|sql-not-write-once" % b.name(),
                                  "%s::write_object executes %r: only `INSERT OR IGNORE` keeps the first write" % (b.name(), lits), body.loc(t.line))
                continue
            if eff == "map" and t.callee.name == "entry":
                # `entry(key).or_insert*(..)` is insert-if-absent by construction
                nxt = [tt for _, tt in body.calls() if tt.callee is not None and tt.args and
                       any(x[0] == "call" and x[3] == bi for x in walk(arg_term(body, tt, 0, 6)))]
                if nxt and all(tt.callee.name in ("or_insert", "or_insert_with", "or_insert_with_key", "or_default") for tt in nxt) and \
                        any(key_derived(arg_term(body, t, i, 10), names) for i in range(1, len(t.args))):
                    res.instance(rid, "%s: entry(key).%s in %s is insert-if-absent" % (b.name(), nxt[0].callee.name, body.path), body.loc(t.line))
                    continue
            al = absence_lits(body, bi, facts, names)
            if not al and body.kind == "closure":
                # an effect inside a closure (`File::create(p).and_then(|mut f| { f.write_all(data)?; f.flush() })`) is guarded by what
                # dominates the call the closure is handed to
                from ..callgraph import cg_of as _cg1
                cb_, hops_ = body, 0
                while not al and cb_ is not None and cb_.kind == "closure" and hops_ < 4:
                    hops_ += 1
                    nxt_ = None
                    for cs_ in _cg1(facts).callers_of(cb_.path):
                        if cb_ in cs_.closures:
                            al = absence_lits(cs_.body, cs_.block, facts, names)
                            nxt_ = cs_.body
                            break
                    cb_ = nxt_
            # the guard must talk about the same store / path as the effect
            res.instance(rid, "%s: %s (%s) in %s dominated by %s" % (b.name(), t.callee.name, eff, body.path, al[:2] or "NOTHING"), body.loc(t.line))
            if not al:
                res.violation(rid, "%s|unguarded-%s:%s" % (b.name(), eff.split(":")[0], t.callee.name),
                              "%s::write_object: %s (%s effect) is not dominated by an absence test on the key: an "
                              "existing item could be overwritten" % (b.name(), t.callee.target(), eff), body.loc(t.line))
            elif eff == "fs" and t.callee.name in ("create", "open", "write"):
                # same path variable in exists() and create()
                ev = {x[1] for l in al for a in l.term[2] for x in walk(a) if x[0] == "var"}
                cv = {x[1] for i in range(len(t.args)) for x in walk(arg_term(body, t, i)) if x[0] == "var"}
                if not (ev & cv):
                    res.violation(rid, "%s|absence-test-on-other-path" % b.name(),
                                  "%s::write_object: the path tested for existence is not the path created" % b.name(), body.loc(t.line))
    res.floor(rid, "%s write effects" % b.name(), effects, 1)


def _sql_write_once(s):
    u = " ".join(s.upper().split())
    if u.startswith("INSERT OR IGNORE"):
        return True
    return False


def _store_receiver(body, t):
    """map mutation on a field of self / the locked store (not on a local temporary)"""
    r = arg_term(body, t, 0)
    for x in walk(r):
        if x[0] in ("param", "upvar") and x[2] in ("self",):
            return True
    return False


def _is_container_post(body, bi, facts):
    for l in lits_of(body, bi, facts):
        if l.kind in ("cmp", "call"):
            args = [l.term[2], l.term[3]] if l.kind == "cmp" else l.term[2]
            if any(contains_call(a, "head") for a in args):
                return True
    return False


# ------------------------------------------------------------------------------ S2
def check_listing(b, facts, res):
    body = b.methods["list_objects"]
    ok, why = listing_ok(facts, body, du_of(body).local_term(0, 40), ext_names=("ext",), depth=0)
    res.instance("S2", "%s::list_objects: %s" % (b.name(), why), body.loc())
    if not ok:
        res.violation("S2", "%s|no-suffix-strip" % body.path,
                      "%s::list_objects can return a key that did not pass through ends_with(ext) + strip_suffix(ext): %s" % (b.name(), why), body.loc())


def check_listing_complete(b, facts, res):
    """S2c: `exactly the matching keys`: a key is produced under no other condition than `ends_with(ext)` (plus the
    structural tests of walking the store: iteration, Ok of directory reads, is_file / is_dir)"""
    from ..conds import closure_result_lits
    body = b.methods["list_objects"]
    if b.name().startswith("Solid"):
        return
    n = 0

    def judge(where, lits, loc):
        nonlocal n
        n += 1
        extra = []
        for l in lits:
            if l.kind == "variant":
                continue
            if l.kind == "call":
                nm = callee_name(l.term)
                if nm in ("ends_with",) and l.truth is True:
                    continue
                if nm in ("is_file", "is_dir", "is_ok", "is_some") and l.truth is True:
                    continue
                if nm in ("is_err", "is_none", "is_empty") :
                    continue
            if l.kind == "flag":
                continue
            extra.append(repr(l))
        res.instance("S2", "%s::list_objects: keys are produced under ends_with(ext) and structural tests only (%s): %s" % (b.name(), where, not extra), loc)
        if extra:
            res.violation("S2", "%s|listing-excludes-keys" % b.name(),
                          "%s::list_objects produces a key only under the further condition %s: keys that end with the suffix are missing from the listing "
                          "(the contract says exactly the matching keys)" % (b.name(), extra[0]), loc)
    for mb in [body] + facts.closures_of(body.path):
        for bi, t in mb.calls():
            if t.callee is not None and t.callee.name in ("push", "insert", "push_back") and t.args and "Vec" in (t.callee.path or "") + (t.callee.self_ty or ""):
                judge("push", lits_of(mb, bi, facts), mb.loc(t.line))
        if mb.kind == "closure" and mb.local_ty(0) == "bool":
            ls = closure_result_lits(mb, facts, True)
            if ls:
                judge("filter closure", ls, mb.loc())
        if mb.kind == "closure" and mb.local_ty(0).startswith("std::option::Option<"):
            from ..common import return_locals as _rl
            rets_ = _rl(mb)
            for bi, t in mb.calls():
                if t.dest is not None and t.dest.local in rets_ and not t.dest.proj:
                    judge("filter_map closure returning a call's Option", lits_of(mb, bi, facts), mb.loc(t.line))
            for blk in mb.blocks:
                if blk.cleanup:
                    continue
                for st in blk.stmts:
                    if st.kind == "assign" and st.place.local == 0 and not st.place.proj and st.rv.kind == "agg" and st.rv.j.get("variant") == "Some":
                        judge("filter_map closure", lits_of(mb, blk.idx, facts), mb.loc(st.line))
    res.floor("S2", "%s key-producing sites" % b.name(), n, 1)


def ext_derived(t, ext_names):
    for x in walk(t):
        if x[0] in ("param", "upvar") and x[2] in ext_names:
            return True
    return False


def _strip_ok(t, ext_names):
    """term passes through strip_suffix(_, ext)"""
    for x in walk(t):
        if x[0] == "call" and callee_name(x) == "strip_suffix" and len(x[2]) >= 2 and ext_derived(x[2][1], ext_names):
            return True
    return False


def _strip_no_fallback(t, ext_names):
    """the value passes through strip_suffix(_, ext) and no `unwrap_or*` supplies a fallback for non-matching keys:
    then only keys that really end with ext can be produced (others are skipped or the call panics)"""
    if not _strip_ok(t, ext_names):
        return False
    names = {callee_name(x) for x in walk(t) if x[0] == "call"}
    return not (names & {"unwrap_or", "unwrap_or_else", "unwrap_or_default", "or", "or_else"})


def _closure_guard(facts, cb, ext_names):
    """closure returns bool derived from ends_with(_, ext)"""
    rt = du_of(cb).local_term(0, 20)
    for x in walk(rt):
        if x[0] == "call" and callee_name(x) == "ends_with" and len(x[2]) >= 2 and ext_derived(x[2][1], ext_names):
            return True
    return False


def listing_ok(facts, body, t, ext_names, depth, guarded=False):
    """does every element of the listing value `t` pass ends_with(ext) and strip_suffix(ext)?"""
    if depth > 40:
        return False, "too deep"
    k = t[0]
    if k in ("ref", "deref", "cast", "promoted"):
        return listing_ok(facts, body, t[1], ext_names, depth + 1, guarded)
    if k == "field" and t[1][0] == "downcast":
        return listing_ok(facts, body, t[1][1], ext_names, depth + 1, guarded)
    if k == "phi":
        rs = []
        for x in t[1]:
            px = x
            while px[0] in ("var", "ref", "deref"):
                px = px[3] if px[0] == "var" else px[1]
            if px[0] == "call" and callee_name(px) == "from_residual":
                continue   # error propagation
            if x[0] == "agg" and x[2] in ("Err", "None"):
                continue
            rs.append(listing_ok(facts, body, x, ext_names, depth + 1, guarded))
        if not rs:
            return False, "no producing definition"
        bad = [r for r in rs if not r[0]]
        return (not bad, "; ".join(r[1] for r in (bad or rs)))
    if k == "agg":
        if t[2] in ("Ok", "Some") and t[3]:
            return listing_ok(facts, body, t[3][0], ext_names, depth + 1, guarded)
        return False, "unexpected aggregate %s" % t[2]
    if k == "var":
        # a Vec variable filled by push / append / extend
        local = t[1]
        inner = t[3]
        prods = _producers(facts, body, local)
        if prods:
            rs = []
            for (pb, bi, call, kind) in prods:
                if kind == "push":
                    v = inline_calls(arg_term(pb, call, 1, 30), facts)     # a private helper may compute the listed name
                    s_ok = _strip_ok(v, ext_names)
                    g = guarded or _under_ends_with(facts, pb, bi, ext_names) or _strip_no_fallback(v, ext_names)
                    rs.append((g and s_ok, "push at %s: under ends_with(ext)=%s, through strip_suffix(ext)=%s" % (pb.loc(call.line), g, s_ok)))
                else:
                    v = arg_term(pb, call, 1, 30)
                    rs.append(listing_ok(facts, pb, v, ext_names, depth + 1, guarded))
            bad = [r for r in rs if not r[0]]
            return (not bad, "; ".join(r[1] for r in (bad or rs)))
        return listing_ok(facts, body, inner, ext_names, depth + 1, guarded)
    if k == "call":
        n = callee_name(t)
        cal = t[4]
        if n in ("map", "filter_map", "flat_map") and len(t[2]) >= 2:
            cl = [x for x in walk(t[2][1]) if x[0] == "closure"]
            if cl:
                cb = facts.body(cl[0][1])
                if cb is not None:
                    rt = inline_calls(du_of(cb).local_term(0, 30), facts)   # `filter_map(|e| listed_name(&e, ext))`
                    s_ok = _strip_ok(rt, ext_names)
                    g = guarded or _chain_has_filter(facts, t[2][0], ext_names) or _closure_some_guarded(facts, cb, ext_names) or \
                        _strip_no_fallback(rt, ext_names)
                    if not s_ok:
                        # a stage that only converts its element (`.map(|s| s.to_string())`): look at the stage before it
                        pr = peel(rt, extra=("to_string", "to_owned", "clone", "into", "as_str", "to_str"))
                        if pr[0] == "param" or (pr[0] == "field" and peel(pr[1])[0] == "param"):
                            return listing_ok(facts, body, t[2][0], ext_names, depth + 1, guarded)
                    return (s_ok and g, "%s(|..|) at %s: strip_suffix(ext)=%s, ends_with(ext)=%s" % (n, cb.loc(), s_ok, g))
            # a function item instead of a closure: a pure conversion of the element (`.map(Result::unwrap)`, `.map(str::to_string)`)
            # leaves the judgement to the stage before it
            fi = [x for x in walk(t[2][1]) if x[0] == "const" and x[1] == "fn"]
            if fi and n == "map" and str(fi[0][2]).rsplit("::", 1)[-1] in ("unwrap", "to_string", "to_owned", "clone", "into", "from", "as_str", "expect", "cloned"):
                return listing_ok(facts, body, t[2][0], ext_names, depth + 1, guarded)
            return False, "%s without analysable closure" % n
        if n == "filter" and len(t[2]) >= 2:
            cl = [x for x in walk(t[2][1]) if x[0] == "closure"]
            g = guarded
            if cl:
                cb = facts.body(cl[0][1])
                g = g or (cb is not None and _closure_guard(facts, cb, ext_names))
            return listing_ok(facts, body, t[2][0], ext_names, depth + 1, g)
        if cal is not None and facts.body(cal.target()) is not None and facts.body(cal.target()).in_repo() \
                and cal.trait != ADAPTER_TRAIT:
            # helper in the crate returning a listing: its `ext` parameter must receive our ext
            hb = facts.body(cal.target())
            pn = [hb.local_name(i) for i in range(1, hb.argc + 1)]
            if "ext" in pn:
                i = pn.index("ext")
                if not ext_derived(t[2][i], ext_names):
                    return False, "helper %s is not given ext" % hb.path
                return listing_ok(facts, hb, du_of(hb).local_term(0, 40), ("ext",), depth + 1, False)
            return False, "helper %s has no ext parameter" % hb.path
        if n in ITER_PASS and t[2]:
            return listing_ok(facts, body, t[2][0], ext_names, depth + 1, guarded)
        if n in ("new", "with_capacity") or (cal is not None and cal.name == "into_vec"):
            return True, "empty list"
        return False, "values produced by %s are not stripped" % t[1]
    if k == "array" and not t[1]:
        return True, "empty list"
    return False, "unrecognised producer %s" % fmt(t, 3)


def _producers(facts, body, local):
    """push/append sites that fill the Vec variable `local` of body, including pushes made by closures
    of body that captured the variable: [(body or closure body, block, call, kind)]"""
    out = []
    name = body.local_name(local)
    for cb in [body] + facts.closures_of(body.path):
        du = du_of(cb)
        for bi, call in cb.calls():
            c = call.callee
            if c is None or c.name not in ("push", "append", "extend", "extend_from_slice", "insert") or not call.args:
                continue
            r = du.operand_term(call.args[0], 8)
            hit = False
            for x in walk(r):
                if cb is body and x[0] == "var" and x[1] == local:
                    hit = True
                if cb is not body and x[0] == "upvar" and x[2] == name:
                    hit = True
            if hit:
                out.append((cb, bi, call, "push" if c.name in ("push", "insert") else "append"))
    return out


def _under_ends_with(facts, body, bi, ext_names):
    for l in lits_of(body, bi, facts):
        if l.kind == "call" and callee_name(l.term) == "ends_with" and l.truth is True and ext_derived(l.term[2][1], ext_names):
            return True
    return False


def _chain_has_filter(facts, t, ext_names):
    for x in walk(t):
        if x[0] == "call" and callee_name(x) == "filter" and len(x[2]) >= 2:
            for c in walk(x[2][1]):
                if c[0] == "closure":
                    cb = facts.body(c[1])
                    if cb is not None and _closure_guard(facts, cb, ext_names):
                        return True
    return False


def _closure_some_guarded(facts, cb, ext_names):
    """filter_map closure: every `Some(..)` return is under ends_with(ext) == true"""
    oks = [bi for bi, st in assigns_of_return(cb, "Some")]
    if not oks:
        return False
    return all(_under_ends_with(facts, cb, bi, ext_names) for bi in oks)


# ------------------------------------------------------------------------------ S3
def check_wrapper(b, facts, res):
    lits = {}
    for m in METHODS:
        body = b.methods.get(m)
        if body is None:
            continue
        ds = b.delegates.get(m, [])
        if ds != [m] * len(ds) or not ds:
            res.violation("S3", "%s|%s-delegates-to:%s" % (b.name(), m, ",".join(ds) or "nothing"),
                          "%s::%s must delegate to the backend's %s only (calls: %s)" % (b.name(), m, m, ds or "none"), body.loc())
        # literal appended to the key / ext handed to the backend
        for bi, t in body.calls():
            c = t.callee
            if c is not None and c.trait == ADAPTER_TRAIT and c.name == m:
                k = inline_calls(arg_term(body, t, 1, 30), facts)       # `backend_key(key)` / `marked(key)` helpers
                ls = sorted({x[2] for x in walk(k) if x[0] == "const" and x[1] == "str" and x[2]})
                pn = "ext" if m == "list_objects" else "key"
                passes = any(x[0] == "param" and x[2] == pn for x in walk(k))
                if m in lits and lits[m][0] != tuple(ls):
                    # two delegations of one method under different literals: the backend key is no longer a function of the key alone
                    # (e.g. chosen by the size of the payload), so the backend's write-once guard protects each variant separately and a
                    # second write to the key can land beside the first
                    res.violation("S3", "%s|%s-backend-key-varies" % (b.name(), m),
                                  "%s::%s hands the backend the key under different literals (%s and %s): which backend item a key maps to depends on "
                                  "more than the key, a second write can be stored next to the first and reads can return either" % (
                                      b.name(), m, list(lits[m][0]), ls), body.loc(t.line))
                lits[m] = (tuple(ls), passes)
                if not passes:
                    res.violation("S3", "%s|%s-drops-%s" % (b.name(), m, pn), "%s::%s does not pass its %s on to the backend" % (b.name(), m, pn), body.loc(t.line))
    # S3b: the codec used by write_object and read_object is the same family (encoder <-> decoder)
    if b.name() != "DynAdapter":
        fam = {}
        for m in ("read_object", "write_object"):
            body = b.methods.get(m)
            if body is None:
                continue
            for bi, t in [(bi_, t_) for rb_ in b.reach(m) for bi_, t_ in rb_.calls()]:      # the method and its private helpers
                c = t.callee
                if c is None or c.krate in ("std", "core", "alloc", "anyhow", "melda"):
                    continue
                nm = (c.impl_self or c.self_ty or c.path)
                for f_, pair in (("deflate", ("DeflateEncoder", "DeflateDecoder")), ("zlib", ("ZlibEncoder", "ZlibDecoder")), ("gz", ("GzEncoder", "GzDecoder")),
                                 ("brotli", ("CompressorReader", "Decompressor")), ("brotli", ("CompressorWriter", "DecompressorWriter"))):
                    if pair[0] in nm:
                        fam.setdefault(m, set()).add((f_, "enc"))
                    if pair[1] in nm and pair[0] not in nm:
                        fam.setdefault(m, set()).add((f_, "dec"))
        w_ = {f_ for f_, k in fam.get("write_object", set()) if k == "enc"}
        r_ = {f_ for f_, k in fam.get("read_object", set()) if k == "dec"}
        res.instance("S3", "%s: write_object encodes with %s, read_object decodes with %s" % (b.name(), sorted(w_), sorted(r_)), None)
        if w_ != r_ or len(w_) != 1:
            res.violation("S3", "%s|codec-mismatch" % b.name(), "%s compresses with %s but decompresses with %s" % (b.name(), sorted(w_), sorted(r_)))
    vals = {v[0] for v in lits.values()}
    res.instance("S3", "%s: literals appended read/write/list = %s" % (b.name(), {k: v[0] for k, v in lits.items()}), None)
    if len(vals) > 1:
        res.violation("S3", "%s|suffix-literals-differ" % b.name(), "%s appends different literals in its methods: %s" % (b.name(), lits))
    # listing: the delegate is asked for ext + literal and (S2, or this same rule for a nested wrapper) removes that whole suffix, so
    # the names it returns are already the caller's: the wrapper hands them on unchanged. Stripping the literal once more eats into
    # keys whose stem happens to end with it (`b.flate.delta` listed by ".delta" comes back as `b`), which no plain backend does.
    lit = next(iter(vals)) if vals else ()
    lb = b.methods.get("list_objects")
    if lit and lb is not None:
        altered = set()
        for cb in b.reach("list_objects"):
            for bi, t in cb.calls():
                if t.callee is not None and t.callee.name in ("trim_end_matches", "strip_suffix", "trim_suffix", "trim_matches", "trim_start_matches", "strip_prefix",
                                                              "replace", "replacen", "truncate", "split", "rsplit", "split_once", "rsplit_once",
                                                              "to_lowercase", "to_uppercase", "trim", "trim_end", "trim_start"):
                    altered.add(t.callee.name)
        res.instance("S3", "%s::list_objects hands the delegate's names on unchanged (string-altering calls: %s)" % (b.name(), sorted(altered)), lb.loc())
        if altered:
            res.violation("S3", "%s|listing-alters-names:%s" % (b.name(), ",".join(sorted(altered))),
                          "%s::list_objects asks the backend for ext + %s (the backend removes that whole suffix) and then applies %s to the names: a key "
                          "whose stem ends with the literal is listed under a different name than on a plain backend" % (b.name(), list(lit), sorted(altered)), lb.loc())


# ------------------------------------------------------------------------------ S4
def check_ranged_read(b, facts, res):
    body = b.methods.get("read_object")
    if body is None:
        return
    # the offset / length parameters by position (read_object(&self, key, offset, length)), followed into the crate's own
    # helper functions (`select_range(data, offset, length)`) and into closures (captured by name)
    base = [(body, {"offset": {3}, "length": {4}})]
    seen_h = {body.path}
    work = list(base)
    while work:
        m0, r0 = work.pop()
        rf0 = root_fn(m0)
        for mm in [m0] + facts.closures_of(m0.path):
            dum = du_of(mm)
            for bi, t in mm.calls():
                hb = facts.body(t.callee.target()) if t.callee is not None else None
                if hb is None or not hb.in_repo() or hb.kind == "closure" or hb.path in seen_h or hb.impl_trait == ADAPTER_TRAIT or len(seen_h) > 6:
                    continue
                hr = {"offset": set(), "length": set()}
                for i, a in enumerate(t.args):
                    at = dum.operand_term(a, 10)
                    for x in walk(at):
                        for rn in ("offset", "length"):
                            if x[0] == "param" and mm.kind != "closure" and x[1] in r0[rn]:
                                hr[rn].add(i + 1)
                            # inside a closure the parameter is a captured variable of the same name
                            if x[0] == "upvar" and mm.kind == "closure" and any(i_ <= rf0.argc and rf0.local_name(i_) == x[2] for i_ in r0[rn]):
                                hr[rn].add(i + 1)
                if hr["offset"] or hr["length"]:
                    seen_h.add(hb.path)
                    base.append((hb, hr))
                    work.append((hb, hr))
    members_r = []
    for m0, r0 in base:
        members_r.append((m0, r0))
        for cb in facts.closures_of(m0.path):
            members_r.append((cb, r0))
    members = [m for m, _ in members_r]

    def roles_in(t_, m, r):
        out = set()
        rf = root_fn(m)
        for x in walk(t_):
            for rn in ("offset", "length"):
                if x[0] == "param" and m.kind != "closure" and x[1] in r[rn]:
                    out.add(rn)
                if x[0] == "upvar" and m.kind == "closure" and any(i <= rf.argc and rf.local_name(i) == x[2] for i in r[rn]):
                    out.add(rn)
        return out
    found_len0 = False
    found_off0 = False
    found_sum = False
    found_start = False
    for m, r in members_r:
        du = du_of(m)
        for blk in m.blocks:
            if blk.cleanup:
                continue
            # `match (offset, length) { (0, 0) => whole, _ => range }`: the tests are integer switches with the arm 0
            tsw = blk.term
            if tsw.kind == "switch" and tsw.j.get("discr_ty") in ("usize", "u64", "u32") and any(v_ == 0 for v_, _ in tsw.j["targets"]):
                nm_sw = roles_in(du.operand_term(tsw.discr, 10), m, r)
                if "length" in nm_sw:
                    found_len0 = True
                if "offset" in nm_sw:
                    found_off0 = True
            for st in blk.stmts:
                if st.kind != "assign":
                    continue
                rv = st.rv
                if rv.kind == "binop":
                    a, c = rv.operands()
                    ta, tc = du.operand_term(a, 8), du.operand_term(c, 8)
                    names_a = roles_in(ta, m, r)
                    names_c = roles_in(tc, m, r)
                    if rv.j["op"] in ("Eq", "Ne"):
                        for nm, ot in ((names_a, c), (names_c, a)):
                            if ot.is_const() and ot.const_int() == 0:
                                if "length" in nm:
                                    found_len0 = True
                                if "offset" in nm:
                                    found_off0 = True
                    if rv.j["op"] in ("Add", "AddWithOverflow", "AddUnchecked"):
                        if ("offset" in names_a and "length" in names_c) or ("offset" in names_c and "length" in names_a):
                            found_sum = True
                if rv.kind == "agg" and rv.j.get("agg") == "adt" and rv.j.get("adt", "").endswith("ops::Range"):
                    ops = rv.operands()
                    if ops:
                        t0 = du.operand_term(ops[0], 8)
                        if "offset" in roles_in(t0, m, r):
                            found_start = True
                            # S4d: the slice starts at the offset itself, not at a position computed from it (offset % BLOCK inside a
                            # window of "the blocks that hold the sub-object": the window arithmetic is then part of the contract)
                            ar_ = sorted({x[1] for x in walk(t0) if x[0] == "binop" and x[1].replace("WithOverflow", "").replace("Unchecked", "") in
                                          ("Rem", "Div", "Sub", "Mul", "BitAnd", "Shr", "Shl")})
                            if ar_:
                                res.violation("S4", "%s|slice-start-derived-from-offset" % b.name(),
                                              "%s::read_object slices its buffer at a position computed from the offset (%s) instead of at the offset: "
                                              "the bytes returned depend on a window computation over partial contents" % (b.name(), ar_), m.loc(st.line))
                if rv.kind == "agg" and rv.j.get("variant") == "Start":
                    ops = rv.operands()
                    if ops and "offset" in roles_in(du.operand_term(ops[0], 10), m, r):
                        found_start = True
        for bi, t in m.calls():
            # vec![0; length] + read_exact: the length parameter sizes the buffer
            if t.callee is not None and t.callee.name in ("from_elem",) and len(t.args) >= 2:
                if "length" in roles_in(du.operand_term(t.args[1], 8), m, r):
                    found_sum = found_sum or found_start or True
    # S4b: no short reads: `Read::read` returns after an arbitrary number of bytes; only read_exact / read_to_end deliver
    # the requested range
    for m in members:
        for bi, t in m.calls():
            c = t.callee
            if c is not None and c.name == "read" and (c.trait == "std::io::Read" or "std::io::Read" in (c.full or "")):
                res.violation("S4", "%s|short-read" % b.name(),
                              "%s::read_object calls Read::read, which may return fewer bytes than requested (use read_exact / read_to_end): "
                              "a ranged read of a large value would come back partly zero-filled" % b.name(), m.loc(t.line))
    # S4c: an explicit bounds test refuses a slice only when it really exceeds the value: offset + length == len is in range
    from ..common import assigns_of_return as _aor
    members_r_map = [(m_.path, r_) for m_, r_ in members_r]
    for m in members:
        for ob, st in _aor(m, "Err"):
            for l in lits_of(m, ob, facts):
                if l.kind != "cmp" or l.truth is None:
                    continue
                op, a_, c_ = l.term[1], l.term[2], l.term[3]

                def is_end(t_, _m=m):
                    nm = roles_in(t_, _m, dict(members_r_map).get(_m.path, {"offset": set(), "length": set()}))
                    return "offset" in nm and "length" in nm
                def is_len(t_):
                    return any(x[0] == "call" and callee_name(x) == "len" for x in walk(t_))
                if not ((is_end(a_) and is_len(c_)) or (is_end(c_) and is_len(a_))):
                    continue
                eq_result = {"Gt": False, "Lt": False, "Ge": True, "Le": True, "Eq": True, "Ne": False}.get(op.replace("WithOverflow", ""))
                refuses_equal = eq_result is not None and (eq_result == l.truth)
                res.instance("S4", "%s::read_object: bounds test `%s` (taken: %s) refuses the slice that ends exactly at the end of the value: %s" % (
                    b.name(), op, l.truth, refuses_equal), m.loc(st.line))
                if refuses_equal:
                    res.violation("S4", "%s|in-range-slice-refused" % b.name(),
                                  "%s::read_object returns an error when offset + length equals the length of the value (`%s`): the last byte / the "
                                  "explicit full range is an in-range slice that the sibling backends serve" % (b.name(), op), m.loc(st.line))
    ok = found_len0 and found_sum and found_start
    res.instance("S4", "%s::read_object: tests length==0:%s offset==0:%s; slice start=offset:%s end=offset+length:%s" % (
        b.name(), found_len0, found_off0, found_start, found_sum), body.loc())
    if not ok:
        res.violation("S4", "%s|ranged-read-shape" % b.name(),
                      "%s::read_object does not have the shape `whole iff length==0 else [offset..offset+length]` "
                      "(length==0 test:%s, start=offset:%s, end=offset+length:%s)" % (b.name(), found_len0, found_start, found_sum), body.loc())


# ------------------------------------------------------------------------------ S5
def check_consumers(facts, res):
    pe = facts.const_str("constants::PACK_EXTENSION")
    n = 0
    for name in ("datastorage::DataStorage::reload", "datastorage::DataStorage::refresh"):
        b = facts.body(name)
        if b is None:
            continue
        listed = None
        lister_ = roles_of(facts).name("lister")
        for bi, t in b.calls():
            if t.callee is not None and ((t.callee.trait == ADAPTER_TRAIT and t.callee.name == "list_objects") or
                                         (t.callee.name == lister_ and t.callee.impl_adt == "datastorage::DataStorage")):
                # the backend's listing, directly or through the storage's own pass-through (`self.list_raw_items(ext)`)
                ls = [x[2] for x in walk(arg_term(b, t, 1, 8)) if x[0] == "const" and x[1] == "str"]
                listed = ls[0] if ls else None
        loader = roles_of(facts).body("pack_loader")
        appended = None
        if loader is not None:
            for bi, t in loader.calls():
                if t.callee is not None and t.callee.trait == ADAPTER_TRAIT and t.callee.name == "read_object":
                    k = arg_term(loader, t, 1, 44)
                    cs = [x[2] for x in walk(k) if x[0] == "const" and x[1] == "str"]
                    pk = any(x[0] == "param" and x[1] == 2 for x in walk(k))
                    appended = cs[0] if cs and pk else None
        cg_ = cg_of(facts)
        plp = roles_of(facts).path("pack_loader")
        uses_loader = any((not s_.fanout) and any(t_.path == plp or cg_.reaches(t_, plp) for t_ in s_.targets) and
                          any(contains_call(arg_term(b, s_.term, i_, 30), "list_objects", lister_) for i_ in range(1, len(s_.term.args)))
                          for s_ in cg_.sites[b.path])
        if not uses_loader:
            # pipeline form: the listed names are consumed by a closure (`list.iter().try_for_each(|id| self.load(id))`) that hands its
            # element to the pack loader
            for s_ in cg_.sites[b.path]:
                if s_.closures and s_.term.args and contains_call(arg_term(b, s_.term, 0, 30), "list_objects", lister_):
                    for cb_ in s_.closures:
                        for cs_ in cg_.sites[cb_.path]:
                            if (not cs_.fanout) and any(t_.path == plp or cg_.reaches(t_, plp) for t_ in cs_.targets) and \
                                    any(any(x[0] == "param" and x[1] >= 2 for x in walk(arg_term(cb_, cs_.term, i_, 20))) for i_ in range(1, len(cs_.term.args))):
                                uses_loader = True
        n += 1
        ok = listed is not None and listed == appended == pe and uses_loader
        res.instance("S5", "%s lists with %r, loader appends %r to the listed (stripped) name: %s" % (name, listed, appended, ok), b.loc())
        if not ok:
            res.violation("S5", "%s|extension-mismatch" % name,
                          "%s lists packs with %r but the loader re-appends %r (PACK_EXTENSION=%r); listed names must arrive stripped" % (name, listed, appended, pe), b.loc())
    res.floor("S5", "pack listing consumers", n, 2)

    # ------------------------------------------------------------------ S6 whole-buffer I/O
    # io::Write::write / io::Read::read may transfer only part of the buffer and report how much; a backend that discards the
    # count stores (or returns) a prefix of the value under the full value's key. Accepted: the *_all / *_exact / *_to_end
    # forms, or a call whose count is used (feeds an arithmetic / comparison / slicing operation: a hand-written loop).
    from ..flows import flow_of
    res.rule("S6", "backends transfer whole buffers: no io::Write::write / io::Read::read whose returned count is discarded")
    n6 = 0
    for b in facts.repo_bodies():
        for bi, t in b.calls():
            c = t.callee
            if c is None or not ("io::Write" in c.path or "io::Read" in c.path):
                continue
            n6 += 1
            if c.name not in ("write", "read", "write_vectored", "read_vectored", "read_buf"):
                continue
            fl = flow_of(b)
            derived = {n_[1] for n_ in fl.E if n_[0] == "l" and ("call", bi) in fl.sources([n_])}
            used = False
            for blk in b.blocks:
                if blk.cleanup:
                    continue
                for st in blk.stmts:
                    if st.kind == "assign" and st.rv.kind in ("binop", "checked_binop") and any(
                            o.place is not None and o.place.local in derived for o in st.rv.operands()):
                        used = True
                    if st.kind == "assign" and any(p_["k"] == "index" and p_.get("l") in derived for p_ in (st.place.proj or [])):
                        used = True
            res.instance("S6", "%s calls %s: returned count used: %s" % (b.path, c.name, used), b.loc(t.line))
            if not used:
                res.violation("S6", "%s|partial-io:%s" % (b.path, c.name),
                              "%s calls %s and discards the number of bytes transferred: %s may handle only part of the buffer, so a prefix of the value "
                              "would be stored (or returned) under the key of the whole value" % (b.path, c.path, c.name), b.loc(t.line))
    if any(b.path.startswith("<filesystemadapter::") for b in facts.repo_bodies()):
        res.floor("S6", "io::Read / io::Write calls in the crate (directory backend compiled in)", n6, 4)
    bs = [b for b in backends(facts) if b.name() != "SolidAdapter"]
    leaf = [b for b in bs if b.kind == "leaf"]
    from ..common import pass_anchors, bypassing_returns
    # S6b: no length-limiting adaptor between the stored bytes and the value handed back: `Read::take(n)` ends the stream after n bytes
    # without an error, so a value longer than the limit comes back as a prefix of what was written
    for b in bs:
        for m in ("read_object",):
            for body in b.reach(m):
                for bi, t in body.calls():
                    c = t.callee
                    if c is not None and c.name == "take" and ("io::Read" in c.path or "io::Read" in (c.trait or "")):
                        res.violation("S6", "%s|read-through-truncating-adaptor:take" % b.name(),
                                      "%s reads the stored value through io::Read::take: a value longer than the limit is silently cut, read returns a "
                                      "prefix of the first write" % body.path, body.loc(t.line))
    # S3d: a wrapper answers a read with what its delegate returned (decoded), never from state of its own: every successful return of
    # a wrapper's read_object passes through its delegation to the backend's read_object. A wrapper-level cache filled by write_object
    # holds the bytes of writes the backend ignored (the key existed): the read returns the second write.
    for b in [x for x in bs if x.kind == "wrapper"]:
        rb_ = b.methods.get("read_object")
        if rb_ is None:
            continue
        anchors = pass_anchors(facts, rb_, lambda t: t.callee is not None and t.callee.trait == ADAPTER_TRAIT and t.callee.name == "read_object", depth=2)
        if not anchors:
            continue        # reported by S3 (delegates-to)
        byp, oks = bypassing_returns(rb_, {min(anchors): anchors[min(anchors)]})
        res.instance("S3", "%s::read_object: every successful return passes through the backend's read_object: %s" % (b.name(), not byp), rb_.loc())
        if byp:
            res.violation("S3", "%s|read-answered-without-the-backend" % b.name(),
                          "%s::read_object can return Ok without having asked the backend (a cache or other state of the wrapper): what it returns "
                          "need not be the bytes of the first write to that key" % b.name(), rb_.loc())
    # S2c: a persistent leaf lists what the store holds *now*: every successful return of the directory backend's list_objects passes
    # through a read of the storage directory made by this very call (no listing served from a per-handle cache - another handle or a
    # file synchroniser may have added items that change nothing the cache is validated by)
    for b in leaf:
        lb = b.methods.get("list_objects")
        if lb is None:
            continue
        anchors = pass_anchors(facts, lb, lambda t: t.callee is not None and t.callee.name == "read_dir", depth=2)
        if not anchors:
            continue
        byp, oks = bypassing_returns(lb, {min(anchors): anchors[min(anchors)]})
        res.instance("S2", "%s::list_objects: every successful return passes through a read of the storage directory: %s" % (b.name(), not byp), lb.loc())
        if byp:
            res.violation("S2", "%s|listing-served-without-reading-the-store" % b.name(),
                          "%s::list_objects can answer without reading the storage directory in this call (a cached listing): items stored through "
                          "another handle, or copied in by a file synchroniser, are not listed" % b.name(), lb.loc())


FIXTURE_EXPECT = ['unguarded-map', 'no-suffix-strip', 'ranged-read-shape']


def thorough(res):
    from .. import engine
    engine.sensitivity("C17", res)
