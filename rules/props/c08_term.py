"""C08/R5 - termination: every loop and every recursion of the crate has a structural termination argument.

Loops (back edges of every body of the crate, test modules excluded):
  finite-iteration  the loop header is `Iterator::next` on an adaptor chain over a collection / directory listing (no unbounded
                    generator such as repeat / from_fn / successors / cycle / RangeFrom in the chain); Rust's borrow rules keep
                    the iterated collection from growing inside the loop
  parent-walk       every cycle through the header passes an assignment of the cursor from the payload of
                    RevisionTree::get_parent / RevisionTreeEntry::get_parent: the revision index strictly decreases along
                    parent links (R5c), so the walk reaches a revision without parent after at most `index` steps
  work-list         every cycle passes a pop of the work list and everything pushed inside the loop is an element of a block's
                    `parents`: the block index strictly decreases along parent links (C13/I2, enforced when a block is loaded),
                    so only finitely many paths of the finite block DAG are walked
Recursion (cycles of the call graph):
  dependency        the block checker recursing on an element of the held block's `parents` (index strictly decreasing)
  structural        flatten / unflatten recursing on a sub-value of their value parameter, or on an object *removed* from the
                    finite collection they consume
  delegation        a storage wrapper calling the same trait method on the backend it owns (finite ownership tree)
Anything else is reported (fail closed).

R5c (the ranking function exists): at every insertion into a revision tree with a parent, the inserted revision was built from that
parent by a constructor that sets index = parent.index + 1 (new_updated / new_deleted / new_resolved / new_empty, or
Revision::new(parent.index() + 1, .., Some(parent))); change records applied from blocks are built the same way by the loader."""
from ..cfg import cfg_of
from ..defuse import du_of, walk, peel, callee_name
from ..callgraph import cg_of
from ..roles import roles_of
from ..common import iter_chain, field_path

UNBOUNDED = {"repeat", "repeat_with", "from_fn", "successors", "cycle", "iterate", "repeat_n"}
CHILD_CTORS = {"new_updated": 2, "new_deleted": 1, "new_resolved": 1, "new_empty": 1}     # name -> index (1-based) of the parent argument
TREE_ADD = ("revisiontree::RevisionTree::add", "revisiontree::RevisionTree::unvalidated_add")


def _in_scope(b):
    return b.in_repo() and "::tests::" not in b.path and not b.path.endswith("::tests")


def _loop_blocks(cfg, h):
    return {x for x in cfg.reachable_blocks(h) if cfg.reaches(x, h)} | {h}


def _roots(t):
    """root variables / parameters a value is a view or copy of"""
    out, stack, n = set(), [t], 0
    while stack and n < 200:
        n += 1
        y = peel(stack.pop(), stop_var=True)
        if y[0] == "var":
            out.add(("var", y[1]))
            inner = peel(y[3], stop_var=True)
            if inner[0] in ("var", "param", "upvar", "phi", "agg", "field", "index"):
                stack.append(inner)
        elif y[0] in ("param", "upvar"):
            out.add((y[0], y[1]))
        elif y[0] == "agg" and y[2] == "Some" and y[3]:
            stack.append(y[3][0])
        elif y[0] == "phi":
            stack.extend(y[1])
        elif y[0] in ("field", "index", "downcast"):
            stack.append(y[1])
    return out


def check(facts, res):
    res.rule("R5", "every loop and recursion has a termination argument (finite iteration, parent walk, work list over the block DAG, "
                   "structural recursion, wrapper delegation) and the ranking function exists (index = parent.index + 1 at every tree insertion)")
    cg = cg_of(facts)
    R = roles_of(facts)
    n_loops = {"finite-iteration": 0, "parent-walk": 0, "work-list": 0}
    for b in facts.bodies:
        if not _in_scope(b):
            continue
        cfg = cfg_of(b)
        du = du_of(b)
        for h in sorted(cfg.loop_headers()):
            t = b.blocks[h].term
            c = t.callee if t.kind == "call" else None
            if c is not None and c.name == "next" and (c.trait or "").endswith("Iterator") and t.args:
                chain = iter_chain(du.operand_term(t.args[0], 30))
                names = {callee_name(x) for x in chain}
                st = (c.self_ty or "") + " " + (c.full or "")
                crate_iter = any((x[4] is not None and x[4].impl_self and facts.body(x[1]) is not None and facts.body(x[1]).in_repo() and
                                  callee_name(x) == "next") for x in chain)
                # `successors(Some(rev), |r| tree.get_parent(r))` is the parent walk written as an iterator: it ends where the loop form
                # ends (each step moves to the recorded parent, whose index is smaller: R5c)
                succ_walk = False
                if (names & UNBOUNDED) == {"successors"}:
                    for x in chain:
                        if callee_name(x) == "successors" and len(x[2]) >= 2:
                            cl = [y for y in walk(x[2][1]) if y[0] == "closure"]
                            cbs = facts.body(cl[0][1]) if cl else None
                            if cbs is not None:
                                rt_ = du_of(cbs).local_term(0, 14)
                                gpc = [y for y in walk(rt_) if y[0] == "call" and callee_name(y) == "get_parent" and y[4] is not None and "revisiontree::" in y[4].target()]
                                succ_walk = bool(gpc) and all(any(z[0] == "param" and z[1] == 2 for z in walk(g[2][1])) for g in gpc if len(g[2]) > 1)
                if succ_walk:
                    n_loops["parent-walk"] += 1
                    res.instance("R5", "%s: parent walk written as successors(.., |r| get_parent(r)): every step moves to the recorded parent" % b.path, b.loc(t.line))
                    continue
                if (names & UNBOUNDED) or "RangeFrom" in st or "iter::Repeat" in st or "iter::FromFn" in st or "iter::Successors" in st or crate_iter:
                    res.violation("R5", "%s|unbounded-iteration" % b.path,
                                  "%s loops over an iterator that has no end by construction (%s): the operation may never return" % (
                                      b.path, sorted(names & UNBOUNDED) or st[:60]), b.loc(t.line))
                else:
                    n_loops["finite-iteration"] += 1
                    res.instance("R5", "%s: loop over a finite iteration (%s)" % (b.path, (c.self_ty or "").split("<")[0][:60]), b.loc(t.line), nontrivial=False)
                continue
            loop = _loop_blocks(cfg, h)
            calls = [(bi, b.blocks[bi].term) for bi in sorted(loop) if b.blocks[bi].term.kind == "call" and b.blocks[bi].term.callee is not None]
            # ---- parent walk
            gp = [bi for bi, tt in calls if tt.callee.name == "get_parent" and "revisiontree::" in tt.callee.target()]
            if gp:
                # the cursor: a loop-carried revision variable that feeds the get_parent call (directly, or through the lookup of
                # the entry get_parent is called on); a step assigns it from the payload of that call
                cursors = set()
                for gb in gp:
                    for a_ in b.blocks[gb].term.args:
                        for x in walk(du.operand_term(a_, 12)):
                            if x[0] == "var" and b.local_ty(x[1]).replace("&", "").strip().endswith("revision::Revision"):
                                ds = du.defs.get(x[1], [])
                                if any(d.block in loop for d in ds) and any(d.block not in loop for d in ds):
                                    cursors.add(x[1])
                steps = set()
                for bi in loop:
                    for st_ in b.blocks[bi].stmts:
                        if st_.kind == "assign" and not st_.place.proj and st_.rv.kind in ("use", "ref") and st_.place.local in cursors:
                            vt = du.rvalue_term(st_.rv, 10)
                            if any(x[0] == "call" and x[3] in gp and callee_name(x) == "get_parent" for x in walk(vt)):
                                steps.add(bi)
                ok = bool(steps) and not cfg.reaches(h, h, avoid=steps)
                res.instance("R5", "%s: parent walk: every cycle advances the cursor to RevisionTree parent of the current revision: %s" % (b.path, ok), b.loc(t.line))
                if ok:
                    n_loops["parent-walk"] += 1
                else:
                    res.violation("R5", "%s|walk-without-progress" % b.path,
                                  "%s has a loop that follows parent links but can go round without moving the cursor to the parent: it may never return" % b.path, b.loc(t.line))
                continue
            # ---- work list
            pops = [bi for bi, tt in calls if tt.callee.name in ("pop_front", "pop_back", "pop")]
            if pops:
                ok_cycle = not cfg.reaches(h, h, avoid=set(pops))
                bad_push = []
                for bi, tt in calls:
                    if tt.callee.name in ("push_back", "push_front", "push", "extend", "append", "insert") and tt.args and len(tt.args) >= 2:
                        recv = du.operand_term(tt.args[0], 8)
                        pr = _roots(du.operand_term(b.blocks[pops[0]].term.args[0], 8))
                        if not (_roots(recv) & pr):
                            continue
                        v = du.operand_term(tt.args[1], 30)
                        if not any(x[0] == "field" and x[2] == "parents" for x in walk(v)):
                            bad_push.append(tt.line)
                ok = ok_cycle and not bad_push
                res.instance("R5", "%s: work-list loop: every cycle pops an element (%s); only parents of the popped block are pushed inside the loop (%s)" % (
                    b.path, ok_cycle, not bad_push), b.loc(t.line))
                if ok:
                    n_loops["work-list"] += 1
                else:
                    res.violation("R5", "%s|work-list-without-progress" % b.path,
                                  "%s has a work-list loop that %s: it may never return" % (
                                      b.path, "can go round without popping" if not ok_cycle else "pushes something other than the parents of the popped block (line %s)" % bad_push), b.loc(t.line))
                continue
            res.violation("R5", "%s|unclassified-loop" % b.path,
                          "%s has a loop (header at line %s) that is neither a finite iteration, a parent walk nor a work list over the block graph: "
                          "no termination argument (fail closed)" % (b.path, t.line), b.loc(t.line))
    res.floor("R5", "finite-iteration loops", n_loops["finite-iteration"], 20)
    res.floor("R5", "parent-walk loops (array reconstruction, root reachability)", n_loops["parent-walk"], 1)

    # ------------------------------------------------------------------ recursion
    G = {}
    for b in facts.bodies:
        if not _in_scope(b):
            continue
        G[b.path] = set()
        for s in cg.sites[b.path]:
            for tb in s.targets + s.closures:
                if _in_scope(tb):
                    G[b.path].add(tb.path)
    comps = _sccs(G)
    n_rec = 0
    marker = R.path("marker")
    for comp in comps:
        n_rec += 1
        roots = sorted({(facts.body(p).parent if facts.body(p).kind == "closure" and facts.body(p).parent else p) for p in comp})
        members = [facts.body(p) for p in comp]
        rec_sites = []
        for m in members:
            for s in cg.sites[m.path]:
                if any(tb.path in comp for tb in s.targets) and not any(tb.path in comp for tb in s.closures if tb not in s.targets):
                    rec_sites.append((m, s))
                elif any(tb.path in comp for tb in s.targets):
                    rec_sites.append((m, s))
        kind = None
        why = ""
        if all(facts.body(r) is not None and facts.body(r).impl_trait == "adapter::Adapter" for r in roots):
            # wrapper delegation: the receiver of the recursive call is (a view of) a field of self / the boxed backend
            ok = True
            for m, s in rec_sites:
                recv = du_of(m).operand_term(s.term.args[0], 20) if s.term.args else ("cut",)
                fp, root = field_path(recv)
                if not (fp or any(x[0] == "call" and callee_name(x) in ("read", "write", "lock", "deref") for x in walk(recv))) or \
                        not any(x[0] == "param" and x[1] == 1 for x in walk(recv)):
                    ok = False
            kind, why = ("delegation", "each wrapper method calls the same method on the backend it owns") if ok else (None, "a wrapper method does not delegate to a field of self")
        elif marker in roots and len(roots) == 1:
            ok = True
            for m, s in rec_sites:
                if not any(tb.path == marker for tb in s.targets):
                    continue
                a = du_of(m).operand_term(s.term.args[1], 30) if len(s.term.args) > 1 else ("cut",)
                from_parents = any(x[0] == "field" and x[2] == "parents" for x in walk(a)) or \
                    (m.kind == "closure" and any(x[0] == "param" and x[1] == 2 for x in walk(a)) and _closure_over_parents(facts, cg, m))
                ok = ok and from_parents
            kind, why = ("dependency", "the block checker recurses on an element of the held block's parents") if ok else (None, "the recursive argument is not an element of `parents`")
        else:
            # structural recursion, possibly spread over several functions (`flatten -> flatten_object -> flatten_field ->
            # flatten`): every call inside the component hands over values of the caller; an edge makes *progress* when some
            # argument is a strict sub-value of one of the caller's values (the payload of a matched variant, an element, a field)
            # or an object removed from the collection being consumed; an edge that merely passes values on is allowed as long
            # as the pass-on edges alone form no cycle (every cycle contains a progress edge)
            ok = True
            pass_edges = []
            for m, s in rec_sites:
                tgt = [tb for tb in s.targets if tb.path in comp and tb.kind != "closure"]
                if not tgt:
                    continue        # a call that merely passes the recursive closure on (map / filter_map / for_each)
                vals = [du_of(m).operand_term(a, 30) for a in s.term.args]
                progress = False
                known = True
                for v in vals:
                    consumed = any(x[0] == "call" and callee_name(x) == "remove" for x in walk(v))
                    # values of the caller other than the collection being consumed (a lookup in the collection is not a sub-value)
                    rm_ = facts.body(m.parent) if m.kind == "closure" and m.parent and facts.body(m.parent) is not None else m

                    def is_coll(y, _m=m, _rm=rm_):
                        """y denotes the collection being consumed (a `&mut HashMap` parameter, possibly captured)"""
                        if y[0] == "param" and y[1] < len(_m.locals):
                            return "HashMap<" in _m.local_ty(y[1])
                        if y[0] == "upvar":
                            return any("HashMap<" in _rm.local_ty(i_) for i_ in range(1, _rm.argc + 1) if _rm.local_name(i_) == y[2])
                        return False
                    from_own = any(x[0] in ("param", "upvar") and not is_coll(x) for x in walk(v)) and \
                        not any(x[0] == "call" and callee_name(x) in ("get", "get_mut") and x[2] and any(is_coll(y) for y in walk(x[2][0])) for x in walk(v))
                    if m.kind != "closure":
                        sub = from_own and any(x[0] in ("downcast", "index") or (x[0] == "call" and callee_name(x) in ("next", "get", "as_array", "as_object", "iter", "values")) for x in walk(v))
                    else:
                        sub = any(x[0] == "param" and x[1] == 2 for x in walk(v)) and _closure_over_subvalues(facts, cg, m)
                    if sub or consumed:
                        progress = True
                root_m = (m.parent if m.kind == "closure" and m.parent else m.path)
                if not progress:
                    pass_edges.append((root_m, tgt[0].path))
            # pass-on edges must not form a cycle
            pg = {}
            for a_, b2 in pass_edges:
                pg.setdefault(a_, set()).add(b2)
            if _sccs(pg):
                ok = False
            kind, why = ("structural", "recursion on a sub-value of the caller's value or on an object removed from the consumed collection; pass-on edges: %d, acyclic" % len(pass_edges)) if ok else \
                (None, "the calls that pass values on unchanged form a cycle (%s)" % pass_edges)
        res.instance("R5", "recursion %s: %s (%s)" % (roots, kind or "UNCLASSIFIED", why), facts.body(roots[0]).loc() if facts.body(roots[0]) else None)
        if kind is None:
            res.violation("R5", "%s|unclassified-recursion" % roots[0],
                          "the recursion through %s has no termination argument: %s (fail closed)" % (roots, why), facts.body(roots[0]).loc() if facts.body(roots[0]) else None)
    res.floor("R5", "recursive call-graph components (block checker, flatten, unflatten, storage wrappers)", n_rec, 3)

    # ------------------------------------------------------------------ R5c the ranking function
    n_ins = 0
    work = []
    for b in facts.bodies:
        if not _in_scope(b) or b.impl_adt == "revisiontree::RevisionTree":
            continue
        for bi, t in b.calls():
            if t.callee is not None and t.callee.target() in TREE_ADD and len(t.args) >= 3:
                du = du_of(b)
                work.append((b, t.line, du.operand_term(t.args[1], 30), du.operand_term(t.args[2], 30), 0))
    seen = set()
    while work:
        b, line, rev, par, depth = work.pop()
        key = (b.path, line, depth)
        if key in seen:
            continue
        seen.add(key)
        verdict = _child_of(rev, par, b, facts)
        if verdict == "no-parent":
            continue
        n_ins += 1
        if verdict == "ok":
            res.instance("R5", "%s: the inserted revision is built from its parent by an index+1 constructor" % b.path, b.loc(line))
            continue
        if verdict == "record":
            # (revision, parent) are fields 1 / 2 of a change record: the obligation moves to the sites building records
            res.instance("R5", "%s: inserts the (revision, parent) pair of a change record; records are checked where they are built" % b.path, b.loc(line), nontrivial=False)
            continue
        if verdict == "params" and depth < 2 and not b.public:
            # a private helper handed (revision, parent): the obligation moves to its callers
            callers = [s for s in cg.callers_of(b.path) if s.body.path != b.path]
            if callers:
                from ..defuse import subst
                for s in callers:
                    mp = {i + 1: du_of(s.body).operand_term(a, 30) for i, a in enumerate(s.term.args)}
                    work.append((s.body, s.term.line, subst(rev, mp), subst(par, mp), depth + 1))
                continue
        res.violation("R5", "%s|inserted-revision-not-child-of-parent" % b.path,
                      "%s inserts a revision with a parent that it was not built from by an index+1 constructor: the revision index no longer "
                      "decreases strictly along parent links, so the parent walks (root reachability, array reconstruction) have no bound" % b.path, b.loc(line))
    # change records: Change(uuid, rev, Some(prev)) aggregates
    n_rec_sites = 0
    for b in facts.bodies:
        if not _in_scope(b) or b.impl_trait in ("std::clone::Clone",):
            continue
        du = du_of(b)
        for blk in b.blocks:
            if blk.cleanup:
                continue
            for st in blk.stmts:
                if st.kind == "assign" and st.rv.kind == "agg" and st.rv.j.get("adt") == "melda::Change":
                    ops = st.rv.operands()
                    if len(ops) < 3:
                        continue
                    rev, par = du.operand_term(ops[1], 30), du.operand_term(ops[2], 30)
                    verdict = _child_of(rev, par, b, facts)
                    if verdict == "no-parent":
                        continue
                    n_rec_sites += 1
                    # the parent is read from a tree entry (RevisionTreeEntry::get_parent): the pair is an entry of a revision map,
                    # inserted earlier under the invariant
                    from_tree = any(x[0] == "call" and callee_name(x) == "get_parent" and "RevisionTreeEntry" in (x[1] or "") for x in walk(par))
                    ok = verdict == "ok" or from_tree
                    res.instance("R5", "%s: change record (revision, parent): %s" % (
                        b.path, "copied from a tree entry" if from_tree else "revision built from the parent by an index+1 constructor" if ok else "UNRELATED"), b.loc(st.line))
                    if not ok:
                        res.violation("R5", "%s|record-revision-not-child-of-parent" % b.path,
                                      "%s builds a change record whose revision is not derived from its parent by an index+1 constructor" % b.path, b.loc(st.line))
    res.floor("R5", "tree insertions with a parent", n_ins, 3)
    res.floor("R5", "change-record construction sites with a parent", n_rec_sites, 1)


def _closure_over_parents(facts, cg, m):
    for s in cg.callers_of(m.path):
        if m in s.closures and s.term.args:
            recv = du_of(s.body).operand_term(s.term.args[0], 30)
            if any(x[0] == "field" and x[2] == "parents" for x in walk(recv)):
                return True
    return False


def _closure_over_subvalues(facts, cg, m):
    for s in cg.callers_of(m.path):
        if m in s.closures and s.term.args:
            recv = du_of(s.body).operand_term(s.term.args[0], 30)
            if any(x[0] in ("param", "upvar") for x in walk(recv)) and \
                    any(x[0] == "downcast" or (x[0] == "call" and callee_name(x) in ("iter", "values", "as_array", "as_object", "into_iter")) for x in walk(recv)):
                return True
    return False


def _child_of(rev, par, b, facts):
    """'no-parent' | 'ok' | 'record' | 'params' | 'bad'"""
    p = peel(par, stop_var=False)
    if p[0] == "agg" and p[2] == "None":
        return "no-parent"
    if p[0] == "const":
        return "no-parent"
    proots = _roots(par)
    # fields 1 / 2 of one change record
    rf = [x for x in walk(rev) if x[0] == "field" and len(x) > 3 and (x[3] or "").endswith("Change")]
    pf = [x for x in walk(par) if x[0] == "field" and len(x) > 3 and (x[3] or "").endswith("Change")]
    if rf and pf and any(x[2] == "1" for x in rf) and any(x[2] == "2" for x in pf):
        return "record"
    for x in walk(rev):
        if x[0] != "call":
            continue
        n = callee_name(x)
        if x[1].startswith("revision::Revision::") and n in CHILD_CTORS:
            pa = x[2][CHILD_CTORS[n] - 1] if len(x[2]) >= CHILD_CTORS[n] else None
            if pa is not None and (_roots(pa) & proots):
                return "ok"
        if x[1] == "revision::Revision::new" and len(x[2]) >= 3:
            idx, pa = x[2][0], x[2][2]
            plus1 = any((y[0] == "binop" and y[1].startswith("Add") and any(z[0] == "const" and z[2] == 1 for z in (y[2], y[3]))) or
                        (y[0] == "call" and callee_name(y) in ("checked_add", "saturating_add") and any(z[0] == "const" and z[2] == 1 for z in y[2]))
                        for y in walk(idx))
            idx_of_parent = any(y[0] == "call" and callee_name(y) == "index" and (_roots(y[2][0]) & proots) for y in walk(idx) if y[0] == "call" and y[2]) or \
                any(y[0] == "field" and y[2] == "index" and (_roots(y[1]) & proots) for y in walk(idx))
            if plus1 and idx_of_parent and (_roots(pa) & proots):
                return "ok"
    rr = _roots(rev)
    if rr and proots and all(k[0] == "param" for k in rr | proots) and b.kind != "closure":
        return "params"
    return "bad"


def _sccs(G):
    import sys
    sys.setrecursionlimit(20000)
    idx, low, st, on, out, c = {}, {}, [], set(), [], [0]

    def sc(v):
        idx[v] = low[v] = c[0]
        c[0] += 1
        st.append(v)
        on.add(v)
        for w in sorted(G.get(v, ())):
            if w not in idx:
                sc(w)
                low[v] = min(low[v], low[w])
            elif w in on:
                low[v] = min(low[v], idx[w])
        if low[v] == idx[v]:
            comp = []
            while True:
                w = st.pop()
                on.discard(w)
                comp.append(w)
                if w == v:
                    break
            if len(comp) > 1 or v in G.get(v, ()):
                out.append(set(comp))
    for v in sorted(G):
        if v not in idx:
            sc(v)
    return out
