"""C09 - Commit and meld are atomic with respect to crashes and write failures (ordering argument)."""
from ..cfg import cfg_of
from ..defuse import du_of, walk, peel, callee_name, fmt
from ..conds import lits_of, success_dominates
from ..callgraph import cg_of
from ..roles import roles_of
from ..common import arg_term, contains_call, call_named, field_path, ADAPTER_TRAIT, is_adapter_impl, MUTATORS, assigns_of_return

TEXT = ("Ordering (must-precede / dominance) rules that replace crash-point enumeration under the property's own "
        "assumption that a single item write is atomic. O1: in commit exactly two call sites reach a raw storage "
        "write, neither in a loop, and the block write is dominated by the pack write *and* by the success edge of its "
        "`?`. O2: in the pack writer every mutation of stage / object index / applied-pack set happens after the "
        "success edge of the adapter write. O3: trees leave the staged state and the block enters the block map only "
        "after the success edge of the block write. O4: no Result of a raw write is dropped anywhere outside the "
        "backends (propagated with `?`, returned, matched, or tested with is_ok for meld's per-item copies). O5: each "
        "meld write copies one source item (key and bytes derive from the same element). Together with C02 (blocks "
        "whose dependencies did not arrive are ignored) this is the whole atomicity argument for commit; does not "
        "decide byte-identity of a retry after the second write failed. O6: a raw writer (pack writer, raw item writer) reports success only on paths through its adapter write; the accepted bypasses are `nothing staged` and a memo filled exclusively behind the success edge of that write. O7: every atomic flag of the replica that commit changes is written again on every path to a return, error exits included.")
TECHNIQUE = 'static analysis over rustc MIR: must-precede (success-edge dominance) of pack write, block write and in-memory state changes; dropped-Result detection; per-item provenance of meld copies'
TRUSTED = ["rustc nightly MIR", "single-item adapter writes are atomic (the property's assumption)", "C02 gating of incomplete blocks"]


def raw_writer_bodies(facts):
    """bodies outside the backends that call <dyn Adapter>::write_object directly"""
    out = []
    for b in facts.repo_bodies():
        if is_adapter_impl(b) or b.file.endswith("adapter.rs"):
            continue
        for bi, t in b.calls():
            if t.callee is not None and t.callee.trait == ADAPTER_TRAIT and t.callee.name == "write_object":
                out.append(b)
                break
    # ... and the pack writer when it goes through the storage's raw writer
    pw = roles_of(facts).body("pack_writer")
    if pw is not None and pw not in out:
        out.append(pw)
    return out


def sites_reaching_writer(facts, body, writers):
    cg = cg_of(facts)
    wp = {w.path for w in writers}
    out = []
    for s in cg.sites[body.path]:
        if s.fanout or s.callee is None:
            continue
        for t in s.targets:
            if t.path in wp or any(cg.reaches(t, p) for p in wp):
                out.append(s)
                break
    return out


def run(facts, res):
    R = roles_of(facts)
    cg = cg_of(facts)
    res.rule("O1", "commit: pack write (and its success) dominates the block write; exactly two raw-write sites, none in a loop")
    res.rule("O2", "pack writer: stage / index / applied-pack mutations only after the adapter write succeeded")
    res.rule("O3", "commit: RevisionTree::commit and deltas.insert only after the block write succeeded")
    res.rule("O4", "no Result of a raw storage write is dropped")
    res.rule("O5", "meld: each raw write copies exactly one source item (key and bytes from the same element)")
    writers = raw_writer_bodies(facts)
    res.floor("O1", "raw writer functions outside backends (pack writer, raw item writer)", len(writers), 2)
    res.note("raw writers: " + ", ".join(w.path for w in writers))
    c = facts.body("melda::Melda::commit")
    if c is None:
        res.floor("O1", "commit anchor", 0, 1)
        return
    cfg = cfg_of(c)
    sites = sites_reaching_writer(facts, c, writers)
    res.instance("O1", "commit: call sites reaching a raw write: %s" % [(s.name(), s.loc()) for s in sites], c.loc())
    if len(sites) != 2:
        res.violation("O1", "commit|raw-write-sites:%d" % len(sites),
                      "commit has %d call sites that reach a raw storage write (expected exactly: pack, block): %s" % (
                          len(sites), [(s.name(), s.loc()) for s in sites]), c.loc())
    for cb in facts.closures_of(c.path):
        extra = sites_reaching_writer(facts, cb, writers)
        for s in extra:
            res.violation("O1", "commit|raw-write-in-closure", "commit performs a raw storage write inside closure %s" % cb.path, s.loc())
    block_sites = [s for s in sites if len(s.term.args) > 1 and contains_call(arg_term(c, s.term, 1, 30), "melda::DeltaId::key")]
    pack_sites = [s for s in sites if s not in block_sites]
    for s in sites:
        if cfg.in_loop(s.block):
            res.violation("O1", "commit|raw-write-in-loop:%s" % s.name(), "commit performs the raw write %s inside a loop" % s.name(), s.loc())
    if len(block_sites) == 1 and len(pack_sites) == 1:
        bs, ps = block_sites[0], pack_sites[0]
        dom = cfg.dominates(ps.block, bs.block)
        succ = success_dominates(c, ps.block, bs.block, facts)
        res.instance("O1", "commit: %s [%s] dominates %s [%s]: %s; through its success edge: %s" % (
            ps.name(), ps.loc(), bs.name(), bs.loc(), dom, succ), bs.loc())
        if not (dom and succ):
            res.violation("O1", "commit|block-before-pack",
                          "commit can write the block (%s) without the pack write (%s) having succeeded first "
                          "(dominates: %s, success edge: %s): a crash in between leaves a block referencing a missing pack" % (
                              bs.loc(), ps.loc(), dom, succ), bs.loc())
        # the block references exactly the pack written here
        dl = [st for blk in c.blocks for st in blk.stmts if st.kind == "assign" and st.rv.kind == "agg" and st.rv.j.get("adt") == "melda::Delta"]
        okp = False
        for st in dl:
            f = st.rv.j["fields"]
            t = du_of(c).operand_term(st.rv.operands()[f.index("packs")], 30)
            if any(x[0] == "call" and x[3] == ps.block for x in walk(t)):
                okp = True
        res.instance("O1", "commit: the block's pack list derives from the result of the pack write: %s" % okp, ps.loc())
        if not okp:
            res.violation("O1", "commit|block-does-not-reference-written-pack", "the committed block's `packs` does not derive from the pack written by this commit", ps.loc())
    else:
        res.violation("O1", "commit|cannot-identify-pack-and-block",
                      "cannot identify one pack write and one block write (key from DeltaId::key) in commit: %s" % [(s.name(), s.loc()) for s in sites], c.loc())

    # ------------------------------------------------------------------ O2
    n2 = 0
    for w in writers:
        wsites = [(bi, t) for bi, t in w.calls() if t.callee is not None and t.callee.trait == ADAPTER_TRAIT and t.callee.name == "write_object"]
        if not wsites:
            # the writer goes through the storage's raw writer (role raw_write): that call is the write
            wsites = [(bi, t) for bi, t in w.calls() if t.callee is not None and t.callee.target() == R.path("raw_write")]
        wcfg = cfg_of(w)
        muts = []
        for bi, t in w.calls():
            cal = t.callee
            if cal is None or not t.args:
                continue
            if cal.name in MUTATORS:
                fp, root = field_path(arg_term(w, t, 0))
                if fp and fp[0] in ("stage", "committed_objects", "applied_pack_ids") and peel(root)[0] == "param" and \
                        not (cal.name in ("push", "push_str", "extend_from_slice") and fp[0] == "stage"):
                    # (a push whose receiver merely *derives* from the stage - a buffer filled while iterating it - is not a mutation of it)
                    muts.append((bi, t, fp[0], w))
        for s in cg.sites[w.path]:
            for cb in s.closures:
                for bi, t in cb.calls():
                    cal = t.callee
                    if cal is not None and cal.name in MUTATORS and t.args:
                        r = arg_term(cb, t, 0)
                        hit = [x for x in walk(r) if (x[0] == "upvar" and x[2].split(".")[-1] in ("stage", "committed_objects", "applied_pack_ids", "self"))
                               or (x[0] == "field" and x[2] in ("stage", "committed_objects", "applied_pack_ids"))]
                        if hit:
                            fld = [x[2] for x in walk(r) if x[0] == "field" and x[2] in ("stage", "committed_objects", "applied_pack_ids")]
                            muts.append((s.block, s.term, (fld or ["self.*"])[0] + " (in closure)", w))
        for (bi, t, fld, _) in muts:
            n2 += 1
            ok = bool(wsites) and all(success_dominates(w, wb, bi, facts) for wb, _ in wsites)
            res.instance("O2", "%s: %s on %s only after the adapter write succeeded: %s" % (w.path, t.callee.name, fld, ok), w.loc(t.line))
            if not ok:
                res.violation("O2", "%s|state-changed-before-write-succeeded:%s" % (w.path, fld.split(" ")[0]),
                              "%s mutates %s (%s) on a path where the adapter write has not (yet) succeeded: after a failed "
                              "commit the staged changes would be gone" % (w.path, fld, t.callee.name), w.loc(t.line))
    res.floor("O2", "state mutations in raw writers", n2, 1)

    # ------------------------------------------------------------------ O6 a raw writer answers Ok only through its adapter write
    # A success that does not pass the adapter's write is a success without a durable item: a memo of keys "already handed to the adapter"
    # filled before the write, or a remembered pack identifier returned again, makes the retry after a failure a no-op that reports success.
    # Accepted: the pack writer's `nothing staged` answer, and a memo filled only after the adapter write succeeded.
    from ..common import pass_anchors, bypassing_returns
    from ..conds import unaccepted
    res.rule("O6", "raw writers report success only through the adapter write (or with nothing staged / a memo filled after a successful write)")
    n6 = 0
    for w in writers:
        anchors = pass_anchors(facts, w, lambda t: t.callee is not None and ((t.callee.trait == ADAPTER_TRAIT and t.callee.name == "write_object") or
                                                                           (w.path != R.path("raw_write") and t.callee.target() == R.path("raw_write"))), depth=3)
        if not anchors:
            continue
        byp, oks = bypassing_returns(w, anchors, "Ok")
        n6 += len(oks)
        # ... and through its *success*: an `Ok` built by the writer itself (not the adapter call's own result handed on) lies behind the
        # success edge of the write. "The backend reported a failure but something is stored under the key, so the write is done" turns
        # a torn write into a successful commit whose block nobody can load.
        for ob_, st_ in assigns_of_return(w, "Ok"):
            if any(a == ob_ for a in anchors):
                continue
            behind = [a for a in anchors if cfg_of(w).reaches(a, ob_)]
            if behind and not all(success_dominates(w, a, ob_, facts) for a in behind):
                res.violation("O6", "%s|success-after-failed-write" % w.path,
                              "%s can answer Ok on a path where its adapter write returned an error (the Ok is not behind the write's success edge)" % w.path,
                              w.loc(st_.line))
        seen = set()
        for a, o in byp:
            if o in seen:
                continue
            seen.add(o)

            def ok6(l, w=w):
                if l.kind == "variant":
                    # outcome of a lock / of nothing that decides whether to write
                    fp_ = [x for x in walk(l.term) if x[0] == "field"]
                    return not any(x[2] not in ("adapter", "stage") for x in fp_) and not contains_call(l.term, "insert")
                if l.kind == "call" and callee_name(l.term) == "is_empty" and l.truth is True and l.term[2] and "stage" in field_path(l.term[2][0])[0]:
                    return True
                if l.kind == "cmp" and contains_call(l.term, "len") and any(x[0] == "field" and x[2] == "stage" for x in walk(l.term)):
                    return True
                if l.kind == "call" and callee_name(l.term) in ("contains", "contains_key") and l.truth is True and l.term[2]:
                    fp = field_path(l.term[2][0])[0]
                    return bool(fp) and _memo_filled_after_write(facts, w, fp[0], anchors)
                return False
            extra = [repr(l) for l in unaccepted(lits_of(w, o, facts), ok6)]
            ln6 = next((st.line for st in w.blocks[o].stmts if getattr(st, "line", 0) and st.line > 1), w.blocks[o].term.line)
            res.instance("O6", "%s: a success that does not pass the adapter write is answered only with nothing to write (other conditions: %s)" % (w.path, extra or "none"),
                         w.loc(ln6))
            if extra:
                res.violation("O6", "%s|success-without-write" % w.path,
                              "%s reports success without passing its adapter write under %s: after a failed write the retry is answered Ok although "
                              "nothing durable was written" % (w.path, extra[:2]), w.loc(ln6))
    res.floor("O6", "success returns of raw writers examined", n6, 2)

    # ------------------------------------------------------------------ O7 commit leaves no latch behind
    # "After a failed commit ... a retry yields the same durable result": whatever commit sets on the replica before its writes (an
    # in-progress flag, a counter) is reset on every way out, the error exits included. Checked for atomics and plain fields of self
    # written with a constant before the first raw write: each such write is followed, on every path to a return, by a write of the
    # same field (the reset).
    res.rule("O7", "commit sets no flag on the replica that an error exit leaves set")
    n7 = 0
    rets7 = [blk.idx for blk in c.blocks if not blk.cleanup and blk.term.kind == "return"]
    latch = []
    for bi, t in c.calls():
        if t.callee is not None and "sync::atomic" in t.callee.path and t.callee.name in ("swap", "store", "fetch_or", "fetch_and", "compare_exchange", "fetch_add", "fetch_sub") and t.args:
            fp_ = field_path(arg_term(c, t, 0, 8))[0]
            if fp_:
                latch.append((bi, t, fp_[0]))
    for bi, t, fld in latch:
        n7 += 1
        resets = {bj for bj, tj, f2 in latch if f2 == fld and bj != bi}
        leaks = [r_ for r_ in rets7 if cfg.reaches(bi, r_, avoid=resets)] if not (t.callee.name == "store" and t.args[1:] and t.args[1].is_const() and t.args[1].j.get("bool") is False) else []
        res.instance("O7", "commit: %s on self.%s is reset on every way out: %s" % (t.callee.name, fld, not leaks), c.loc(t.line))
        if leaks:
            res.violation("O7", "commit|latch-left-set:%s" % fld,
                          "commit changes self.%s (%s) and can return (%d return path(s), error exits included) without writing it again: after a failed "
                          "write every later commit sees the flag of the failed one" % (fld, t.callee.name, len(leaks)), c.loc(t.line))
    res.instance("O7", "commit: %d atomic flag write(s) on the replica examined" % n7, c.loc())

    # ------------------------------------------------------------------ O3
    if len(block_sites) == 1:
        bs = block_sites[0]
        n3 = 0
        from ..common import inlined_sites
        for s in inlined_sites(facts, c, lambda t: t.callee.target() == "revisiontree::RevisionTree::commit" or (t.callee.name == "insert" and bool(t.args))):
            cal = s.term.callee
            is_tree_commit = cal.target() == "revisiontree::RevisionTree::commit"
            is_delta_insert = cal.name == "insert" and s.args and "deltas" in field_path(s.args[0])[0]
            if not (is_tree_commit or is_delta_insert):
                continue
            n3 += 1
            ok = s.outer_body is c and success_dominates(c, bs.block, s.outer_block, facts)
            res.instance("O3", "commit: %s only after the block write succeeded: %s" % ("RevisionTree::commit" if is_tree_commit else "deltas.insert", ok), s.loc())
            if not ok:
                res.violation("O3", "commit|%s-before-block-write" % ("tree-commit" if is_tree_commit else "deltas-insert"),
                              "commit runs %s on a path where the block write has not succeeded: a failed commit would leave nothing staged" % (
                                  "RevisionTree::commit" if is_tree_commit else "deltas.insert"), s.loc())
        res.floor("O3", "tree commit / block map insert sites in commit", n3, 2)

    # ------------------------------------------------------------------ O4
    wp = {w.path for w in writers}
    n4 = 0
    for b in facts.repo_bodies():
        du = du_of(b)
        for s in cg.sites[b.path]:
            cal = s.callee
            if cal is None:
                continue
            direct = cal.trait == ADAPTER_TRAIT and cal.name == "write_object"
            via = any(t.path in wp for t in s.targets) and not s.fanout
            if not (direct or via):
                continue
            n4 += 1
            d = s.term.dest
            handled = _result_handled(b, s.block, d)
            res.instance("O4", "%s: result of %s is %s" % (b.path, cal.name, handled or "DROPPED"), s.loc())
            if not handled:
                res.violation("O4", "%s|write-result-dropped:%s" % (b.path, cal.name),
                              "%s ignores the Result of %s: a failed storage write would go unnoticed" % (b.path, cal.target()), s.loc())
    res.floor("O4", "raw write call sites", n4, 4)

    # ------------------------------------------------------------------ O5
    m = facts.body("melda::Melda::meld")
    n5 = 0
    if m is not None:
        for cb in [m] + facts.closures_of(m.path):
            for bi, t in cb.calls():
                if t.callee is None or t.callee.name != R.name("raw_write"):
                    continue
                n5 += 1
                k = arg_term(cb, t, 1, 30)
                v = arg_term(cb, t, 2, 30)
                if cb.kind == "closure":
                    kp = {x[1] for x in walk(k) if x[0] == "param"}
                    vp = {x[1] for x in walk(v) if x[0] == "param"}
                else:
                    # plain loop: both derive from the element of the same iteration
                    kp = {x[3] for x in walk(k) if x[0] == "call" and callee_name(x) == "next"}
                    vp = {x[3] for x in walk(v) if x[0] == "call" and callee_name(x) == "next"}
                ok = bool(kp & vp)
                res.instance("O5", "%s: key %s and bytes %s derive from the same element: %s" % (cb.path, fmt(k, 4), fmt(v, 4), ok), cb.loc(t.line))
                if not ok:
                    res.violation("O5", "%s|write-mixes-items" % cb.path, "%s writes bytes that do not derive from the item named by the key" % cb.path, cb.loc(t.line))
    res.floor("O5", "meld raw writes", n5, 1)


def _memo_filled_after_write(facts, w, fld, anchors):
    """every insertion into self.<fld> sits in `w` behind the success edge of the adapter write"""
    n = 0
    for b in facts.repo_bodies():
        for bi, t in b.calls():
            if t.callee is None or t.callee.name not in ("insert", "push", "extend") or not t.args:
                continue
            fp, root = field_path(arg_term(b, t, 0))
            if not fp or fp[0] != fld:
                continue
            n += 1
            if b is not w or not all(success_dominates(w, a, bi, facts) for a in anchors):
                return False
    return n > 0


def _result_handled(body, block, dest):
    """how the Result stored in `dest` by the call in `block` is consumed"""
    if dest is None:
        return None
    if dest.local == 0:
        return "returned"
    du = du_of(body)
    l = dest.local
    for bi, t in body.calls():
        if bi == block or t.callee is None:
            continue
        for a in t.args:
            if a.place is not None and a.place.local == l:
                n = t.callee.name
                if n == "branch":
                    return "propagated with ?"
                if n in ("is_ok", "is_err"):
                    return "tested with " + n
                if n in ("unwrap", "expect", "unwrap_or_else", "map_err", "and_then"):
                    return "consumed by " + n
                if n == "ok":
                    continue
                return "passed to " + n
            # through a reference temp
            if a.place is not None:
                tt = du.operand_term(a, 4)
                if any(x[0] == "call" and x[3] == block for x in walk(tt)) and t.callee.name in ("is_ok", "is_err", "branch", "unwrap", "expect"):
                    return "tested with " + t.callee.name
    for blk in body.blocks:
        if blk.cleanup:
            continue
        for st in blk.stmts:
            if st.kind == "assign" and st.rv.kind == "discr" and st.rv.place().local == l:
                # a bare discriminant read can also be drop elaboration; require a switch on it
                tl = st.place.local
                if blk.term.kind == "switch" and blk.term.discr.local() == tl and len(blk.term.switch_edges()) >= 2:
                    tg = {t for _, t in blk.term.switch_edges()}
                    if len(tg) >= 2:
                        return "matched"
            if st.kind == "assign" and st.place.local == 0 and st.rv.kind == "use":
                op = st.rv.operands()[0]
                if op.place is not None and op.place.local == l:
                    return "returned"
    return None


def thorough(res):
    from .. import engine
    engine.sensitivity("C09", res)
