"""C13 - The commit graph is well formed and reads back unchanged."""
from ..cfg import cfg_of
from ..defuse import du_of, walk, peel, callee_name, fmt
from ..conds import lits_of, status_variant, success_dominates
from ..callgraph import cg_of
from ..flows import flow_of
from ..roles import roles_of
from ..common import iter_chain, arg_term, contains_call, call_named, field_path, assigns_of_return
from .. import tables
from . import c02

TEXT = ("I1: in commit every Ok(Some(_)) return is dominated by the single raw block write; the parents serialised in "
        "the block, the argument of the id constructor and the result of get_anchors() are the same value; the "
        "returned head set is built from the new id only; the block stored in the block map carries that id and "
        "status Applied. I2: the writer and the loader call the same id constructors, whose constants are read from "
        "MIR (index = max over parents' indices, default 0, + 1; first block = 1), and the loader returns a block only "
        "if the recomputed id equals the stored one (so index > every parent's index, hence acyclic). I3: get_anchors "
        "filters both of its passes on the same status constant Applied and removes exactly the parents of applied "
        "blocks. I4 = C02. I5: key <-> field mapping of Delta::to_json equals the field <- key mapping of the loader "
        "(flow analysis through accumulating mutations), and get_delta returns an untransformed clone. I6: the loader drops a field when empty only if commit never writes "
        "that field empty (a committed block reads back unchanged after a reload). Does not decide graph invariants "
        "beyond what these imply.")
TECHNIQUE = 'static analysis over rustc MIR: index formula and parent-set provenance in commit / loader, filter tables of get_anchors, writer/reader field tables of blocks'
TRUSTED = ["rustc nightly MIR", "BTreeSet/BTreeMap semantics", "C02 (typestate) and C10/H2"]


def run(facts, res):
    R = roles_of(facts)
    cg = cg_of(facts)
    res.rule("I1", "commit: one block, parents = previous heads = id-constructor input, returned heads = {new id}, stored block carries that id")
    res.rule("I2", "index rule: same constructors in writer and loader; constants max/0/+1 and 1; enforced on load")
    res.rule("I3", "get_anchors = applied blocks minus parents of applied blocks")
    res.rule("I5", "block metadata reads back unchanged: key<->field tables of writer and loader agree; get_delta returns a clone")
    check_normal_form(facts, res, R)
    c = facts.body("melda::Melda::commit")
    if c is None:
        res.floor("I1", "commit anchor", 0, 1)
        return
    du = du_of(c)
    cfg = cfg_of(c)
    # ------------------------------------------------------------------ I1
    bw = [(bi, t) for bi, t in c.calls() if t.callee is not None and t.callee.name == R.name("raw_write")
          and contains_call(arg_term(c, t, 1, 30), "melda::DeltaId::key")]
    res.floor("I1", "block write in commit", len(bw), 1)
    oks = []
    for bi, st in assigns_of_return(c, "Ok"):
        t = du.rvalue_term(st.rv, 30)
        if any(x[0] == "agg" and x[2] == "Some" for x in walk(t)):
            oks.append((bi, st, t))
    res.floor("I1", "Ok(Some(heads)) returns in commit", len(oks), 1)
    for bi, st, t in oks:
        dom = len(bw) == 1 and success_dominates(c, bw[0][0], bi, facts)
        only_new = _single_id_set(t, bw, c)
        res.instance("I1", "commit: Ok(Some(heads)) dominated by the successful block write: %s; heads built from the new id only: %s" % (dom, only_new), c.loc(st.line))
        if not dom:
            res.violation("I1", "commit|ok-without-block-write", "commit can return Ok(Some(_)) without having written exactly one block", c.loc(st.line))
        if not only_new:
            res.violation("I1", "commit|returned-heads-not-the-new-id", "commit returns %s, not the set holding only the new block id" % fmt(t, 6), c.loc(st.line))
    # parents == get_anchors() == constructor input
    dl = [st for blk in c.blocks for st in blk.stmts if st.kind == "assign" and st.rv.kind == "agg" and st.rv.j.get("adt") == "melda::Delta"]
    res.floor("I1", "Delta initialiser in commit", len(dl), 1)
    for st in dl:
        f = st.rv.j["fields"]
        pt = du.operand_term(st.rv.operands()[f.index("parents")], 30)
        from_anchors = contains_call(pt, "get_anchors")
        ids = [(bi, t) for bi, t in c.calls() if t.callee is not None and t.callee.name == "new_from_anchors"]
        same = any(contains_call(arg_term(c, t, 1, 30), "get_anchors") and
                   ({x[1] for x in walk(arg_term(c, t, 1, 30)) if x[0] == "var"} & {x[1] for x in walk(pt) if x[0] == "var"}) for bi, t in ids)
        if not same and from_anchors:
            ga_ = lambda tt_: {x[3] for x in walk(tt_) if x[0] == "call" and callee_name(x) == "get_anchors"}
            same = any(ga_(arg_term(c, t, 1, 30)) & ga_(pt) for bi, t in ids)
        if not same and from_anchors and st.place is not None and not st.place.proj:
            # the id constructor reads the set back out of the block being built (`&delta.parents`)
            same = any(x[0] == "field" and x[2] == "parents" and any(y[0] == "var" and y[1] == st.place.local for y in walk(x[1]))
                       for bi, t in ids for x in walk(arg_term(c, t, 1, 30)))
        stt = status_variant(du.operand_term(st.rv.operands()[f.index("status")], 8))
        res.instance("I1", "commit: Delta.parents derives from get_anchors(): %s; same set feeds DeltaId::new_from_anchors: %s; status %s" % (from_anchors, same, stt), c.loc(st.line))
        if not (from_anchors and same):
            res.violation("I1", "commit|parents-not-previous-heads", "the committed block's parents are not exactly get_anchors() / the id constructor's input", c.loc(st.line))
    # the stored block: deltas.insert(deltaid, RwLock::new(delta)) with delta.id = Some(deltaid)
    ins = [(bi, t) for bi, t in c.calls() if t.callee is not None and t.callee.name == "insert" and "deltas" in field_path(arg_term(c, t, 0))[0]]
    res.floor("I1", "block map insert in commit", len(ins), 1)
    idset = [st for blk in c.blocks for st in blk.stmts if st.kind == "assign" and st.place.proj and st.place.proj[-1].get("n") == "id"
             and st.place.proj[-1].get("of", "").endswith("Delta")]
    for bi, t in ins:
        k = arg_term(c, t, 1, 20)
        idvars = {y[1] for y in walk(arg_term(c, bw[0][1], 1, 12)) if y[0] == "var"} if bw else set()
        kv = {x[1] for x in walk(k) if x[0] == "var" and x[1] in idvars}
        idv = set()
        for st in idset:
            idv |= {x[1] for x in walk(du.rvalue_term(st.rv, 20)) if x[0] == "var" and x[1] in idvars}
        ok = bool(kv) and bool(kv & idv)
        res.instance("I1", "commit: block map key and delta.id are the new id: %s" % ok, c.loc(t.line))
        if not ok:
            res.violation("I1", "commit|stored-block-id-mismatch", "the block inserted into the block map does not carry the id it is stored under", c.loc(t.line))

    # ------------------------------------------------------------------ I2
    ctor = facts.body("melda::DeltaId::new_from_anchors")
    first = facts.body("melda::DeltaId::new")
    ld = R.body("loader")
    users = {}
    for b in (c, ld):
        if b is None:
            continue
        users[b.path] = sorted({t.callee.target() for _, t in b.calls() if t.callee is not None and t.callee.target() in
                                ("melda::DeltaId::new_from_anchors", "melda::DeltaId::new")})
    res.instance("I2", "id constructors used: %s" % users, None)
    # DeltaId::new is new_from_anchors on the empty set (default 0, + 1 = the constant 1; both checked below), so a side may
    # use new_from_anchors alone; where DeltaId::new is used it must sit behind an emptiness / absence test of the parents
    if len(users) != 2 or any("melda::DeltaId::new_from_anchors" not in v for v in users.values()):
        res.violation("I2", "constructors-differ", "commit and the block loader must both compute the block index with DeltaId::new_from_anchors (DeltaId::new only for an empty parent set): %s" % users)
    from ..conds import lits_of as _lits
    for b in (c, ld):
        if b is None:
            continue
        for bi, t in b.calls():
            if t.callee is None or t.callee.target() != "melda::DeltaId::new":
                continue
            ls = _lits(b, bi, facts)
            empt = any((l.kind == "call" and callee_name(l.term) == "is_empty" and l.truth is True) or
                       (l.kind == "call" and callee_name(l.term) in ("is_none",) and l.truth is True) or
                       (l.kind == "call" and callee_name(l.term) in ("is_some",) and l.truth is False) or
                       (l.kind == "variant" and l.variants == {"None"}) for l in ls)
            res.instance("I2", "%s: DeltaId::new (index 1) is used only behind an emptiness / absence test: %s" % (b.path, empt), b.loc(t.line))
            if not empt:
                res.violation("I2", "%s|first-block-constructor-unguarded" % b.path,
                              "%s uses DeltaId::new (index 1) without testing that the block has no parents" % b.path, b.loc(t.line))
    # the writer chooses by emptiness of the anchors, the loader by presence of parents
    if ctor is not None:
        cdu = du_of(ctor)
        names = [t.callee.name for _, t in ctor.calls() if t.callee is not None]
        has_max = "max" in names
        maps_index = any(t.callee is not None and t.callee.target() == "melda::DeltaId::index" for cb in facts.closures_of(ctor.path) for _, t in cb.calls())
        dflt = [arg_term(ctor, t, 1, 4) for _, t in ctor.calls() if t.callee is not None and t.callee.name in ("unwrap_or", "unwrap_or_default")]
        dflt0 = any(d[0] == "const" and d[2] == 0 for d in dflt) or "unwrap_or_default" in names
        plus1 = False
        for blk in ctor.blocks:
            for st in blk.stmts:
                if st.kind == "assign" and st.rv.kind == "binop" and st.rv.j["op"] in ("Add", "AddWithOverflow", "AddUnchecked"):
                    ops = st.rv.operands()
                    if any(o.is_const() and o.const_int() == 1 for o in ops):
                        plus1 = True
        for _, t in ctor.calls():
            if t.callee is not None and t.callee.name in ("checked_add", "saturating_add", "wrapping_add") and \
                    any(a.is_const() and a.const_int() == 1 for a in t.args):
                plus1 = True
        idx_term = None
        for bi, st in assigns_of_return(ctor):
            if st.rv.kind == "agg":
                idx_term = cdu.operand_term(st.rv.operands()[0], 20)
        flows = idx_term is not None and contains_call(idx_term, "max")
        if not (has_max and maps_index):
            # loop form of the maximum: `let mut hi = 0; for a in anchors { if a.index > hi { hi = a.index } }`
            from ..conds import lits_of as _lo
            for l_, info in enumerate(ctor.locals):
                ds = cdu.full_defs(l_)
                if len(ds) < 2 or ctor.local_ty(l_) != "u32":
                    continue
                init0 = any(d.kind == "assign" and d.rv.kind == "use" and d.rv.operands()[0].is_const() and d.rv.operands()[0].const_int() == 0 for d in ds)
                ups = [d for d in ds if not (d.kind == "assign" and d.rv.kind == "use" and d.rv.operands()[0].is_const())]
                good = bool(ups)
                for d in ups:
                    vt = cdu.rvalue_term(d.rv, 10) if d.kind == "assign" else cdu.call_term(d.term, d.block, 10)
                    elem = any(x[0] == "call" and callee_name(x) == "next" for x in walk(vt)) and \
                        (any(x[0] == "field" and x[2] == "0" for x in walk(vt)) or contains_call(vt, "index"))
                    under_gt = any(l.kind == "cmp" and ((l.term[1] == "Gt" and l.truth is True) or (l.term[1] == "Le" and l.truth is False) or
                                                          (l.term[1] == "Lt" and l.truth is True) or (l.term[1] == "Ge" and l.truth is False)) and
                                   any(x[0] == "var" and x[1] == l_ for x in walk(l.term)) for l in _lo(ctor, d.block, facts))
                    good = good and elem and under_gt
                if init0 and good and idx_term is not None and any(x[0] == "var" and x[1] == l_ for x in walk(idx_term)):
                    has_max = maps_index = dflt0 = flows = True
        if not (has_max and maps_index) and idx_term is not None:
            # ordered-set form of the maximum: the last element of the BTreeSet<DeltaId> of anchors (`iter().next_back()`, `last()`,
            # `iter().max()`) carries the highest index because DeltaId's order compares the index first (checked below) - then its
            # index, default 0 when the set is empty
            set_param = any("BTreeSet<melda::DeltaId>" in ctor.local_ty(i_) for i_ in range(1, ctor.argc + 1))
            last_ = any(x[0] == "call" and callee_name(x) in ("next_back", "last", "max") and
                        not (set(callee_name(c_) for c_ in iter_chain(x[2][0]) if c_ is not x) & {"filter", "skip", "take", "map", "rev", "step_by", "filter_map"})
                        for x in walk(idx_term) if x[0] == "call" and x[2])
            via_index = contains_call(idx_term, "index") or any(x[0] == "const" and x[1] == "fn" and str(x[2]).endswith("DeltaId::index") for x in walk(idx_term)) or \
                any(x[0] == "field" and x[2] == "0" for x in walk(idx_term))
            d0 = any(x[0] == "call" and callee_name(x) in ("map_or", "unwrap_or", "map_or_else", "unwrap_or_default") and
                     (callee_name(x) == "unwrap_or_default" or any(y[0] == "const" and y[1] == "int" and y[2] == 0 for a_ in x[2][1:] for y in walk(a_)))
                     for x in walk(idx_term))
            if set_param and last_ and via_index and d0:
                has_max = maps_index = dflt0 = flows = True
        if not (has_max and maps_index) and idx_term is not None:
            # fold form of the maximum: `anchors.iter().map(index).fold(0, u32::max)` (or a closure `|a, b| a.max(b)`)
            for x in walk(idx_term):
                if x[0] == "call" and callee_name(x) == "fold" and len(x[2]) >= 3:
                    init0 = any(y[0] == "const" and y[1] == "int" and y[2] == 0 for y in walk(x[2][1]))
                    f_ = x[2][2]
                    is_max = any(y[0] == "const" and y[1] == "fn" and str(y[2]).endswith("::max") for y in walk(f_))
                    if not is_max:
                        cl_ = next((y for y in walk(f_) if y[0] == "closure"), None)
                        cb_ = facts.body(cl_[1]) if cl_ is not None else None
                        if cb_ is not None:
                            ct_ = du_of(cb_).local_term(0, 8)
                            is_max = peel(ct_)[0] == "call" and callee_name(peel(ct_)) == "max" and \
                                {y[1] for y in walk(ct_) if y[0] == "param"} >= {2, 3}
                    ch_ = [callee_name(c_) for c_ in iter_chain(x[2][0])]
                    sel_ = set(ch_) & {"filter", "skip", "take", "rev", "step_by", "filter_map", "take_while", "skip_while"}
                    via_index = contains_call(x[2][0], "index") or any(y[0] == "const" and y[1] == "fn" and str(y[2]).endswith("DeltaId::index") for y in walk(x[2][0])) or \
                        any(y[0] == "closure" and facts.body(y[1]) is not None and (contains_call(du_of(facts.body(y[1])).local_term(0, 8), "index") or
                                                                                    any(z[0] == "field" and z[2] == "0" for z in walk(du_of(facts.body(y[1])).local_term(0, 8))))
                            for y in walk(x[2][0]))
                    if init0 and is_max and via_index and not sel_:
                        has_max = maps_index = dflt0 = flows = True
        res.instance("I2", "new_from_anchors: index = max(parent.index()) [%s/%s], default 0 [%s], + 1 [%s], flows into field 0 [%s]" % (
            has_max, maps_index, dflt0, plus1, flows), ctor.loc())
        if not (has_max and maps_index and dflt0 and plus1 and flows):
            res.violation("I2", "index-formula", "DeltaId::new_from_anchors no longer computes max(parents' indices, default 0) + 1", ctor.loc())
    else:
        res.floor("I2", "DeltaId::new_from_anchors", 0, 1)
    if first is not None:
        fdu = du_of(first)
        ok = False
        for bi, st in assigns_of_return(first):
            if st.rv.kind == "agg":
                o = st.rv.operands()[0]
                ok = o.is_const() and o.const_int() == 1
        res.instance("I2", "DeltaId::new: first block index is the constant 1: %s" % ok, first.loc())
        if not ok:
            res.violation("I2", "first-index", "DeltaId::new does not use index 1", first.loc())
    # DeltaId ordering used by BTreeSet<DeltaId>: index then digest, total
    cmpb = facts.body("<melda::DeltaId as std::cmp::Ord>::cmp")
    if cmpb is not None:
        ops = []
        for blk in cmpb.blocks:
            for st in blk.stmts:
                if st.kind == "assign" and st.rv.kind == "binop" and st.rv.j["op"] in ("Lt", "Gt", "Le", "Ge"):
                    ops.append(st.rv.j["op"])
        tie = any(t.callee is not None and t.callee.name == "cmp" for _, t in cmpb.calls())
        ok_form = sorted(ops) == ["Gt", "Lt"] and tie
        if not ok_form:
            # `match self.0.cmp(&other.0) { Equal => self.1.cmp(&other.1), unequal => unequal }` (or then_with): decided by the
            # comparator interpreter of C05 on the abstract domain index {<,=,>} x digest {<,=,>}
            try:
                from .c05 import _run_cmp
                cdu_ = du_of(cmpb)
                ok_form = all(_run_cmp(cmpb, cdu_, facts, False, False, ix, st_) == (ix if ix != "=" else st_) for ix in "<=>" for st_ in "<=>")
            except Exception:
                ok_form = False
        res.instance("I2", "DeltaId::cmp compares index (%s) then digest (%s): index first, digest breaks ties: %s" % (sorted(ops), tie, ok_form), cmpb.loc())
        if not ok_form:
            res.violation("I2", "deltaid-order", "DeltaId::cmp is no longer `index <, index >, else digest.cmp`", cmpb.loc())

    # ------------------------------------------------------------------ I3
    ga = facts.body("melda::Melda::get_anchors")
    if ga is None:
        res.floor("I3", "get_anchors", 0, 1)
    else:
        members = [ga] + facts.closures_of(ga.path)
        # form 1: `.filter(|(_, d)| d.status == Applied)` closures; form 2: `if d.status == Applied { .. }` around the effect
        filt = []
        for cb in facts.closures_of(ga.path):
            for bi, t in cb.calls():
                if t.callee is not None and t.callee.name in ("eq", "ne") and c02.STATUS in (t.callee.self_ty or t.callee.full) and cb.local_ty(0) == "bool":
                    v = status_variant(arg_term(cb, t, 1, 8)) or status_variant(arg_term(cb, t, 0, 8))
                    filt.append((cb.path, t.callee.name, v[1] if v else "?"))
        closure_form = False
        ins_sites, rem_sites = [], []
        for cb in members:
            for bi, t in cb.calls():
                if t.callee is None or "BTreeSet" not in t.callee.path:
                    continue
                if t.callee.name == "insert":
                    ins_sites.append((cb, bi, t))
                if t.callee.name == "remove":
                    rem_sites.append((cb, bi, t))

        def site_status(cb, bi):
            """status asserted for the block at this site: by the branch literals, or (closure passed to an adaptor chain) by
            the chain's filter closures"""
            s_ = c02.status_guard(cb, bi, facts)
            if s_ is None and cb.kind == "closure":
                for cs in cg_of(facts).callers_of(cb.path):
                    if cb in cs.closures:
                        s_ = s_ or c02.chain_filter_status(facts, arg_term(cs.body, cs.term, 0, 30)) or site_status(cs.body, cs.block)
            return s_
        guard_form_ins = bool(ins_sites) and all(site_status(cb, bi) == "Applied" for cb, bi, t in ins_sites)
        guard_form_rem = bool(rem_sites) and all(site_status(cb, bi) == "Applied" for cb, bi, t in rem_sites)
        # candidates collected from a filtered chain: `iter().filter(|(_, d)| applied(d)).map(..).collect()`
        for bi, t in ga.calls():
            if t.callee is not None and t.callee.name in ("collect", "from_iter") and t.args and \
                    c02.chain_filter_status(facts, arg_term(ga, t, 0, 30)) == "Applied":
                closure_form = True
        if closure_form and not ins_sites:
            guard_form_ins = True
        filt = [f for f in filt if not any(f[0] == cb.path for cb, _, _ in [])]
        bad_filters = [f for f in filt if not (f[1] == "eq" and f[2] == "Applied")]
        cand_ok = guard_form_ins and not bad_filters
        rem_guard_ok = guard_form_rem and not bad_filters
        res.instance("I3", "get_anchors: candidates restricted to status == Applied (%s); parent removal restricted to status == Applied (%s) [filters %s]" % (
            cand_ok, rem_guard_ok, filt), ga.loc())
        if not (cand_ok and rem_guard_ok):
            res.violation("I3", "get_anchors|filters", "get_anchors must restrict both the candidate heads and the parent removal to blocks with status == Applied (found filters %s, "
                          "guarded inserts %s, guarded removals %s)" % (filt, guard_form_ins, guard_form_rem), ga.loc())
        rem = []
        for cb, bi, t in rem_sites:
            a = arg_term(cb, t, 1, 30)
            from_parents = any(x[0] == "field" and x[2] == "parents" for x in walk(a))
            if not from_parents and cb.kind == "closure" and any(x[0] == "param" and x[1] == 2 for x in walk(a)):
                # `parents.iter().for_each(|p| { anchors.remove(p); })`: the element of a chain over the block's parents
                for cs in cg_of(facts).callers_of(cb.path):
                    if cb in cs.closures and cs.term.args and any(x[0] == "field" and x[2] == "parents" for x in walk(arg_term(cs.body, cs.term, 0, 30))):
                        from_parents = True
            rem.append(from_parents)
        res.instance("I3", "get_anchors removes the parents of applied blocks: %s" % rem, ga.loc())
        if rem != [True]:
            res.violation("I3", "get_anchors|parent-removal", "get_anchors must remove exactly the elements of each applied block's `parents` from the candidate set", ga.loc())
        # candidates: all keys of the block map (no take/skip): collected or inserted in a whole-map loop
        rt = du_of(ga).local_term(0, 30)
        names = [callee_name(x) for x in walk(rt, False) if x[0] == "call"]
        whole = ("collect" in names and not (set(names) & {"take", "skip", "step_by", "take_while", "skip_while", "rev"}))
        if not whole and ins_sites:
            from ..common import whole_iteration
            whole = all(whole_iteration(cb, arg_term(cb, t, 1, 30)) and any(x[0] == "field" and x[2] == "deltas" for x in walk(arg_term(cb, t, 1, 30)))
                        for cb, bi, t in ins_sites)
        res.instance("I3", "get_anchors candidates = keys of all applied blocks of the whole block map: %s" % whole, ga.loc())
        if not whole:
            res.violation("I3", "get_anchors|candidates", "get_anchors does not start from the complete set of applied blocks", ga.loc())

    # ------------------------------------------------------------------ I5
    w = facts.body("melda::Delta::to_json")
    if w is not None and ld is not None:
        wf = flow_of(w)
        wmap = {}
        for bi, t in w.calls():
            if t.callee is not None and t.callee.name == "insert" and "serde_json::Map" in t.callee.path:
                ks = [y[2] for y in walk(arg_term(w, t, 1, 8)) if y[0] == "const" and y[1] == "str"]
                src = wf.operand_sources(t.args[2])
                for k in ks:
                    wmap[k] = sorted({n[2] for n in src if n[0] == "pfield"})
        lf = flow_of(ld)
        getkeys = {}
        for bi, t in ld.calls():
            if t.callee is not None and t.callee.name == "get" and "serde_json::Map" in t.callee.path:
                for y in walk(arg_term(ld, t, 1, 8)):
                    if y[0] == "const" and y[1] == "str":
                        getkeys[bi] = y[2]
        rmap = {}
        for bi, st, fields in tables.aggregates(ld, "melda::Delta"):
            for n, op in zip(st.rv.j["fields"], st.rv.operands()):
                src = lf.operand_sources(op)
                ks_ = {getkeys[cb] for cb in lf.call_blocks(src) if cb in getkeys}
                # a field parsed by a private helper (`Self::parse_delta_parents(&raw)?`): the keys that helper reads
                from ..common import members_of as _mo
                for cb in lf.call_blocks(src):
                    hc = ld.blocks[cb].term.callee
                    hb = facts.body(hc.target()) if hc is not None else None
                    if hb is not None and hb.in_repo() and not hb.public and hb.kind != "closure" and hb.impl_trait is None and hb.impl_adt == ld.impl_adt:
                        for m_ in _mo(facts, hb):
                            ks_ |= set(tables.json_keys_read(m_))
                rmap[n] = sorted(ks_)
        res.instance("I5", "writer key->field %s / loader field<-key %s" % (wmap, {k: v for k, v in rmap.items() if v}), w.loc())
        for k, fs in wmap.items():
            if len(fs) != 1 or rmap.get(fs[0]) != [k]:
                res.violation("I5", "field-key-mismatch:%s" % k,
                              "Delta::to_json stores field(s) %s under key %r but the loader fills %s from %s" % (fs, k, fs, [rmap.get(f) for f in fs]), ld.loc())
        res.floor("I5", "block fields mapped by the writer", len(wmap), 4)
    gd = facts.body("melda::Melda::get_delta")
    if gd is not None:
        ok = False
        VIEW = {"clone", "deref", "expect", "unwrap", "read", "get", "map", "cloned", "as_ref", "and_then", "lock", "borrow", "as_deref", "ok_or_else", "branch"}
        for bi, st in assigns_of_return(gd, "Ok"):
            t = du_of(gd).rvalue_term(st.rv, 20)
            cl = [x for x in walk(t) if x[0] == "call" and callee_name(x) in ("clone", "cloned")]
            others = [callee_name(x) for x in walk(t) if x[0] == "call" and callee_name(x) not in VIEW]
            # `.map(|b| b.read().expect(..).clone())`: the closure only views and clones
            for x in walk(t):
                if x[0] == "closure":
                    cb_ = facts.body(x[1])
                    if cb_ is not None:
                        names_ = [tt.callee.name for _, tt in cb_.calls() if tt.callee is not None]
                        others += [n_ for n_ in names_ if n_ not in VIEW]
                        if "clone" in names_:
                            cl.append(x)
            if cl and not others:
                ok = True
        res.instance("I5", "get_delta returns an untransformed clone of the stored block: %s" % ok, gd.loc())
        if not ok:
            res.violation("I5", "get_delta|transforms", "get_delta no longer returns a plain clone of the stored block", gd.loc())


def _single_id_set(t, bw, c):
    """t = Ok(Some(BTreeSet::from([id]))) where id is the id whose key() names the written block"""
    x = t
    for _ in range(6):
        if x[0] == "agg" and x[2] in ("Ok", "Some") and x[3]:
            x = x[3][0]
        elif x[0] == "var":
            x = x[3]
        else:
            break
    if x[0] != "call" or callee_name(x) != "from" or not x[2]:
        return False
    a = x[2][0]
    while a[0] in ("var", "ref", "deref"):
        a = a[3] if a[0] == "var" else a[1]
    if a[0] != "array" or len(a[1]) != 1:
        return False
    e = a[1][0]
    ev = {y[1] for y in [e] if y[0] == "var"}
    if not ev:
        return False
    if not bw:
        return False
    kv = {y[1] for y in walk(arg_term(c, bw[0][1], 1, 12)) if y[0] == "var"}
    return bool(ev & kv)



def check_normal_form(facts, res, R):
    """I6: what commit writes reads back unchanged: the block loader drops a field when it is empty (parents, packs, changes
    become None) only if commit never writes that field empty - otherwise get_delta() after a reload differs from what
    was committed (commit information {} read back as absent)"""
    from ..conds import lits_of
    from ..common import contains_call
    res.rule("I6", "the loader normalises (drops when empty) only fields commit never writes empty")
    ld = R.body("loader")
    cm = facts.body("melda::Melda::commit")
    if ld is not None and cm is not None:
        from ..flows import flow_of
        lf = flow_of(ld)
        du_l = du_of(ld)
        # locals of the loader that end up in each Delta field
        fields = {}
        for blk in ld.blocks:
            for st in blk.stmts:
                if st.kind == "assign" and st.rv.kind == "agg" and st.rv.j.get("adt") == "melda::Delta":
                    for n_, op in zip(st.rv.j["fields"], st.rv.operands()):
                        if op.place is not None:
                            fields[n_] = {x[1] for x in lf.sources([("l", op.place.local)]) if x[0] == "l"}
        guarded = {}
        for blk in ld.blocks:
            if blk.cleanup:
                continue
            for st in blk.stmts:
                if st.kind == "assign" and st.rv.kind == "agg" and st.rv.j.get("variant") == "Some" and not st.place.proj:
                    for fname, locs in fields.items():
                        if st.place.local in locs and fname in ("parents", "info", "packs", "changes"):
                            g = [l for l in lits_of(ld, blk.idx, facts) if l.kind == "call" and callee_name(l.term) == "is_empty" and l.truth is False]
                            # the emptiness test must be about the value stored
                            vv = {x[1] for x in walk(du_l.rvalue_term(st.rv, 12)) if x[0] == "var"}
                            g = [l for l in g if vv & {x[1] for x in walk(l.term[2][0]) if x[0] == "var"}]
                            if g:
                                guarded[fname] = True
        # writer side: which fields does commit build as `if x.is_empty() { None } else { Some(x) }` (or from a value that cannot be empty)
        du_c = du_of(cm)
        cf = flow_of(cm)
        writer_nonempty = set()
        for blk in cm.blocks:
            for st in blk.stmts:
                if st.kind == "assign" and st.rv.kind == "agg" and st.rv.j.get("adt") == "melda::Delta":
                    for n_, op in zip(st.rv.j["fields"], st.rv.operands()):
                        if op.place is None:
                            continue
                        srcs = {x[1] for x in cf.sources([("l", op.place.local)]) if x[0] == "l"}
                        somes = []
                        for b2 in cm.blocks:
                            if b2.cleanup:
                                continue
                            for s2 in b2.stmts:
                                if s2.kind == "assign" and not s2.place.proj and s2.place.local in srcs and s2.rv.kind == "agg" and \
                                        s2.rv.j.get("variant") == "Some" and "Option" in s2.rv.j.get("adt", "") and \
                                        cm.local_ty(s2.place.local) == cm.local_ty(op.place.local):
                                    somes.append(b2.idx)
                        if somes and all(any(l.kind == "call" and callee_name(l.term) == "is_empty" and l.truth is False for l in lits_of(cm, sb, facts)) for sb in somes):
                            writer_nonempty.add(n_)
                        t = du_c.operand_term(op, 16)
                        # `(!x.is_empty()).then_some(x)` / `.then(|| x.clone())`
                        for y in walk(t):
                            if y[0] == "call" and callee_name(y) in ("then_some", "then") and y[2]:
                                c0 = y[2][0]
                                while c0[0] == "var":
                                    c0 = c0[3]
                                if c0[0] == "unop" and c0[1] == "Not":
                                    c1 = c0[2]
                                    while c1[0] == "var":
                                        c1 = c1[3]
                                    if c1[0] == "call" and callee_name(c1) == "is_empty":
                                        writer_nonempty.add(n_)
                        # `Some(x).filter(|x| !x.is_empty())`: the closure keeps the value only when it is not empty
                        for y in walk(t):
                            if y[0] == "call" and callee_name(y) == "filter" and len(y[2]) >= 2 and y[4] is not None and "Option" in y[4].path:
                                cl_ = next((z for z in walk(y[2][1]) if z[0] == "closure"), None)
                                cb_ = facts.body(cl_[1]) if cl_ is not None else None
                                if cb_ is not None:
                                    rt_ = du_of(cb_).local_term(0, 10)
                                    while rt_[0] == "var":
                                        rt_ = rt_[3]
                                    if rt_[0] == "unop" and rt_[1] == "Not" and contains_call(rt_[2], "is_empty"):
                                        writer_nonempty.add(n_)
                        if contains_call(t, "map") and contains_call(t, R.name("pack_writer")):
                            writer_nonempty.add(n_)   # Option<String> mapped to a one-element set
        res.instance("I6", "loader drops empty %s; commit never writes empty %s" % (sorted(guarded), sorted(writer_nonempty)), ld.loc())
        for f_ in sorted(guarded):
            if f_ not in writer_nonempty:
                res.violation("I6", "block-loader|normalises:%s" % f_,
                              "load_raw_delta drops the block field `%s` when it is empty, but commit can write it empty: the committed block reads back "
                              "differently (Some(empty) on the committing replica, None after a reload and on every other replica)" % f_, ld.loc())


def thorough(res):
    from .. import engine
    engine.sensitivity("C13", res)
