"""C06 - Concurrent edits of a flattened array merge without loss or duplication (structural clauses)."""
from ..cfg import cfg_of
from ..defuse import du_of, walk, peel, callee_name, fmt
from ..conds import lits_of, all_edge_lits
from ..callgraph import cg_of
from ..roles import roles_of
from ..common import arg_term, contains_call, field_path, assigns_of_return, mentions_param

TEXT = ("M1: the array merge never removes: no call with a removing effect (remove, retain, truncate, clear, drain, "
        "pop, swap_remove, dedup, split_off, splice) is applied to its destination vector. M2: in the merge loop, every "
        "path through the `not found` arm of the position search performs exactly one insert of the current element "
        "before the next iteration, and no insert is reachable from the `found` arm (so, for duplicate-free inputs, every "
        "element of either side is present exactly once). M3: the leaf fold calls the merge for every element of the "
        "complete leaf set with the returned base as destination, the destination starts as the order at the requested "
        "(winning) revision, and the loop has no early exit other than error propagation. "
        "M4: in read an object enters the reconstruction map only under `!winner.is_deleted()`, and unflatten consumes "
        "each referenced object with HashMap::remove (never get) and pushes an array element only on the found edge. "
        "Does not decide the relative-order clauses (they depend on where pivots fall, i.e. on values)."
        " M2e: the search that decides insertion runs over the whole destination. M3b: array views built from a stored revision go through the fold. M5: every array under a flattened key gets a descriptor, whatever it contains.")
TECHNIQUE = 'static analysis over rustc MIR: who-may-remove on the merge destination, must-pass insert discipline per loop iteration, fold seeding and exhaustiveness, consuming-lookup check in unflatten'
TRUSTED = ["rustc nightly MIR", "Vec::insert / push add exactly one element", "HashMap::remove consumes the entry"]

REMOVERS = {"remove", "retain", "truncate", "clear", "drain", "pop", "swap_remove", "dedup", "dedup_by", "dedup_by_key",
            "split_off", "splice", "retain_mut", "drain_filter", "extract_if"}


def run(facts, res):
    R = roles_of(facts)
    cg = cg_of(facts)
    res.rule("M1", "merge never removes elements from its destination")
    res.rule("M2", "merge inserts exactly the absent elements (one insert per not-found element, none for found ones)")
    res.rule("M3", "every live leaf is folded into the returned base, no early exit")
    res.rule("M4", "deleted objects are skipped by read; unflatten consumes each referenced object once")

    ma = facts.body("utils::merge_arrays")
    if ma is None:
        res.floor("M1", "merge_arrays", 0, 1)
    else:
        from ..common import members_of as _mo
        members = _mo(facts, ma)
        adds = 0
        for b in members:
            du = du_of(b)
            for bi, t in b.calls():
                c = t.callee
                if c is None or not t.args or "Vec<" not in (c.path + (c.self_ty or "") + (c.impl_self or "")) and "vec::Vec" not in c.path:
                    continue
                r = du.operand_term(t.args[0], 12)
                on_dest = mentions_param(r, b, 2)
                if not on_dest:
                    continue
                if c.name in REMOVERS:
                    res.violation("M1", "merge_arrays|removes:%s" % c.name, "merge_arrays applies `%s` to its destination: an element present in one concurrent version could be lost" % c.name, b.loc(t.line))
                if c.name in ("insert", "push"):
                    adds += 1
        res.instance("M1", "merge_arrays: %d insert/push sites on the destination, no removing call" % adds, ma.loc())
        res.floor("M1", "insert/push sites on the merge destination (positive control)", adds, 1)

        # ---------------------------------------------------------------- M2
        cfg = cfg_of(ma)
        du = du_of(ma)
        ins_blocks = [bi for bi, t in ma.calls() if t.callee is not None and t.callee.name in ("insert", "push") and
                      mentions_param(du.operand_term(t.args[0], 12), ma, 2)]
        # the position searches: discriminant switches on the result of Iterator::position
        searches = {}
        search_terms = {}
        for e, l in all_edge_lits(ma, facts):
            pt_ = peel(l.term)
            hops_ = 0
            while pt_[0] == "call" and callee_name(pt_) in ("map", "or", "inspect") and pt_[2] and hops_ < 4 and \
                    "option::Option" in ((pt_[4].self_ty or "") + (pt_[4].full or "") if pt_[4] is not None else ""):
                pt_ = peel(pt_[2][0])     # `position(..).map(|p| p + offset)`: still the search's found / not-found outcome
                hops_ += 1
            is_search = pt_[0] == "call" and callee_name(pt_) == "position"
            if is_search:
                search_terms[l.edge[0]] = pt_
            if not is_search and pt_[0] == "call" and pt_[4] is not None:
                # a private helper wrapping the search (`fn position_of(a, t) -> Option<usize> { a.iter().position(|e| e == t) }`)
                hb_ = facts.body(pt_[1])
                if hb_ is not None and hb_.in_repo() and not hb_.public and hb_.kind != "closure" and hb_.local_ty(0).startswith("std::option::Option<usize"):
                    is_search = any(t_.callee is not None and t_.callee.name == "position" for _, t_ in hb_.calls())
            if l.kind == "variant" and is_search:
                searches.setdefault(l.edge[0], {})["Some" if l.variants == {"Some"} else "None" if l.variants == {"None"} else "?"] = (e, l)
        def header_of(sb):
            hdrs = [bi for bi, t in ma.calls() if t.callee is not None and t.callee.name == "next" and cfg.dominates(bi, sb) and cfg.reaches(sb, bi)]
            return hdrs[-1] if hdrs else None
        merging = {}
        for sb, d in searches.items():
            if "None" not in d or "Some" not in d:
                continue
            h = header_of(sb)
            if h is not None and any(b in cfg.reachable_blocks(d["None"][0], avoid={h}) for b in ins_blocks):
                merging[sb] = d
        res.floor("M2", "position searches whose not-found arm inserts", len(merging), 1)
        for sb, d in merging.items():
            none_e, nl = d["None"]
            some_e, sl = d["Some"]
            hdr = header_of(sb)
            # only inserts of this loop's body count (the empty-destination shortcut may be a loop of its own)
            from .. import iters as _it
            body_ = _it.loop_body_blocks(ma, hdr)
            all_ins = ins_blocks
            ins_blocks = [i for i in all_ins if i in body_]
            # (a) not-found arm: the header is unreachable without passing an insert
            a_ok = not cfg.reaches(none_e, hdr, avoid=set(ins_blocks))
            # (b) at most one insert per iteration
            b_ok = not any(cfg.reaches(i, j, avoid={hdr}) for i in ins_blocks for j in ins_blocks if i in cfg.reachable_blocks(none_e, avoid={hdr}) | set() and j != i) and \
                not any(cfg.reaches(i, i, avoid={hdr}) for i in ins_blocks)
            # (c) found arm never inserts
            c_ok = not any(b in cfg.reachable_blocks(some_e, avoid={hdr}) for b in ins_blocks)
            # (d) what is inserted is the current element
            elem_ok = True
            for i in ins_blocks:
                if i in cfg.reachable_blocks(none_e, avoid={hdr}):
                    t = ma.blocks[i].term
                    v = du.operand_term(t.args[-1], 16)
                    if not (contains_call(v, "clone") and contains_call(v, "next")):
                        elem_ok = False
            # (e) the search looks at the whole destination: an element found anywhere in it is not inserted again
            whole_ok = True
            st_ = search_terms.get(sb)
            if st_ is not None and st_[2]:
                nm_ = {callee_name(x) for x in walk(st_[2][0], False) if x[0] == "call"}
                part = nm_ & {"index", "index_mut", "get", "get_mut", "skip", "take", "split_at", "split_at_mut", "skip_while", "take_while", "step_by",
                              "first", "last", "chunks", "windows", "filter", "split_first", "split_last", "get_unchecked"}
                whole_ok = not part and mentions_param(st_[2][0], ma, 2)
                res.instance("M2", "merge loop: the search runs over the whole destination (%s)" % whole_ok, ma.loc(ma.blocks[sb].term.line))
                if not whole_ok:
                    res.violation("M2", "merge_arrays|search-not-over-whole-destination",
                                  "merge_arrays looks the current element up in a part of the destination only (%s): an element that is present outside "
                                  "that part is inserted a second time" % sorted(part), ma.loc(ma.blocks[sb].term.line))
            res.instance("M2", "merge loop: not-found arm always inserts (%s), exactly once (%s), found arm never inserts (%s), inserted value = current element (%s)" % (
                a_ok, b_ok, c_ok, elem_ok), ma.loc(ma.blocks[sb].term.line))
            ins_blocks = all_ins
            if not (a_ok and b_ok and c_ok and elem_ok):
                res.violation("M2", "merge_arrays|insert-discipline", "merge_arrays: not-found arm always inserts: %s, exactly once: %s, found arm never inserts: %s, inserts the current element: %s" % (
                    a_ok, b_ok, c_ok, elem_ok), ma.loc(ma.blocks[sb].term.line))
        # empty-destination shortcut copies every element of the source
        sc = False
        for b in _mo(facts, ma):
            for bi, t in b.calls():
                if t.callee is not None and t.callee.name == "push" and len(t.args) > 1 and contains_call(du_of(b).operand_term(t.args[1], 8), "clone"):
                    sc = True
        res.instance("M2", "empty destination: every source element is pushed (for_each + push(clone)): %s" % sc, ma.loc())

    # ------------------------------------------------------------------ M3
    n3 = 0
    for b in facts.repo_bodies():
        du = du_of(b)
        cfg = cfg_of(b)
        for bi, t in b.calls():
            if t.callee is None or t.callee.target() != "utils::merge_arrays":
                continue
            n3 += 1
            if b.kind == "closure" and _fold_pipeline(facts, cg_of(facts), R, b, bi, t, res):
                continue
            dst = du.operand_term(t.args[1], 10)
            dv = {x[1] for x in walk(dst) if x[0] == "var"}
            returned = False
            for ob, st in assigns_of_return(b, "Ok"):
                if {x[1] for x in walk(du.rvalue_term(st.rv, 8)) if x[0] == "var"} & dv:
                    returned = True
            # enclosing loop and its exits
            hdrs = [hb for hb, ht in b.calls() if ht.callee is not None and ht.callee.name == "next" and cfg.dominates(hb, bi) and cfg.reaches(bi, hb)]
            early = []
            whole = False
            if hdrs:
                from .. import iters
                blocks = iters.loop_body_blocks(b, hdrs[-1])
                for (x, y) in iters.early_exits(b, hdrs[-1], blocks):
                    # error propagation (`?`) is the only accepted exit
                    lits = lits_of(b, y, facts)
                    if not any(l.kind == "variant" and l.variants <= {"Break", "Err"} for l in lits):
                        early.append((x, y))
                it = du.operand_term(b.blocks[hdrs[-1]].term.args[0], 20)
                names = [callee_name(x) for x in walk(it, False) if x[0] == "call"]
                whole = "get_leafs" in names and not (set(names) & {"take", "skip", "filter", "step_by", "take_while", "skip_while", "rev"})
            src = du.operand_term(t.args[0], 16)
            per_leaf = contains_call(src, R.name("rebuilder")) and contains_call(src, "next")
            # the fold starts from the order at the revision the caller asked for (the winner, whose relative order is kept):
            # the destination's value before the loop derives from the rebuilder applied to a parameter of this function
            seeded = False
            dd = du.operand_term(t.args[1], 30)
            for x in walk(dd):
                if x[0] == "call" and callee_name(x) == R.name("rebuilder") and len(x[2]) >= 2 and \
                        any(y[0] == "param" for y in walk(x[2][1])) and not contains_call(x[2][1], "next"):
                    seeded = True
            res.instance("M3", "%s: the fold's destination starts as the order at the requested (winning) revision: %s" % (b.path, seeded), b.loc(t.line))
            if not seeded:
                res.violation("M3", "%s|fold-not-seeded-with-base" % b.path,
                              "%s folds the leaves into a destination that does not start as the order at the base (winning) revision: the merged array would "
                              "follow the order of whichever leaf is folded first instead of the winner's" % b.path, b.loc(t.line))
            res.instance("M3", "%s: merge_arrays(order of each leaf (%s), &mut base) over the whole leaf set (%s); base is returned (%s); early exits: %d" % (
                b.path, per_leaf, whole, returned, len(early)), b.loc(t.line))
            if not (per_leaf and whole and returned and not early):
                res.violation("M3", "%s|fold-incomplete" % b.path, "%s does not fold every leaf's order into the returned base (per leaf: %s, whole set: %s, returned: %s, early exits: %d)" % (
                    b.path, per_leaf, whole, returned, len(early)), b.loc(t.line))
    res.floor("M3", "merge fold sites", n3, 1)
    # M3b: a view of an array built from a stored revision always goes through the fold: the order handed to the descriptor a
    # reader returns never comes straight from the single-revision reconstruction (which knows nothing of the other leaves)
    n3b = 0
    folders = {b.path.split("::{closure")[0] for b in facts.repo_bodies() for _, t in b.calls() if t.callee is not None and t.callee.target() == "utils::merge_arrays"}
    for b in facts.repo_bodies():
        if b.path.split("::{closure")[0] in folders:
            continue
        for bi, t in b.calls():
            if t.callee is None or t.callee.name != "new_from_order" or not t.args:
                continue
            ot = du_of(b).operand_term(t.args[0], 24)
            via_fold = any(x[0] == "call" and x[4] is not None and x[4].target() in folders for x in walk(ot))
            direct = contains_call(ot, R.name("rebuilder"))
            if not via_fold and not direct:
                continue
            n3b += 1
            res.instance("M3", "%s: the order of the array view comes from the fold over all leaves (%s), never straight from the single-revision "
                         "reconstruction (%s)" % (b.path, via_fold, not direct), b.loc(t.line))
            if direct:
                res.violation("M3", "%s|view-order-not-merged" % b.path,
                              "%s can build the array it returns from the reconstruction of one revision alone, without folding the other leaves in: "
                              "elements inserted concurrently on another branch disappear from that view" % b.path, b.loc(t.line))
    res.floor("M3", "array views built from the fold", n3b, 1)

    # ------------------------------------------------------------------ M5 every flattened array gets a descriptor
    # An array under a flattened key is always stored through its own array descriptor, whatever it contains: the descriptor is the
    # unit that merges. If an array that happens to be empty (or short, or of scalars) is left in place inside the owner object, a
    # replica that empties the array rewrites the *owner* while a concurrent insert rewrites the *descriptor*; after the exchange the
    # owner's leaf says `[]` and the inserted live element is on no replica's view.
    from ..conds import unaccepted as _un5
    fl = facts.body("utils::flatten")
    n5 = 0
    if fl is not None:
        order_key = facts.const_str("constants::ARRAY_DESCRIPTOR_ORDER_FIELD")
        for cb in _mo(facts, fl):
            for bi, t in cb.calls():
                if t.callee is None or not t.args:
                    continue
                if t.callee.name == "insert" and "serde_json::Map" in t.callee.path and len(t.args) >= 3:
                    k_ = du_of(cb).operand_term(t.args[1], 10)
                elif t.callee.name in ("once", "from_iter", "from"):
                    # `once((ORDER_FIELD.to_string(), order)).collect()` / `Map::from_iter([(ORDER_FIELD.., order)])`
                    k_ = du_of(cb).operand_term(t.args[0], 10)
                else:
                    continue
                if order_key not in [x[2] for x in walk(k_) if x[0] == "const" and x[1] == "str"]:
                    continue
                n5 += 1

                def okl(l):
                    if l.kind == "variant":
                        return True                      # "the flattened value is an Array", loop / Option plumbing
                    if l.kind == "call":
                        return callee_name(l.term) in ("is_flattened_field", "ends_with", "starts_with", "ne", "eq", "is_array", "is_object", "contains_key")
                    return False
                extra = [repr(l) for l in _un5(lits_of(cb, bi, facts), okl)]
                res.instance("M5", "%s: an array under a flattened key becomes a descriptor under no condition on its contents: %s" % (cb.path, not extra), cb.loc(t.line))
                if extra:
                    res.violation("M5", "flatten|descriptor-creation-conditional",
                                  "flatten creates the array descriptor only under the additional condition %s: an array for which it does not hold is "
                                  "stored inside its owner and no longer merges element-wise with concurrent edits" % extra[:2], cb.loc(t.line))
    res.rule("M5", "every array under a flattened key is stored through an array descriptor (no condition on the array's contents)")
    res.floor("M5", "descriptor creation sites in flatten", n5, 1)

    # ------------------------------------------------------------------ M4
    rd = facts.body("melda::Melda::read")
    n4 = 0
    if rd is not None:
        for cb in facts.closures_of(rd.path):
            for bi, t in cb.calls():
                if t.callee is not None and t.callee.name == "insert" and "HashMap" in t.callee.path and len(t.args) >= 3:
                    n4 += 1
                    ok = False
                    for l in lits_of(cb, bi, facts):
                        if l.kind == "call" and callee_name(l.term) == "is_deleted" and l.truth is False and contains_call(l.term[2][0], "get_winner"):
                            ok = True
                    res.instance("M4", "read: object enters the reconstruction map only under !winner.is_deleted(): %s" % ok, cb.loc(t.line))
                    if not ok:
                        res.violation("M4", "read|deleted-objects-included", "read inserts an object into the reconstruction map without checking that its winner is not a deletion", cb.loc(t.line))
    res.floor("M4", "reconstruction map insert in read", n4, 1)
    uf = facts.body("utils::unflatten")
    if uf is not None:
        from ..common import members_of as _mo4
        members = _mo4(facts, uf)
        lookups = {}
        for b in members:
            du = du_of(b)
            for bi, t in b.calls():
                c = t.callee
                if c is None or "HashMap" not in c.path or not t.args:
                    continue
                r = du.operand_term(t.args[0], 10)
                if mentions_param(r, b, 1):
                    lookups.setdefault(c.name, []).append(b.loc(t.line))
        res.instance("M4", "unflatten accesses the collection through: %s" % {k: len(v) for k, v in lookups.items()}, uf.loc())
        bad = set(lookups) - {"remove"}
        if bad or "remove" not in lookups:
            res.violation("M4", "unflatten|non-consuming-lookup:%s" % ",".join(sorted(bad)), "unflatten reads referenced objects with %s instead of the consuming remove(): an object referenced twice would appear twice" % sorted(bad), uf.loc())
        du = du_of(uf)
        for bi, t in uf.calls():
            if t.callee is not None and t.callee.name == "push" and "Vec<serde_json::Value>" in (t.callee.path + t.callee.full):
                somes = [l for l in lits_of(uf, bi, facts) if l.kind == "variant" and l.variants == {"Some"}]
                ok = any(contains_call(l.term, "remove") for l in somes) and any(contains_call(l.term, "unflatten") for l in somes)
                res.instance("M4", "unflatten: array element pushed only if the object was found (remove is Some) and reconstructed: %s" % ok, uf.loc(t.line))
                if not ok:
                    res.violation("M4", "unflatten|push-unconditional", "unflatten pushes an array element that was not found in the collection", uf.loc(t.line))


FIXTURE_EXPECT = ['merge_arrays|removes:retain']


def _fold_pipeline(facts, cg, R, b, bi, t, res):
    """pipeline form of the fold: `leafs.iter().try_for_each(|l| rebuild(l).map(|o| merge_arrays(&o, &mut acc)))?; Ok(acc)` - the step
    sits in a closure (possibly inside an Option / Result combinator); judged with the same five facts as the loop form. Returns True
    when the form was recognised and judged."""
    from ..common import iter_chain
    du = du_of(b)
    dst = du.operand_term(t.args[1], 10)
    ups = [x[2].split(".")[0] for x in walk(dst) if x[0] == "upvar"]
    if not ups:
        return False
    # walk up to the consumer in the owning function
    cb_, hops_, per_leaf = b, 0, False
    site = None
    src = du.operand_term(t.args[0], 16)
    if contains_call(src, R.name("rebuilder")):
        per_leaf = True
    while cb_ is not None and cb_.kind == "closure" and hops_ < 4:
        hops_ += 1
        nxt_ = None
        for cs_ in cg.callers_of(cb_.path):
            if cb_ not in cs_.closures or cs_.callee is None or not cs_.term.args:
                continue
            rc_ = arg_term(cs_.body, cs_.term, 0, 30)
            if cs_.callee.name in ("for_each", "try_for_each"):
                site = (cs_, rc_)
            elif cs_.callee.name in ("map", "and_then", "inspect"):
                if contains_call(rc_, R.name("rebuilder")) and any(x[0] == "param" for x in walk(rc_)):
                    per_leaf = True
                nxt_ = cs_.body
            break
        if site is not None:
            break
        cb_ = nxt_
    if site is None:
        return False
    cs_, rc_ = site
    ob = cs_.body
    if ob.kind == "closure":
        return False
    odu = du_of(ob)
    if not per_leaf:
        per_leaf = contains_call(src, R.name("rebuilder"))
    names = [callee_name(x) for x in iter_chain(rc_)]
    whole = contains_call(rc_, "get_leafs") and not (set(names) & {"take", "skip", "filter", "step_by", "take_while", "skip_while", "rev", "filter_map", "find"})
    acc = [i for i, l in enumerate(ob.locals) if l.get("name") in ups]
    returned = False
    for ob_, st in assigns_of_return(ob, "Ok"):
        if {x[1] for x in walk(odu.rvalue_term(st.rv, 8)) if x[0] == "var"} & set(acc):
            returned = True
    seeded = False
    for a_ in acc:
        for x in walk(odu.local_term(a_, 30)):
            if x[0] == "call" and callee_name(x) == R.name("rebuilder") and len(x[2]) >= 2 and any(y[0] == "param" for y in walk(x[2][1])):
                seeded = True
    # a try_for_each stops at the first error: that error must be handed on (`?`), not dropped
    early = 0
    if cs_.callee.name == "try_for_each":
        handed = any(t2.callee is not None and t2.callee.name == "branch" and any(x[0] == "call" and x[3] == cs_.block for x in walk(arg_term(ob, t2, 0, 6)))
                     for _, t2 in ob.calls()) or (cs_.term.dest is not None and cs_.term.dest.local == 0)
        early = 0 if handed else 1
    res.instance("M3", "%s: the fold's destination starts as the order at the requested (winning) revision: %s" % (b.path, seeded), b.loc(t.line))
    if not seeded:
        res.violation("M3", "%s|fold-not-seeded-with-base" % ob.path,
                      "%s folds the leaves into a destination that does not start as the order at the base (winning) revision: the merged array would "
                      "follow the order of whichever leaf is folded first instead of the winner's" % ob.path, b.loc(t.line))
    res.instance("M3", "%s: pipeline fold: merge_arrays(order of each leaf (%s), &mut base) over the whole leaf set (%s); base is returned (%s); dropped errors: %d" % (
        ob.path, per_leaf, whole, returned, early), b.loc(t.line))
    if not (per_leaf and whole and returned and not early):
        res.violation("M3", "%s|fold-incomplete" % ob.path, "%s does not fold every leaf's order into the returned base (per leaf: %s, whole set: %s, returned: %s, early exits: %d)" % (
            ob.path, per_leaf, whole, returned, early), b.loc(t.line))
    return True


def thorough(res):
    from .. import engine
    engine.sensitivity("C06", res)
