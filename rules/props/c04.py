"""C04 - Reading returns exactly the document last submitted (the clauses visible in the code's shape)."""
from ..cfg import cfg_of
from ..defuse import du_of, walk, peel, callee_name, fmt
from ..conds import lits_of
from ..callgraph import cg_of
from ..effects import effects_of
from ..roles import roles_of
from ..common import arg_term, contains_call, field_path, assigns_of_return, ADAPTER_TRAIT

TEXT = ("Thin claim: the round-trip sentence of C04 (flatten -> diff -> store -> reconstruct equals the input for all "
        "documents) quantifies over runtime values and is NOT decided. Decided are: U1 - in commit every call with any "
        "write effect (replica state or storage) is edge-dominated by `has_staging() == true` and the false edge returns "
        "Ok(None) ('committing when nothing changed writes nothing and reports no commit'); U2 - in update_object the "
        "tree insertion and the object write are edge-dominated by `digest != winner.digest` and, for array descriptors, "
        "by the Some edge of the diff whose None is produced exactly when the edit script is empty and the winner is not a "
        "deletion ('submitting the same document twice changes nothing'); plain objects are compared by digest, array edit "
        "scripts are recorded whenever they are non-empty; U3 - escape / unescape / unflatten use one prefix constant, flatten and "
        "unflatten classify keys with the same predicates and constants, and the identifier field removed by flatten is "
        "the one read adds back; U4 - references are uniquely decodable: every prefix on which unflatten dispatches for a "
        "string value is refused by generate_identifier for user identifiers, generated identifiers hash an injective "
        "encoding of the path, the path handed down to a field value extends the incoming path by the owner's identifier and the field key, "
        "and array descriptor identifiers are an injective function of (owner, key) - three open "
        "known findings (F10-F12)."
        " U5: every return of update that can be a success passes through both per-object passes over the submitted document. U6: delete_object records the deletion of a vanished object under nothing but `its winner is neither a deletion nor a marker` (no scan of the other leaves). U7: DataStorage::read_object enters the character-code branch only after the reserved kinds whose digest is itself a character code ('d', 'e': constants read from MIR) were excluded. U8: unflatten looks a string value up as a reference only under starts_with(STRING_ESCAPE_PREFIX) = false (array elements and descriptor keys exempt). U6b: nothing delete_object reaches rolls the tree back before the deletion is recorded.")
TECHNIQUE = 'static analysis over rustc MIR: edge dominance on change tests in update_object/commit, encoder/decoder prefix-table agreement and injectivity of composed identifiers'
TRUSTED = ["rustc nightly MIR", "effect summaries", "yavomrs returns an empty script for equal sequences"]


def run(facts, res):
    R = roles_of(facts)
    cg = cg_of(facts)
    eff = effects_of(facts)
    res.rule("U1", "commit writes nothing and returns Ok(None) when nothing is staged")
    res.rule("U2", "resubmitting identical content stages nothing")
    res.rule("U3", "flatten / unflatten / escape tables agree")

    c = facts.body("melda::Melda::commit")
    if c is None:
        res.floor("U1", "commit", 0, 1)
    else:
        cfg = cfg_of(c)
        n = 0
        guards = set()
        for s in cg.sites[c.path]:
            e = eff.site_effects(s)
            raw = any(t.callee is not None and t.callee.trait == ADAPTER_TRAIT and t.callee.name == "write_object"
                      for tg in s.targets for m in cg.reach(tg).values() for _, t in m.calls()) if s.targets and not s.fanout else False
            if not e and not raw:
                continue
            n += 1
            ok = False
            for l in lits_of(c, s.block, facts):
                if l.kind == "call" and callee_name(l.term) == "has_staging" and l.truth is True and l.term[4].impl_self == "melda::Melda":
                    ok = True
                    guards.add(l.block)
            res.instance("U1", "commit: %s (effects %s%s) under has_staging() == true: %s" % (s.name(), sorted(f for _, f in e)[:3], ", raw write" if raw else "", ok), s.loc())
            if not ok:
                res.violation("U1", "commit|write-without-staging:%s" % s.name(), "commit calls %s (which writes state or storage) on a path where nothing is staged" % s.name(), s.loc())
        res.floor("U1", "effectful call sites in commit", n, 4)
        for gb in guards:
            t = c.blocks[gb].term
            for k, (v, tgt) in enumerate(t.switch_edges()):
                # edge where has_staging() is false
                from ..conds import decode
                l = decode(c, gb, v, facts)
                if l.kind == "call" and l.truth is False:
                    ok = False
                    b = tgt
                    for _ in range(10):
                        for st in c.blocks[b].stmts:
                            if st.kind == "assign" and st.place.local == 0:
                                tt = du_of(c).rvalue_term(st.rv, 6)
                                if tt[0] == "agg" and tt[2] == "Ok" and tt[3] and peel(tt[3][0])[0] == "agg" and peel(tt[3][0])[2] == "None":
                                    ok = True
                        ss = cfg.block_succs(b)
                        if len(ss) != 1:
                            break
                        b = ss[0]
                    res.instance("U1", "commit: the nothing-staged edge returns Ok(None): %s" % ok, c.loc())
                    if not ok:
                        res.violation("U1", "commit|empty-commit-result", "commit does not return Ok(None) when nothing is staged", c.loc())

    # ------------------------------------------------------------------ U2
    u = facts.body("melda::Melda::update_object")
    if u is None:
        res.floor("U2", "update_object", 0, 1)
    else:
        # sites (possibly through an extracted private helper) that add a revision to the tree / stage the object;
        # the delegation to the public create_object (object does not exist yet) is a different path
        sites = []
        for s_ in cg.sites[u.path]:
            if s_.callee is None or s_.fanout:
                continue
            e_ = eff.site_effects(s_)
            if (("revisiontree::RevisionTree", "revisions") in e_ or ("datastorage::DataStorage", "stage") in e_) and \
                    not any(t_.public and t_.impl_adt == "melda::Melda" for t_ in s_.targets):
                sites.append(s_)
        res.floor("U2", "tree add + object write in update_object", len(sites), 1)
        from ..conds import all_edge_lits
        from ..cfg import cfg_of as _cfg
        ucfg = _cfg(u)
        edges = all_edge_lits(u, facts)

        def is_ne_true(l):
            if not (l.kind == "call" and callee_name(l.term) in ("ne", "eq") and l.truth == (callee_name(l.term) == "ne")):
                return False
            a0, a1 = l.term[2][0], l.term[2][1]
            return (contains_call(a0, "digest_object") and contains_call(a1, "get_winner")) or (contains_call(a1, "digest_object") and contains_call(a0, "get_winner"))

        def is_array_true(l):
            return l.kind == "call" and callee_name(l.term) == "is_array_descriptor" and l.truth is True
        ne_edges = {e for e, l in edges if is_ne_true(l)}
        arr_edges = {e for e, l in edges if is_array_true(l)}
        some_edges = [e for e, l in edges if l.kind == "variant" and l.variants == {"Some"} and contains_call(l.term, R.name("diff_maker"))]
        for s in sites:
            g_some = any(l.kind == "variant" and l.variants == {"Some"} and contains_call(l.term, R.name("diff_maker")) for l in lits_of(u, s.block, facts))
            # plain objects: recorded only if the digest changed
            plain_guarded = bool(ne_edges) and bool(some_edges) and not any(ucfg.reaches(se, s.block, avoid=ne_edges | arr_edges) for se in some_edges)
            if not plain_guarded and some_edges:
                # the tests may be hoisted into named booleans (`let unchanged = !is_descriptor && digest == winner.digest`):
                # feasible-path search with the flags' definitions asserted at their tests
                from ..pathcond import reaches_avoiding
                plain_guarded = not reaches_avoiding(u, some_edges, s.block, lambda l: is_ne_true(l) or is_array_true(l), facts)
            # array descriptors are stored as edit scripts against the winner: "unchanged" means "empty script" (the None
            # edge), never "same digest as the previous script" - a non-empty script must always be recorded
            array_recorded = bool(some_edges) and any(ucfg.reaches(se, s.block, avoid=ne_edges) for se in some_edges)
            if array_recorded and some_edges and not ne_edges:
                from ..pathcond import reaches_avoiding as _ra
                array_recorded = _ra(u, some_edges, s.block, is_ne_true, facts)
            res.instance("U2", "update_object: %s: behind the non-empty-diff edge (%s); plain objects need digest != winner.digest (%s); a non-empty array edit script is recorded whatever its digest (%s)" % (
                s.name(), g_some, plain_guarded, array_recorded), s.loc())
            if not (g_some and plain_guarded):
                res.violation("U2", "update_object|%s-without-change-test" % s.name(), "update_object calls %s without `digest != winner.digest` for plain objects (%s) / without the non-empty-diff test (%s)" % (s.name(), plain_guarded, g_some), s.loc())
            if not array_recorded:
                res.violation("U2", "update_object|%s-array-script-compared-by-digest" % s.name(),
                              "update_object reaches %s only through `digest != winner.digest`, also for array descriptors: a descriptor is an edit script "
                              "relative to the winner, so two successive identical scripts (e.g. removing the first element twice) have the same digest and the "
                              "second edit is silently dropped" % s.name(), s.loc())
        cd = R.body("diff_maker")
        if cd is not None:
            ok_none = ok_some = False
            du = du_of(cd)
            from ..conds import _decode_bool, _strip_var
            # sites that answer None / Some: aggregates, and `cond.then(|| v)` / `cond.then_some(v)` (None iff !cond)
            opt_sites = []
            for ob, st in assigns_of_return(cd, "Ok"):
                t = du.rvalue_term(st.rv, 14)
                inner = peel(t[3][0]) if t[3] else ("cut",)
                base = list(lits_of(cd, ob, facts))
                if inner[0] == "agg" and inner[2] in ("None", "Some"):
                    opt_sites.append((ob, inner[2], base))
                elif inner[0] == "call" and callee_name(inner) in ("then", "then_some") and inner[2]:
                    cond = inner[2][0]
                    opt_sites.append((ob, "Some", base + [_decode_bool(_strip_var(cond), True, ob, cond)]))
                    opt_sites.append((ob, "None", base + [_decode_bool(_strip_var(cond), False, ob, cond)]))
            for ob, variant, ls in opt_sites:
                for l in ls:
                    if l.kind == "call" and callee_name(l.term) == "is_empty" and contains_call(l.term[2][0], "make_diff_patch"):
                        if variant == "None" and l.truth is True:
                            ok_none = True
                        if variant == "Some" and l.truth is False:
                            ok_some = True
            # `unchanged` (None) presupposes a live winner: the order at a deleted descriptor is the empty array, so an
            # empty script against it would leave the array deleted although it was just submitted (as `[]`)
            def live_lits(ls):
                return any(l.kind == "call" and callee_name(l.term) == "is_deleted" and l.truth is False and l.term[2] and
                           contains_call(l.term[2][0], "get_winner") for l in ls)

            def live_winner(body, block):
                return live_lits(lits_of(body, block, facts))
            none_sites = [(ob, ls) for ob, variant, ls in opt_sites if variant == "None"]
            callers_ok = True
            cs_ = [s_ for s_ in cg_of(facts).callers_of(cd.path) if s_.body.path != cd.path]
            for s_ in cs_:
                callers_ok = callers_ok and live_winner(s_.body, s_.block)
            live_ok = bool(none_sites) and (all(live_lits(ls) for ob, ls in none_sites) or (bool(cs_) and callers_ok))
            res.instance("U2", cd.name + ": `unchanged` (None) only for a winner that is not a deletion: %s" % live_ok, cd.loc())
            if not live_ok:
                res.violation("U2", "diff-maker|unchanged-although-winner-deleted",
                              cd.name + " reports `unchanged` (None) for an empty edit script without testing that the winner is not a deletion: "
                              "the order at a deleted descriptor is [], so re-submitting the array as [] leaves its descriptor deleted and read() "
                              "cannot resolve the reference", cd.loc())
            base_ok = False
            for bi, t in cd.calls():
                if t.callee is not None and t.callee.name == "make_diff_patch":
                    a0 = arg_term(cd, t, 0, 20)
                    a1 = arg_term(cd, t, 1, 20)
                    base_ok = contains_call(a0, R.name("rebuilder")) and contains_call(a0, "get_winner") and any(x[0] == "param" and x[1] == 2 for x in walk(a1))
            res.instance("U2", cd.name + ": None iff the edit script is empty (%s/%s); diff = (order at winner) -> (submitted order): %s" % (ok_none, ok_some, base_ok), cd.loc())
            if not (ok_none and ok_some and base_ok):
                res.violation("U2", "diff-maker|none-iff-empty", cd.name + ": None on empty script: %s, Some otherwise: %s, diff(old = winner order, new = submitted): %s" % (ok_none, ok_some, base_ok), cd.loc())

    # ------------------------------------------------------------------ U3
    def consts_of(path, names):
        b = facts.body(path)
        out = set()
        if b is None:
            return None
        from ..common import members_of as _mo0
        for cb in _mo0(facts, b):
            for bi, t in cb.calls():
                if t.callee is not None and t.callee.name in names:
                    for i in range(len(t.args)):
                        for x in walk(arg_term(cb, t, i, 6)):
                            if x[0] == "const" and x[1] == "str":
                                out.add(x[2])
        return out
    # ------------------------------------------------------------------ U4 references are uniquely decodable
    # ------------------------------------------------------------------ U5 update always diffs
    # `update` answers Ok only after both of its passes ran over the submitted document: the pass that deletes the objects that left the
    # document and the pass that creates / updates the submitted ones. A shortcut return ("same fingerprint as the last submission")
    # is a cache of "nothing to do" that every other way of changing the replica (refresh, meld + refresh, time travel) must invalidate -
    # and one of them forgotten means a re-submitted document is silently ignored and read() keeps returning something else.
    from ..common import pass_anchors, bypassing_returns
    res.rule("U5", "update returns Ok only after the deletion pass and the update pass over the submitted document")
    ub = facts.body("melda::Melda::update")
    if ub is None:
        res.floor("U5", "Melda::update", 0, 1)
    else:
        names = ("update_object", "delete_object", "create_object")
        anchors = pass_anchors(facts, ub, lambda t: t.callee is not None and t.callee.name in names and
                               (t.callee.impl_adt or "").endswith("melda::Melda") or (t.callee is not None and t.callee.path in tuple("melda::Melda::" + n_ for n_ in names)), depth=2)
        byp, oks = bypassing_returns(ub, anchors)
        res.instance("U5", "update: %d passes (%s); successful returns: %d; returns that bypass a pass: %d" % (
            len(anchors), sorted({s_.term.callee.name for s_ in anchors.values()}), len(oks), len(byp)), ub.loc())
        res.floor("U5", "per-object passes of update (deletion pass, update pass)", len(anchors), 2)
        res.floor("U5", "successful returns of update", len(oks), 1)
        if byp:
            a_, o_ = byp[0]
            res.violation("U5", "update|success-bypasses-diff-pass",
                          "update can return Ok without running its pass at line %s over the submitted document: the submission is acknowledged and "
                          "ignored, a following read() returns what was there before" % ub.blocks[a_].term.line, ub.loc(ub.blocks[o_].term.line))

    # ------------------------------------------------------------------ U6 a vanished object is deleted unless its *winner* is a deletion
    # `update` deletes the objects that left the document through delete_object; the deletion is recorded whenever the object's winning
    # revision is neither a deletion nor a resolution marker. A guard that looks at the other leaves ("some leaf is already a deletion")
    # leaves an object with a losing deleted leaf and a winning live leaf in the document although it was submitted without it.
    from ..conds import unaccepted as _un6
    from ..common import inlined_sites as _is6
    res.rule("U6", "delete_object records the deletion under nothing but `the winner is neither a deletion nor a marker`")
    dob = facts.body("melda::Melda::delete_object")
    n6 = 0
    if dob is not None:
        for s_ in _is6(facts, dob, lambda t: t.callee is not None and t.callee.target() in ("revisiontree::RevisionTree::add", "revisiontree::RevisionTree::unvalidated_add")):
            if not contains_call(s_.args[1] if len(s_.args) > 1 else ("cut",), "new_deleted"):
                continue
            n6 += 1

            def ok6(l):
                if l.kind == "variant":
                    return True
                if l.kind == "call" and callee_name(l.term) in ("is_deleted", "is_resolved") and l.truth is False and l.term[2]:
                    return contains_call(l.term[2][0], "get_winner")
                return False
            extra = [repr(l) for l in _un6(s_.lits, ok6)]
            res.instance("U6", "delete_object: the deletion is recorded unless the winner is a deletion / marker (other conditions: %s)" % (extra or "none"), s_.loc())
            if extra:
                res.violation("U6", "delete_object|deletion-skipped-under-extra-condition",
                              "delete_object records the deletion only under the additional condition %s: an object whose winner is live can stay in the "
                              "document although it was submitted without it" % extra[:2], s_.loc())
    # U6b: the deletion is recorded on top of a revision that is (still) in the tree: nothing delete_object reaches rolls the tree back
    # (RevisionTree::unstage, a retain on the revisions) - dropping the pending edits first leaves the deletion with a parent that is
    # gone, validate ignores it, and the object the submitted document no longer contains stays alive
    if dob is not None:
        for s_ in _is6(facts, dob, lambda t: t.callee is not None and (t.callee.target() == "revisiontree::RevisionTree::unstage" or
                                                                      (t.callee.name in ("retain", "remove", "clear") and "revision::Revision" in t.callee.full and "HashMap" in t.callee.path))):
            res.violation("U6", "delete_object|tree-rolled-back-before-deletion",
                          "delete_object removes revisions from the tree (%s) before it records the deletion: the deletion's parent may be one of the "
                          "revisions just dropped" % s_.term.callee.name, s_.loc())
    res.floor("U6", "deletion sites in delete_object", n6, 1)

    # ------------------------------------------------------------------ U7 reserved digests are dispatched before the character-code test
    # The digests of the deleted and the empty revision ("d", "e") are themselves valid character codes (hexadecimal, at most 8 digits):
    # wherever DataStorage::read_object builds the value of a character object, the deleted / empty kinds whose digest is hexadecimal
    # must have been excluded - otherwise an empty object reads back as {"#":"e"}.
    res.rule("U7", "read_object answers the character-code kind only after the reserved kinds whose digest is a character code")
    ro = facts.body("datastorage::DataStorage::read_object")
    n7 = 0
    if ro is not None:
        import string as _string
        kinds = {"is_deleted": facts.const_str("constants::DELETED_HASH"), "is_empty": facts.const_str("constants::EMPTY_HASH"),
                 "is_resolved": facts.const_str("constants::RESOLVED_HASH")}
        hexlike = sorted(k_ for k_, v_ in kinds.items() if v_ and len(v_) <= 8 and all(ch in _string.hexdigits for ch in v_))
        from ..common import members_of as _mo7
        for m_ in _mo7(facts, ro):
            seen7 = set()
            for bi_, blk_ in enumerate(m_.blocks):
                if blk_.cleanup:
                    continue
                ls_ = lits_of(m_, bi_, facts)
                cc_ = [l for l in ls_ if l.kind == "call" and callee_name(l.term) == "is_charcode" and l.truth is True and not l.implied]
                if not cc_ or cc_[0].block in seen7:
                    continue
                seen7.add(cc_[0].block)
                n7 += 1
                missing = [k_ for k_ in hexlike if not any(l.kind == "call" and callee_name(l.term) == k_ and l.truth is False for l in ls_)]
                res.instance("U7", "read_object: the character-code branch is entered only after %s were excluded: %s" % (hexlike, not missing), m_.loc())
                if missing:
                    res.violation("U7", "read_object|charcode-before-reserved-kind:%s" % ",".join(missing),
                                  "DataStorage::read_object tests is_charcode before %s although the digest of that kind is itself a character code: "
                                  "such a revision reads back as a character object" % missing, m_.loc())
    res.floor("U7", "character-code branches in read_object", n7, 1)

    # ------------------------------------------------------------------ U8 escaped strings are recognised before references are resolved
    # A string value of a flattened field is either an escaped user string (prefix '!') or a reference. User strings are arbitrary, so
    # the escape test comes first: every look-up of the string in the collection of objects is reached only under
    # `starts_with(ESCAPE_PREFIX) = false`. (Elements of a flattened array are references by construction - those look-ups are exempt.)
    res.rule("U8", "unflatten resolves a string as a reference only after the escape-prefix test failed")
    uf = facts.body("utils::unflatten")
    esc = facts.const_str("constants::STRING_ESCAPE_PREFIX")
    n8 = 0
    if uf is not None and esc:
        from ..common import members_of as _mo8
        for m_ in _mo8(facts, uf):
            for bi, t in m_.calls():
                if t.callee is None or t.callee.name not in ("remove", "get", "contains_key", "get_mut", "remove_entry") or "HashMap" not in t.callee.path or len(t.args) < 2:
                    continue
                k_ = arg_term(m_, t, 1, 14)
                if contains_call(k_, "next") or contains_call(k_, "as_str") or contains_call(k_, "iter"):
                    continue        # an element of a flattened array / a key taken from a descriptor
                if not any(x[0] == "downcast" or (x[0] == "field" and x[2] in ("0",)) for x in walk(k_)):
                    continue
                n8 += 1
                ok8 = any(l.kind == "call" and callee_name(l.term) == "starts_with" and l.truth is False and
                          any(y[0] == "const" and y[1] == "str" and y[2] == esc for y in walk(l.term)) for l in lits_of(m_, bi, facts))
                res.instance("U8", "unflatten: %s of a string value in the object collection only after starts_with(%r) failed: %s" % (t.callee.name, esc, ok8), m_.loc(t.line))
                if not ok8:
                    res.violation("U8", "unflatten|reference-before-escape",
                                  "unflatten looks a string value up as a reference (%s) before testing the escape prefix %r: a user string that equals "
                                  "'!' + the identifier of a live object is replaced by that object" % (t.callee.name, esc), m_.loc(t.line))
    res.floor("U8", "reference look-ups of string values in unflatten", n8, 1)

    res.rule("U4", "object references are uniquely decodable: no accepted identifier carries a prefix the decoder dispatches on; generated identifiers are injective in the path")
    gi = facts.body("utils::generate_identifier")
    ufb = facts.body("utils::unflatten")
    if gi is None or ufb is None:
        res.floor("U4", "generate_identifier / unflatten", 0, 2)
    else:
        def prefix_consts(body, t):
            """string constants a `starts_with`-like test in term t compares with (through the crate's own predicates)"""
            out = set()
            for x in walk(t):
                if x[0] != "call" or x[4] is None:
                    continue
                if callee_name(x) in ("starts_with", "strip_prefix"):
                    for a in x[2][1:]:
                        out |= {y[2] for y in walk(a) if y[0] == "const" and y[1] == "str"}
                tb = facts.body(x[4].target())
                if tb is not None and tb.path.startswith("utils::") and tb.local_ty(0) == "bool":
                    out |= consts_of(tb.path, {"starts_with"}) or set()
            return out
        # decoder: prefixes of a string *value* on which unflatten dispatches
        dec = set()
        from ..common import members_of as _mo1
        for cb in _mo1(facts, ufb):
            for bi in range(len(cb.blocks)):
                for l in lits_of(cb, bi, facts):
                    if l.kind == "call" and l.truth is True:
                        dec |= prefix_consts(cb, l.term)
        # encoder: prefixes for which generate_identifier refuses a user identifier
        rej = set()
        for ob, st in assigns_of_return(gi, "Err"):
            for l in lits_of(gi, ob, facts):
                if l.kind == "call" and l.truth is True:
                    rej |= prefix_consts(gi, l.term)
        res.instance("U4", "unflatten dispatches on the prefixes %s of a string value; generate_identifier rejects user identifiers starting with %s" % (sorted(dec), sorted(rej)), gi.loc())
        res.floor("U4", "decoder prefixes", len(dec), 2)
        for pfx in sorted(dec - rej):
            res.violation("U4", "generate_identifier|accepts-identifier-with-decoder-prefix:%s" % pfx,
                          "generate_identifier accepts a user identifier that starts with %r, but unflatten decides by that prefix that a string is not an "
                          "object reference: the reference to such an object is decoded as something else and the object disappears from the document" % pfx, gi.loc())
        # generated identifiers: digest of an injective encoding of the path
        n_gen = 0
        from ..common import members_of as _mog
        for gim, bi, t in [(m_, bi_, t_) for m_ in _mog(facts, gi) for bi_, t_ in m_.calls()]:
            if t.callee is None or t.callee.target() != "utils::digest_string":
                continue
            n_gen += 1
            a = arg_term(gim, t, 0, 16)
            joins = [x for x in walk(a) if x[0] == "call" and callee_name(x) in ("join", "concat")]
            inj = True
            why = ""
            for j in joins:
                comp = j[2][0] if j[2] else ("cut",)
                mapped = any(x[0] == "call" and callee_name(x) in ("map", "collect") for x in walk(comp))
                if not mapped:
                    inj = False
                    sep = [y[2] for y in walk(j[2][1]) if y[0] == "const"] if len(j[2]) > 1 else ([""] if callee_name(j) == "concat" else [])
                    why = "plain join of the path components with separator %r" % (sep[0] if sep else "?")
            if not joins and not any(x[0] == "call" and callee_name(x) in ("to_string", "to_vec", "to_value") and "serde_json" in ((x[4].path if x[4] else "") or "") for x in walk(a)):
                inj, why = False, "unrecognised path encoding"
            res.instance("U4", "generated identifier = digest of an injective encoding of the path: %s %s" % (inj, why), gi.loc(t.line))
            if not inj:
                res.violation("U4", "generate_identifier|path-encoding-not-injective",
                              "generate_identifier hashes a non-injective encoding of the path (%s): path components are arbitrary user strings, so different "
                              "paths (['x','yz'] and ['xy','z']) give the same generated identifier and two objects of one document collapse into one" % why, gi.loc(t.line))
        res.floor("U4", "generated-identifier sites", n_gen, 1)
        # array descriptor identifiers: built in flatten from the owner's identifier and the field key
        flb = facts.body("utils::flatten")
        adp_ = facts.const_str("constants::ARRAY_DESCRIPTOR_PREFIX")
        n_desc = 0
        if flb is not None:
            from ..common import members_of
            for cb in members_of(facts, flb):
                for bi, t in cb.calls():
                    if t.callee is None or t.callee.name != "insert" or "HashMap" not in (t.callee.path or "") or len(t.args) < 3:
                        continue
                    k = arg_term(cb, t, 1, 40)
                    consts = [y[2] for y in walk(k) if y[0] == "const" and y[1] == "str"]
                    if adp_ not in consts:
                        continue
                    n_desc += 1
                    adds = [x for x in walk(k) if x[0] == "call" and callee_name(x) == "add"]
                    parts = set()
                    for x in adds:
                        for a in x[2]:
                            if not any(y[0] == "call" and callee_name(y) == "add" for y in walk(a)):
                                roots_ = {(y[0], y[1]) for y in walk(a) if y[0] in ("var", "param", "upvar")}
                                if roots_ and not any(y[0] == "const" for y in walk(a)):
                                    parts.add(tuple(sorted(roots_)))
                    # `format!("{}{}{}{}", PREFIX, owner, SEPARATOR, key)`: each displayed non-constant argument is a component
                    for x in walk(k):
                        if x[0] == "call" and callee_name(x) in ("new_display", "new_debug") and x[2]:
                            a = x[2][0]
                            roots_ = {(y[0], y[1]) for y in walk(a) if y[0] in ("var", "param", "upvar")}
                            if roots_ and not any(y[0] == "const" for y in walk(a)):
                                parts.add(tuple(sorted(roots_)))
                    hashed = any(x[0] == "call" and callee_name(x) in ("digest_string", "digest_bytes", "to_string") and
                                 "serde_json" in ((x[4].path if x[4] else "") or "") + callee_name(x) for x in walk(k) if callee_name(x) != "to_string")
                    inj = len(parts) <= 1 or hashed
                    res.instance("U4", "array descriptor identifier: %d variable component(s) concatenated with constant separators; injective: %s" % (len(parts), inj), cb.loc(t.line))
                    if not inj:
                        res.violation("U4", "flatten|descriptor-identifier-not-injective",
                                      "flatten names an array descriptor by concatenating %d arbitrary user strings (owner identifier, field key) with a constant "
                                      "separator: ('a@b','c♭') and ('a','b@c♭') give the same descriptor identifier, the two arrays share one descriptor" % len(parts), cb.loc(t.line))
        res.floor("U4", "array descriptor identifier sites in flatten", n_desc, 1)
        # U4c: generated identifiers name a *position*: the path handed down when flatten descends into the value of a field
        # extends the object's path by the object's identifier and by the field key (otherwise anonymous objects under
        # different fields of one parent get the same generated identifier and overwrite each other)
        if flb is not None:
            from ..flows import flow_of
            from ..conds import capture_term
            n_rec = 0
            mem = members_of(facts, flb)
            mem_paths = {m_.path for m_ in mem}

            def key_locals(mb):
                """locals holding the key of an object entry: field 0 of a (key, value) pair - the tuple parameter of a closure
                mapped over the object, or the payload of next() of an iteration over a serde_json Map"""
                out_ = set()
                pair_locals = set()
                if mb.kind == "closure" and mb.argc >= 2 and mb.local_ty(2).startswith("("):
                    pair_locals.add(2)
                du_ = du_of(mb)
                for bi_, t_ in mb.calls():
                    if t_.callee is not None and t_.callee.name == "next" and "serde_json::map::" in ((t_.callee.self_ty or "") + (t_.callee.full or "")) and t_.dest is not None:
                        pair_locals.add(t_.dest.local)
                # locals copied from the pair (`_p = ((_n as Some).0)`) and then field 0 of them
                changed_ = True
                while changed_:
                    changed_ = False
                    for blk in mb.blocks:
                        for st in blk.stmts:
                            if st.kind != "assign" or st.place.proj:
                                continue
                            pl = st.rv.place() if st.rv.kind in ("ref", "rawptr") else (st.rv.operands()[0].place if st.rv.kind == "use" and st.rv.operands() else None)
                            if pl is None or pl.local not in pair_locals:
                                continue
                            flds = [p_ for p_ in pl.proj if p_["k"] == "field"]
                            tup = [p_ for p_ in flds if p_.get("of", "") == "" or not str(p_.get("of", "")).endswith("Some")]
                            if tup and tup[-1]["i"] == 0 and mb.local_ty(st.place.local).replace("&", "").strip().startswith(("std::string::String", "str")):
                                if st.place.local not in out_:
                                    out_.add(st.place.local)
                                    changed_ = True
                            elif not tup or mb.local_ty(st.place.local).startswith("("):
                                if st.place.local not in pair_locals:
                                    pair_locals.add(st.place.local)
                                    changed_ = True
                return out_
            _memo = {}

            def prov(mb, local, depth=0):
                k_ = (mb.path, local)
                if k_ in _memo:
                    return _memo[k_]
                _memo[k_] = set()
                out_ = set()
                fl_ = flow_of(mb)
                kl = key_locals(mb)
                for n_ in fl_.local_sources(local):
                    if n_[0] == "call":
                        c_ = mb.blocks[n_[1]].term.callee
                        if c_ is not None and c_.name == "generate_identifier":
                            out_.add("id")
                    elif n_[0] == "l":
                        if n_[1] in kl:
                            out_.add("key")
                        if 1 <= n_[1] <= mb.argc and mb.kind != "closure":
                            if mb.path == flb.path:
                                if n_[1] == 3:
                                    out_.add("in")
                            elif depth < 3:
                                for cs in cg_of(facts).callers_of(mb.path):
                                    if cs.body.path in mem_paths and n_[1] - 1 < len(cs.term.args) and cs.term.args[n_[1] - 1].place is not None:
                                        out_ |= prov(cs.body, cs.term.args[n_[1] - 1].place.local, depth + 1)
                    elif n_[0] == "pfield" and n_[1] == 1 and mb.kind == "closure" and str(n_[2]).isdigit() and depth < 3:
                        ct = capture_term(mb, int(n_[2]), facts)
                        pb_ = facts.body(mb.direct_parent or mb.parent)
                        x_ = ct
                        while x_ is not None and x_[0] in ("ref", "deref", "cast"):
                            x_ = x_[1]
                        if x_ is not None and pb_ is not None:
                            if x_[0] == "var":
                                out_ |= prov(pb_, x_[1], depth + 1)
                            elif x_[0] == "param" and pb_.path == flb.path and x_[1] == 3:
                                out_.add("in")
                            elif x_[0] == "param" and pb_.kind != "closure":
                                out_ |= prov(pb_, x_[1], depth + 1)
                _memo[k_] = out_
                return out_
            for cb in mem:
                for bi, t in cb.calls():
                    if t.callee is None or t.callee.target() != flb.path or len(t.args) < 3 or t.args[2].place is None:
                        continue
                    pv = prov(cb, t.args[2].place.local)
                    if pv <= {"in"}:
                        continue            # the incoming path handed on unchanged (elements of an array share their owner's path)
                    n_rec += 1
                    has_in, has_id, has_key = "in" in pv, "id" in pv, "key" in pv
                    ok_ = has_key and has_id and has_in
                    res.instance("U4", "flatten: the path handed to the recursion for a field value extends the incoming path (%s) by the object's identifier (%s) and the field key (%s)" % (
                        has_in, has_id, has_key), cb.loc(t.line))
                    if not ok_:
                        res.violation("U4", "flatten|field-path-not-extended:%s" % ("key" if not has_key else "identifier" if not has_id else "path"),
                                      "flatten descends into the value of a field with a path that does not contain %s: generated identifiers are hashes of the path, so "
                                      "anonymous objects at different positions (e.g. under two flattened fields of one parent) get the same identifier and one "
                                      "overwrites the other" % ("the field key" if not has_key else "the owner's identifier" if not has_id else "the incoming path"), cb.loc(t.line))
            res.floor("U4", "recursive descents of flatten into field values", n_rec, 1)

    pre = facts.const_str("constants::STRING_ESCAPE_PREFIX")
    e1 = consts_of("utils::escape", {"to_string", "add", "new_display", "push_str", "from", "to_owned", "concat", "join"})
    e2 = consts_of("utils::unescape", {"strip_prefix"})
    e3 = consts_of("utils::unflatten", {"starts_with"})
    res.instance("U3", "escape prefix: escape %s / unescape %s / unflatten %s / constant %r" % (e1, e2, e3, pre), None)
    if not (e1 == e2 == e3 == {pre}):
        res.violation("U3", "escape-prefix", "escape (%s), unescape (%s) and unflatten (%s) do not all use STRING_ESCAPE_PREFIX %r" % (e1, e2, e3, pre))
    fl = facts.body("utils::flatten")
    uf = facts.body("utils::unflatten")
    if fl is not None and uf is not None:
        from ..common import members_of as _mo

        def calls_in(b, nm):
            return sum(1 for cb in _mo(facts, b) for _, t in cb.calls() if t.callee is not None and t.callee.target() == nm)
        f1, f2 = calls_in(fl, "utils::is_flattened_field"), calls_in(uf, "utils::is_flattened_field")
        esc = calls_in(fl, "utils::escape")
        une = calls_in(uf, "utils::unescape")
        ad = calls_in(uf, "utils::is_array_descriptor")
        res.instance("U3", "flatten/unflatten both classify keys with is_flattened_field (%d/%d); flatten escapes (%d), unflatten unescapes (%d), unflatten recognises descriptors with is_array_descriptor (%d)" % (f1, f2, esc, une, ad), fl.loc())
        if not (f1 and f2 and esc and une and ad):
            res.violation("U3", "flatten-unflatten-predicates", "flatten and unflatten no longer use the same classification predicates", fl.loc())
        adp = facts.const_str("constants::ARRAY_DESCRIPTOR_PREFIX")
        iad = consts_of("utils::is_array_descriptor", {"starts_with"})
        mk = set()
        for cb in _mo(facts, fl):
            for bi, t in cb.calls():
                if t.callee is not None and t.callee.name in ("to_string", "new_display", "to_owned", "from", "into"):
                    for x in walk(arg_term(cb, t, 0, 8)):
                        if x[0] == "const" and x[1] == "str":
                            mk.add(x[2])
        res.instance("U3", "descriptor prefix: is_array_descriptor tests %s, flatten builds ids with %s, constant %r" % (iad, sorted(mk), adp), fl.loc())
        if iad != {adp} or adp not in mk:
            res.violation("U3", "descriptor-prefix", "flatten names array descriptors with %s but is_array_descriptor tests %s" % (sorted(mk), iad), fl.loc())
        of = facts.const_str("constants::ARRAY_DESCRIPTOR_ORDER_FIELD")
        wr = of in mk
        rdk = set()
        for cb in _mo(facts, uf):
            for bi, t in cb.calls():
                if t.callee is not None and t.callee.name == "get" and "serde_json::Map" in t.callee.path:
                    for x in walk(arg_term(cb, t, 1, 6)):
                        if x[0] == "const" and x[1] == "str":
                            rdk.add(x[2])
        res.instance("U3", "order field: flatten writes %r (%s), unflatten reads %s" % (of, wr, sorted(rdk)), fl.loc())
        if not wr or rdk != {of}:
            res.violation("U3", "order-field", "flatten writes the array order under %r, unflatten reads %s" % (of, sorted(rdk)), uf.loc())
        # the identifier field removed by flatten is the one added back by read
        idf = facts.const_str("constants::ID_FIELD")
        rd = facts.body("melda::Melda::read")
        added = set()
        if rd is not None:
            for cb in facts.closures_of(rd.path):
                for bi, t in cb.calls():
                    if t.callee is not None and t.callee.name == "insert" and "serde_json::Map" in t.callee.path:
                        for x in walk(arg_term(cb, t, 1, 8)):
                            if x[0] == "const" and x[1] == "str":
                                added.add(x[2])
        removed = set()
        from ..common import members_of as _mo2
        for cb in _mo2(facts, fl):
            for bi, t in cb.calls():
                if t.callee is not None and t.callee.name in ("ne", "eq"):
                    for i in (0, 1):
                        for x in walk(arg_term(cb, t, i, 8)):
                            if x[0] == "const" and x[1] == "str":
                                removed.add(x[2])
        res.instance("U3", "identifier field: flatten drops %s, read adds %s, constant %r" % (sorted(removed), sorted(added), idf), fl.loc())
        if removed != {idf} or added != {idf}:
            res.violation("U3", "id-field", "flatten drops %s but read adds back %s (ID_FIELD = %r)" % (sorted(removed), sorted(added), idf), fl.loc())
    else:
        res.floor("U3", "flatten / unflatten", 0, 2)


def thorough(res):
    from .. import engine
    engine.sensitivity("C04", res)
