"""C12 - Maintenance operations never change the visible document (structural clauses)."""
from ..defuse import du_of, walk, peel, callee_name, fmt
from ..conds import lits_of
from ..callgraph import cg_of
from ..effects import effects_of, REPLICA_STATE
from ..flows import flow_of
from ..roles import roles_of
from ..common import arg_term, contains_call, field_path

TEXT = ("Q1 (effect analysis): the transitive write-effect summary of meld contains no field of replica state "
        "(documents, revision trees, block map, blocks, data stage / object index / applied packs) and neither cache; "
        "through the write guard on the data storage meld only calls the lister, the raw item writer and the "
        "applied-pack accessor. Q2 (provenance): the object that resolve_as (hence commit-time auto-resolution) and "
        "stage_full_snapshot stage as new winner derives from the same reconstruction function that read uses for the "
        "visible value, applied to the same tree and the revision being re-asserted. Q3: commit's automatic resolution "
        "passes the tree's current winner as the chosen revision and only for trees with more than one leaf. Does not "
        "decide 'read before = read after' as a value equality for commit, snapshots, or no-op refresh / reload."
        " Q2c: stage_full_snapshot stages nothing for an array whose winner is a deletion.")
TECHNIQUE = 'static analysis over rustc MIR: write-effect summaries of maintenance operations, value provenance of snapshots and resolutions (view at the winner), idempotence guards in refresh'
TRUSTED = ["rustc nightly MIR", "effect summaries over the resolved call graph (closures, dyn Adapter fan-out)", "C07/V2"]

def _own_data_guard(r, b, m):
    """receiver derives from the write guard on *self*.data taken in meld (closures see it as a captured variable)"""
    def is_guard_term(t):
        for x in walk(t):
            if x[0] == "call" and x[4] is not None and x[4].path == "std::sync::RwLock::<T>::write":
                a = x[2][0]
                if any(y[0] == "field" and y[2] == "data" for y in walk(a)) and any(y[0] == "param" and y[1] == 1 for y in walk(a)):
                    return True
        return False
    if b is m:
        return is_guard_term(r)
    for x in walk(r):
        if x[0] == "upvar":
            for i, l in enumerate(m.locals):
                if l.get("name") == x[2] and is_guard_term(du_of(m).local_term(i, 16)):
                    return True
    return False


CACHES = {("datastorage::DataStorage", "cache"), ("melda::Melda", "array_descriptors_cache")}


def run(facts, res):
    R = roles_of(facts)
    cg = cg_of(facts)
    eff = effects_of(facts)
    res.rule("Q1", "meld has no write effect on replica state or caches; it touches the data storage only through lister / raw writer / applied_packs")
    res.rule("Q2", "re-asserted objects come from the same reconstruction function read uses, on the same tree and revision")
    res.rule("Q3", "commit auto-resolves array conflicts in favour of the current winner")
    res.rule("Q4", "refresh is incremental: it (re)loads only blocks and packs it does not hold yet")

    m = facts.body("melda::Melda::meld")
    if m is None:
        res.floor("Q1", "meld", 0, 1)
    else:
        e = eff.of(m.path)
        bad = sorted(x for x in e if x in REPLICA_STATE or x in CACHES)
        ctrl = sorted(x for x in eff.of("melda::Melda::commit") if x in REPLICA_STATE)
        res.instance("Q1", "meld write effects: %s (replica state / caches among them: %s); positive control: commit's summary holds %d replica-state fields" % (
            sorted("%s.%s" % (o.rsplit("::", 1)[-1], f) for o, f in e), bad, len(ctrl)), m.loc())
        res.floor("Q1", "effect analysis positive control (commit)", len(ctrl), 8)
        for (o, f) in bad:
            # name the path
            via = ""
            for s in cg.sites[m.path] + [s for cb in facts.closures_of(m.path) for s in cg.sites[cb.path]]:
                if (o, f) in eff.site_effects(s):
                    via = "%s at %s" % (s.name(), s.loc())
                    break
            res.violation("Q1", "meld|writes:%s.%s" % (o.rsplit("::", 1)[-1], f), "meld (transitively) writes %s.%s via %s: melding must only copy items into storage" % (o, f, via), m.loc())
        names = set()
        for b in [m] + facts.closures_of(m.path):
            for bi, t in b.calls():
                c = t.callee
                if c is not None and c.impl_self == "datastorage::DataStorage" and t.args:
                    r = arg_term(b, t, 0, 20)
                    if _own_data_guard(r, b, m):
                        names.add(c.name)
        res.instance("Q1", "DataStorage methods meld calls through its write guard: %s" % sorted(names), m.loc())
        extra = names - {R.name("lister"), R.name("raw_write"), "applied_packs"}
        if extra or not names:
            res.violation("Q1", "meld|data-methods:%s" % ",".join(sorted(extra)), "meld calls %s on its own data storage; only list_raw_items / write_raw_item / applied_packs are storage-only" % sorted(extra), m.loc())

    # ------------------------------------------------------------------ Q4
    rf = facts.body("melda::Melda::refresh")
    if rf is not None:
        ins = [(mb_, bi, t) for mb_ in [rf] + facts.closures_of(rf.path) for bi, t in mb_.calls()
               if t.callee is not None and t.callee.name == "insert" and t.args and "deltas" in field_path(arg_term(mb_, t, 0))[0]]
        ok = bool(ins)
        for mb_, bi, t in ins:
            g = False
            # roots of the key: named locals, and (in the closures of an adaptor chain) the chain's element = parameter 2
            def roots(t_, clos):
                return {(x[0], x[1]) for x in walk(t_) if x[0] == "var" or (clos and x[0] == "param" and x[1] == 2)}
            kv = roots(arg_term(mb_, t, 1, 12), mb_.kind == "closure")
            for l in lits_of(mb_, bi, facts):
                if l.kind == "call" and callee_name(l.term) == "contains_key" and l.truth is False and "deltas" in field_path(l.term[2][0])[0] and \
                        (roots(l.term[2][1], mb_.kind == "closure") & kv):
                    g = True
            ok = ok and g
        res.instance("Q4", "refresh inserts a block only if the block map does not contain its id: %s" % ok, rf.loc())
        if not ok:
            res.violation("Q4", "refresh|reloads-known-blocks", "refresh (re)inserts blocks it already holds: an applied block would be replaced by a Pending copy and applied again", rf.loc())
    dr = facts.body("datastorage::DataStorage::refresh")
    if dr is not None:
        pl = R.path("pack_loader")
        from ..common import inlined_sites as _is4

        def _loads(t):
            tb_ = facts.body(t.callee.target()) if t.callee is not None else None
            return tb_ is not None and (tb_.path == pl or cg.reaches(tb_, pl))
        loads = list(_is4(facts, dr, _loads))
        ok = bool(loads)
        for s_ in loads:
            # roots of the pack id: named locals, and the element of the adaptor chain when the load sits in its closure
            def roots(t_, clos):
                return {(x[0], x[1]) for x in walk(t_) if x[0] == "var" or (clos and x[0] == "param" and x[1] >= 2)}
            clos = s_.body.kind == "closure"
            kv = set()
            for a_ in s_.args[1:]:
                kv |= roots(a_, clos)
            g = any(l.kind == "call" and callee_name(l.term) == "contains" and l.truth is False and
                    ("applied_pack_ids" in field_path(l.term[2][0])[0] or any(x[0] == "upvar" and "applied_pack_ids" in str(x[2]) for x in walk(l.term[2][0])) or
                     any(x[0] == "field" and x[2] == "applied_pack_ids" for x in walk(l.term[2][0]))) and
                    (roots(l.term[2][1], clos) & kv) for l in s_.lits)
            ok = ok and g
        res.instance("Q4", "DataStorage::refresh loads a pack only if it is not in the applied-pack set: %s" % ok, dr.loc())
        if not ok:
            res.violation("Q4", "DataStorage::refresh|reloads-applied-packs", "DataStorage::refresh re-applies packs that are already applied", dr.loc())

    # ------------------------------------------------------------------ Q2
    rd = facts.body("melda::Melda::read")
    recon = None
    if rd is not None:
        for cb in facts.closures_of(rd.path):
            for bi, t in cb.calls():
                if t.callee is not None and t.callee.name == "insert" and len(t.args) >= 3:
                    v = arg_term(cb, t, 2, 24)
                    for x in walk(v):
                        if x[0] == "call" and x[4] is not None and x[4].impl_self == "melda::Melda" and "Map<" in (facts.body(x[1]).local_ty(0) if facts.body(x[1]) else ""):
                            recon = x[1]
    res.instance("Q2", "reconstruction function used by read: %s" % recon, rd.loc() if rd else None)
    if recon is None:
        res.floor("Q2", "read's reconstruction function", 0, 1)
    else:
        n2 = 0
        for name, callee, argi in (("melda::Melda::resolve_as", "update_object", 2), ("melda::Melda::stage_full_snapshot", "write_object", 2)):
            b = facts.body(name)
            if b is None:
                continue
            from ..common import inlined_sites

            def stages(t, _b=b):
                """a call that stages an object: a public operation / storage method with a write effect on the data stage
                (the crate's private helpers are entered instead)"""
                tb = facts.body(t.callee.target())
                if tb is None or t.callee.virtual:
                    return False
                helper = tb.in_repo() and not tb.public and tb.kind != "closure" and tb.impl_trait is None and tb.impl_adt == _b.impl_adt
                return not helper and ("datastorage::DataStorage", "stage") in eff.of(tb.path)
            for s_ in inlined_sites(facts, b, stages):
                t = s_.term
                if t.callee.target() in ("melda::Melda::delete_object",):
                    continue
                n2 += 1
                # the object handed over for staging: whichever argument carries the reconstruction
                cands = list(s_.args)
                obj = next((c_ for c_ in cands if any(x[0] == "call" and x[1] == recon for x in walk(c_))), cands[-1] if cands else ("cut",))
                calls = [x for x in walk(obj) if x[0] == "call" and x[1] == recon]
                ok = bool(calls)
                same_tree = False
                for x in calls:
                    # tree argument derives from a lock on the document's tree; revision argument is the one re-asserted
                    same_tree = contains_call(x[2][2], "lock")
                res.instance("Q2", "%s: object passed to %s derives from %s on the locked tree: %s/%s" % (name, callee, recon.rsplit("::", 1)[-1], ok, same_tree), s_.loc())
                if not (ok and same_tree):
                    res.violation("Q2", "%s|reasserts-raw-value" % name, "%s re-asserts %s, which does not come from %s (the function read uses): arrays in conflict would change" % (name, fmt(obj, 5), recon), s_.loc())
        res.floor("Q2", "re-assertion sites (resolve_as, stage_full_snapshot)", n2, 2)
        # the snapshot re-asserts the current winner
        sf = facts.body("melda::Melda::stage_full_snapshot")
        if sf is not None:
            ok = False
            from ..common import members_of as _mo12
            for mb_ in _mo12(facts, sf):
                for bi, t in mb_.calls():
                    if t.callee is not None and t.callee.target() == recon:
                        ok = contains_call(arg_term(mb_, t, 3, 20), "get_winner")
            res.instance("Q2", "stage_full_snapshot reconstructs at get_winner(): %s" % ok, sf.loc())
            if not ok:
                res.violation("Q2", "stage_full_snapshot|not-at-winner", "stage_full_snapshot does not snapshot the view at the current winner", sf.loc())

        # Q2c: a snapshot never re-asserts an array whose winner is a deletion: every staging call of stage_full_snapshot is dominated
        # by `!winner.is_deleted()` on the revision obtained from get_winner (a live but losing leaf that is still an edit script must
        # not bring a deleted array back)
        if sf is not None:
            from ..common import inlined_sites as _is12
            n2c = 0
            for s_ in _is12(facts, sf, lambda t: t.callee is not None and t.callee.name in ("write_object", "add", "update_object", "create_object") and
                            t.callee.target() not in (recon,)):
                n2c += 1
                ok = any(l.kind == "call" and callee_name(l.term) == "is_deleted" and l.truth is False and l.term[2] and contains_call(l.term[2][0], "get_winner")
                         for l in s_.lits)
                res.instance("Q2", "stage_full_snapshot: %s only when the winner is not a deletion: %s" % (s_.term.callee.name, ok), s_.loc())
                if not ok:
                    res.violation("Q2", "stage_full_snapshot|snapshot-over-deleted-winner",
                                  "stage_full_snapshot can stage a full descriptor (%s) although the winning revision of the array is a deletion: the "
                                  "array comes back to life in the view" % s_.term.callee.name, s_.loc())
            res.floor("Q2", "staging calls of stage_full_snapshot", n2c, 1)

    # ------------------------------------------------------------------ Q3
    c = facts.body("melda::Melda::commit")
    if c is not None:
        fl = flow_of(c)
        sites = [(bi, t) for bi, t in c.calls() if t.callee is not None and t.callee.target() == "melda::Melda::resolve_as"]
        res.floor("Q3", "resolve_as call in commit", len(sites), 1)
        gw = {bi for bi, t in c.calls() if t.callee is not None and t.callee.target() == "revisiontree::RevisionTree::get_winner"}
        for bi, t in sites:
            src = fl.operand_sources(t.args[2])
            from_winner = bool(fl.call_blocks(src) & gw)
            other = {bb for bb in fl.call_blocks(src) if c.blocks[bb].term.callee is not None and c.blocks[bb].term.callee.name in ("get_leafs", "get_conflicting", "iter")
                     and c.blocks[bb].term.callee.target() == "revisiontree::RevisionTree::get_leafs"}
            # the descriptor is queued only when it has more than one leaf
            guarded = False
            for pb, pt in c.calls():
                if pt.callee is not None and pt.callee.name == "push" and pb in fl.call_blocks(fl.sources([("l", a.place.local) for a in t.args if a.place is not None])) or \
                        (pt.callee is not None and pt.callee.name == "push"):
                    for l in lits_of(c, pb, facts):
                        if l.kind == "cmp" and l.term[1] == "Gt" and l.truth is True and contains_call(l.term[2], "get_leafs"):
                            guarded = True
            direct = any(l.kind == "cmp" and l.term[1] == "Gt" and l.truth is True and contains_call(l.term[2], "get_leafs") for l in lits_of(c, bi, facts))
            # the list of (descriptor, winner) pairs may be produced by a private helper (`self.conflicting_array_descriptors()?`):
            # the same two facts are then read inside the helper and its closures
            from ..common import members_of
            for hbk in fl.call_blocks(src):
                hc = c.blocks[hbk].term.callee
                hb = facts.body(hc.target()) if hc is not None else None
                if hb is None or not hb.in_repo() or hb.public or hb.kind == "closure" or hb.impl_adt != c.impl_adt:
                    continue
                for m in members_of(facts, hb):
                    mfl = flow_of(m)
                    mgw = {b2 for b2, t2 in m.calls() if t2.callee is not None and t2.callee.target() == "revisiontree::RevisionTree::get_winner"}
                    if mgw & mfl.call_blocks(mfl.local_sources(0)):
                        from_winner = True
                    mdu = du_of(m)
                    for blk in m.blocks:
                        for st in blk.stmts:
                            if st.kind == "assign" and st.rv.kind == "binop" and st.rv.j["op"] in ("Gt", "Ge", "Lt", "Le"):
                                tt = mdu.rvalue_term(st.rv, 12)
                                if contains_call(tt, "len") and contains_call(tt, "get_leafs"):
                                    guarded = True
            # ... or by an adaptor chain of commit itself (a helper spliced in by the inliner): the closures whose results flow into the
            # list are read the same way
            if not from_winner or not (guarded or direct):
                for m in facts.closures_of(c.path):
                    mfl = flow_of(m)
                    mgw = {b2 for b2, t2 in m.calls() if t2.callee is not None and t2.callee.target() == "revisiontree::RevisionTree::get_winner"}
                    if mgw & mfl.call_blocks(mfl.local_sources(0)):
                        from_winner = True
                    mdu = du_of(m)
                    for blk in m.blocks:
                        for st in blk.stmts:
                            if st.kind == "assign" and st.rv.kind == "binop" and st.rv.j["op"] in ("Gt", "Ge", "Lt", "Le"):
                                tt = mdu.rvalue_term(st.rv, 12)
                                if contains_call(tt, "len") and contains_call(tt, "get_leafs"):
                                    guarded = True
            res.instance("Q3", "commit: resolve_as(uuid, chosen): chosen derives from get_winner(): %s (from leaves: %s); only for trees with > 1 leaf: %s" % (
                from_winner, bool(other), guarded or direct), c.loc(t.line))
            if not from_winner or other:
                res.violation("Q3", "commit|auto-resolve-not-winner", "commit's automatic resolution does not pass the tree's current winner as the chosen revision", c.loc(t.line))
            if not (guarded or direct):
                res.violation("Q3", "commit|auto-resolve-unconditional", "commit auto-resolves trees that are not in conflict", c.loc(t.line))
        from ..common import members_of as _mo3
        ad = any(t.callee is not None and t.callee.name == "is_array_descriptor" for m_ in _mo3(facts, c) for _, t in m_.calls())
        res.instance("Q3", "commit restricts auto-resolution to array descriptors: %s" % ad, c.loc())
        if not ad:
            res.violation("Q3", "commit|auto-resolves-objects", "commit auto-resolves conflicts of ordinary objects", c.loc())


def thorough(res):
    from .. import engine
    engine.sensitivity("C12", res)
