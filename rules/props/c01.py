"""C01 - Replicas holding the same committed history converge (structural lemmas)."""
from ..cfg import cfg_of
from ..defuse import du_of, walk, peel, callee_name, fmt
from ..conds import lits_of
from ..callgraph import cg_of
from ..roles import roles_of
from ..common import arg_term, contains_call, field_path, MUTATORS
from . import c02

TEXT = ("Decides the four structural lemmas the implementation's convergence argument rests on; each is a necessary "
        "condition (breaking it makes state depend on arrival order). L1 (who-may-write on RevisionTree.revisions): the "
        "only mutators are an insert-if-absent keyed by revision, a retain on the staging flag and the per-entry flag "
        "reset. L2: the leaf/winner caches are cleared and recomputed from the map by one function, and every "
        "operation that applies remote changes passes through that recomputation for all trees before any normal return "
        "(post-dominance through the rayon closure); add() and unstage() re-validate. L3: the array-merge fold and the "
        "conflict listing iterate a BTreeSet<Revision> (content-defined order). L4: reload and refresh apply every block "
        "of the whole block map that is Ready, and parse every listed block name. L5: meld offers every item of the peer: "
        "each copy loop iterates the peer's whole set and a copy is guarded only by absence on this side, the exclusion of "
        "the other two item classes, and the success of the verified read (no further selection). Relies on C05 (deterministic winner), "
        "C18 (no order taint), C19 (canonical identifiers), C10/C11 (verified, content-named items). L1b: every insertion into the revision map is post-dominated by an invalidation of the derived caches. Does not decide "
        "equality of the merged *values* over all histories and delivery orders."
        " L1c: the inserting function returns without inserting only when that very revision is already recorded. L4c: a listed block is registered under per-item success / absence from the block map only, and the listing loop runs over the whole listing (no positional or stop-at-first adaptor; filters are per-item guards). L4d: the applier's loop over the change records of a block has no exit that still ends in Ok. L5c: no successful return of meld bypasses one of its copy passes (the self-meld return excepted). L6: no read-path memo of a value that depends on the tree's current leaf set / winner unless the key carries that state whole.")
TECHNIQUE = 'static analysis over rustc MIR: who-may-write on the revision map, post-dominance of re-validation through rayon closures, iteration-source typing, guard-literal whitelist on meld copies'
TRUSTED = ["rustc nightly MIR", "HashMap keyed insert / BTreeSet order semantics", "C05, C18, C19, C10, C11"]

TREE = "revisiontree::RevisionTree"


def run(facts, res):
    R = roles_of(facts)
    cg = cg_of(facts)
    res.rule("L1", "RevisionTree.revisions is mutated only by insert-if-absent, retain(!staging) and the per-entry flag reset")
    res.rule("L2", "derived state is recomputed from scratch after every batch of insertions, for all trees, before returning")
    res.rule("L3", "folds over leaves iterate an ordered, content-defined set (BTreeSet<Revision>)")
    res.rule("L4", "reload / refresh apply every Ready block of the whole block map and parse every listed name")

    # ------------------------------------------------------------------ L1
    muts = []
    for b in facts.repo_bodies():
        if b.impl_trait in ("std::clone::Clone", "std::fmt::Debug"):
            continue
        for bi, t in b.calls():
            c = t.callee
            if c is None or not t.args or c.name not in MUTATORS:
                continue
            fp, root = field_path(arg_term(b, t, 0, 14))
            if fp[:1] == ["revisions"] and (b.impl_adt == TREE or TREE in (b.parent or "")):
                muts.append((b, bi, t))
        for blk in b.blocks:
            if blk.cleanup:
                continue
            for st in blk.stmts:
                if st.kind == "assign" and st.place.proj and any(p["k"] == "field" and p["n"] == "revisions" and p.get("of") == TREE for p in st.place.proj):
                    if b.name != "new":
                        res.violation("L1", "%s|assigns-revisions" % b.path, "%s overwrites the revision map" % b.path, b.loc(st.line))
    res.floor("L1", "mutators of RevisionTree.revisions", len(muts), 1)
    for (b, bi, t) in muts:
        n = t.callee.name
        ok = False
        why = ""
        if n == "insert" and "VacantEntry" in (t.callee.path + (t.callee.self_ty or "")):
            ok = True
            why = "VacantEntry::insert (the slot is vacant by construction)"
        elif n == "entry":
            # the entry API: insert-if-absent as long as an occupied entry is never written
            bad_ = [tt.callee.name for _, tt in b.calls() if tt.callee is not None and
                    (("OccupiedEntry" in (tt.callee.path + (tt.callee.self_ty or "")) and tt.callee.name in ("insert", "remove", "remove_entry", "get_mut", "into_mut", "replace_entry", "replace_key")) or
                     ("Entry" in (tt.callee.path + (tt.callee.self_ty or "")) and tt.callee.name in ("and_modify", "insert_entry")))]
            ok = not bad_
            why = "entry(): only a vacant entry is filled (or_insert* / VacantEntry::insert)"
        elif n == "insert":
            key = arg_term(b, t, 1, 10)
            kv = {x[1] for x in walk(key) if x[0] in ("param", "var")}
            for l in lits_of(b, bi, facts):
                if l.kind == "call" and callee_name(l.term) == "contains_key" and l.truth is False and \
                        "revisions" in field_path(l.term[2][0])[0] and ({x[1] for x in walk(l.term[2][1]) if x[0] in ("param", "var")} & kv):
                    ok = True
            why = "insert under !contains_key(same key)"
        elif n == "retain":
            cl = [x for x in walk(arg_term(b, t, 1, 8)) if x[0] == "closure"]
            if cl:
                cb = facts.body(cl[0][1])
                rt = du_of(cb).local_term(0, 10)
                inner = rt
                while inner[0] == "var":
                    inner = inner[3]
                neg = peel(inner[2]) if inner[0] == "unop" and inner[1] == "Not" else ("cut",)
                ok = (neg[0] == "call" and callee_name(neg) == "is_staging") or \
                    (neg[0] == "field" and neg[2] == "staging" and (neg[3] if len(neg) > 3 else "").endswith("RevisionTreeEntry"))   # the flag itself
            why = "retain(|_, e| !e.is_staging())"
        elif n in ("values_mut", "iter_mut"):
            # the loop body may only call the per-entry flag reset
            others = [tt.callee.target() for _, tt in b.calls() if tt.callee is not None and tt.callee.impl_adt == "revisiontree::RevisionTreeEntry"]
            # `values_mut().for_each(RevisionTreeEntry::commit)`: the per-entry function is passed as a fn item
            for _, tt in b.calls():
                if tt.callee is not None and tt.callee.name in ("for_each", "map", "try_for_each") and tt.args:
                    for i_ in range(len(tt.args)):
                        for x in walk(arg_term(b, tt, i_, 6)):
                            if x[0] == "const" and x[1] == "fn" and "RevisionTreeEntry" in x[2]:
                                others.append(x[2] if x[2].startswith("revisiontree::") else "revisiontree::" + x[2].split("revisiontree::")[-1])
            ok = set(others) <= {"revisiontree::RevisionTreeEntry::commit"} and bool(others)
            ec = facts.body("revisiontree::RevisionTreeEntry::commit")
            if ec is not None:
                written = {p["n"] for blk in ec.blocks for st in blk.stmts if st.kind == "assign" and st.place.proj for p in st.place.proj if p["k"] == "field"}
                ok = ok and written == {"staging"}
            why = "values_mut only to reset the per-entry staging flag"
        res.instance("L1", "%s: %s on revisions: %s: %s" % (b.path, n, why or "unrecognised", ok), b.loc(t.line))
        if not ok:
            res.violation("L1", "%s|mutator:%s" % (b.path, n),
                          "%s mutates the revision map with `%s`, which is not one of the order-insensitive forms (insert-if-absent by revision, retain on the staging flag, per-entry flag reset)" % (b.path, n), b.loc(t.line))

    # L1b (added after seed C07-g1): every insertion into the revision map invalidates the derived leaf / winner caches: the
    # function that inserts assigns the non-validated state on every path from the insertion to its return (or re-validates)
    n1b = 0
    for (b, bi, t) in muts:
        if not (t.callee.name == "insert" or (t.callee.name == "entry")):
            continue
        if t.callee.name == "entry" and any(tt.callee is not None and "VacantEntry" in (tt.callee.path + (tt.callee.self_ty or "")) and tt.callee.name == "insert" for _, tt in b.calls()):
            continue        # counted at the VacantEntry::insert site
        n1b += 1
        bcfg = cfg_of(b)
        inval = []
        for blk in b.blocks:
            if blk.cleanup:
                continue
            for st in blk.stmts:
                if st.kind == "assign" and st.place.proj and st.place.proj[-1]["k"] == "field" and st.place.proj[-1]["n"] == "state" and \
                        st.place.proj[-1].get("of") == TREE:
                    vt = du_of(b).rvalue_term(st.rv, 6)
                    if any(x[0] == "agg" and x[2] == "NonValidated" for x in walk(vt)) or (vt[0] == "const"):
                        inval.append(blk.idx)
            tt = blk.term
            if tt.kind == "call" and tt.callee is not None and tt.callee.target() == TREE + "::validate":
                inval.append(blk.idx)
        ok = any(x == bi or bcfg.postdominates(x, bi) for x in inval)
        res.instance("L1", "%s: every path from the insertion to the return invalidates (or recomputes) the leaf / winner caches: %s" % (b.path, ok), b.loc(t.line))
        if not ok:
            res.violation("L1", "%s|insertion-without-invalidation" % b.path,
                          "%s can insert a revision and return without marking the tree non-validated: operations that re-validate only non-validated trees "
                          "(or none at all) keep stale leaves / winner, e.g. a resolution marker that arrives from another replica does not seal its leaf" % b.path, b.loc(t.line))
    res.floor("L1", "insertions into the revision map checked for invalidation", n1b, 1)
    # L1c: the inserting function records every revision it is given unless that revision is already recorded: a return that
    # bypasses the insertion is taken only on `present` (contains_key true / an occupied entry). A further refusal (a marker whose
    # parent has not arrived yet, a revision above some index) makes the recorded set depend on the order of arrival.
    from ..common import assigns_of_return
    n1c = 0
    for (b, bi, t) in muts:
        if t.callee.name not in ("insert", "entry") or b.kind == "closure":
            continue
        if t.callee.name == "entry" and not any(tt.callee is not None and tt.callee.name.startswith("or_insert") for _, tt in b.calls()):
            ins_blocks = [x for x, tt in b.calls() if tt.callee is not None and "VacantEntry" in (tt.callee.path + (tt.callee.self_ty or "")) and tt.callee.name == "insert"]
        elif t.callee.name == "entry":
            ins_blocks = [x for x, tt in b.calls() if tt.callee is not None and tt.callee.name.startswith("or_insert")]
        else:
            ins_blocks = [bi]
        if not ins_blocks or (t.callee.name == "insert" and "VacantEntry" in (t.callee.path + (t.callee.self_ty or "")) and
                              any(tt.callee is not None and tt.callee.name == "entry" for _, tt in b.calls())):
            continue
        n1c += 1
        bcfg = cfg_of(b)
        bad = []
        for rb_, st in assigns_of_return(b):
            if any(bcfg.dominates(i_, rb_) or i_ == rb_ for i_ in ins_blocks):
                continue
            if not bcfg.reaches(0, rb_, avoid=set(ins_blocks)):
                continue
            present = False
            kroot = _plain_root(arg_term(b, t, 1, 12)) if t.callee.name in ("insert", "entry") and len(t.args) > 1 else None
            for l in lits_of(b, rb_, facts):
                if l.kind == "call" and callee_name(l.term) in ("contains_key", "contains") and l.truth is True and "revisions" in field_path(l.term[2][0])[0] and \
                        (kroot is None or _plain_root(l.term[2][1]) == kroot):     # presence of *this* revision, not of some other key
                    present = True
                if l.kind == "variant" and l.variants == {"Occupied"}:
                    present = True
                if l.kind == "variant" and l.variants == {"Some"} and callee_name(peel(l.term)) in ("get", "get_key_value") and \
                        "revisions" in field_path(peel(l.term)[2][0])[0]:
                    present = True
            if not present:
                bad.append(st.line)
        res.instance("L1", "%s: a return that bypasses the insertion is taken only when the revision is already recorded: %s" % (b.path, not bad), b.loc(t.line))
        if bad:
            res.violation("L1", "%s|revision-refused-under-extra-condition" % b.path,
                          "%s can return without recording a revision that is not yet in the map: whether a revision is kept then depends on what "
                          "arrived before it (e.g. a resolution marker delivered ahead of the revision it seals is dropped for good)" % b.path,
                          b.loc(bad[0]))
    res.floor("L1", "inserting functions checked for completeness", n1c, 1)

    # ------------------------------------------------------------------ L2
    v = facts.body("revisiontree::RevisionTree::validate")
    if v is None:
        res.floor("L2", "validate", 0, 1)
    else:
        cfg = cfg_of(v)
        clears = [bi for bi, t in v.calls() if t.callee is not None and t.callee.name == "clear" and "leafs_cache" in field_path(arg_term(v, t, 0))[0]]
        resets = [blk.idx for blk in v.blocks if not blk.cleanup for st in blk.stmts if st.kind == "assign" and st.place.proj and
                  st.place.proj[-1].get("n") == "winner_cache" and st.rv.kind == "use" and
                  peel(du_of(v).rvalue_term(st.rv, 6))[0] == "agg" and peel(du_of(v).rvalue_term(st.rv, 6))[2] == "None"]
        # the sites that fill the caches again: inserts / extends of the leaf set, non-None assignments of the winner (in loops
        # or after a pipeline)
        loops = [bi for bi, t in v.calls() if t.callee is not None and t.callee.name in ("insert", "extend") and t.args and
                 "leafs_cache" in field_path(arg_term(v, t, 0))[0]]
        loops += [blk.idx for blk in v.blocks if not blk.cleanup for st in blk.stmts if st.kind == "assign" and st.place.proj and
                  st.place.proj[-1].get("n") == "winner_cache" and blk.idx not in resets]
        ok = bool(clears) and bool(resets) and bool(loops) and all(cfg.dominates(c_, l) for c_ in clears for l in loops) and \
            all(cfg.dominates(r, l) for r in resets for l in loops)
        res.instance("L2", "validate clears leafs_cache and winner_cache before its loop: %s" % ok, v.loc())
        if not ok:
            res.violation("L2", "validate|caches-not-reset", "validate does not clear leafs_cache / winner_cache before recomputing them", v.loc())
        writers = set()
        for b in facts.repo_bodies():
            if b.impl_trait is not None or b.name == "new":
                continue
            for blk in b.blocks:
                for st in blk.stmts:
                    if st.kind == "assign" and st.place.proj and any(p["k"] == "field" and p["n"] in ("leafs_cache", "winner_cache") and p.get("of") == TREE for p in st.place.proj):
                        writers.add(b.path)
            for bi, t in b.calls():
                if t.callee is not None and t.callee.name in MUTATORS and t.args and field_path(arg_term(b, t, 0, 10))[0][:1] == ["leafs_cache"]:
                    writers.add(b.path)
        res.instance("L2", "writers of the derived caches: %s" % sorted(writers), v.loc())
        if writers != {v.path}:
            res.violation("L2", "cache-writers:%s" % ",".join(sorted(writers)), "leafs_cache / winner_cache must be written by validate only, found %s" % sorted(writers))
    # callers of unvalidated_add
    ua = "revisiontree::RevisionTree::unvalidated_add"
    callers = sorted({s.body.path for s in cg.callers_of(ua)})
    res.instance("L2", "callers of unvalidated_add: %s" % callers, None)
    appliers = [p for p in callers if p != "revisiontree::RevisionTree::add"]
    if R.body("applier") is not None:
        appliers = [R.path("applier")]       # the function applying a whole block (possibly through a per-record helper)
    addb = facts.body("revisiontree::RevisionTree::add")
    if addb is not None:
        cfg = cfg_of(addb)
        ua_sites = [bi for bi, t in addb.calls() if t.callee is not None and t.callee.target() == ua]
        va_sites = [bi for bi, t in addb.calls() if t.callee is not None and t.callee.target() == "revisiontree::RevisionTree::validate"]
        ok = bool(ua_sites) and bool(va_sites)
        for vb in va_sites:
            # validate runs on the `inserted == true` edge
            ok = ok and any(l.truth is True and l.kind in ("call", "flag", "other") for l in lits_of(addb, vb, facts))
        # and the false edge performs no other mutation (nothing was inserted)
        res.instance("L2", "RevisionTree::add = unvalidated_add + validate when something was inserted: %s" % ok, addb.loc())
        if not ok:
            res.violation("L2", "add|no-revalidation", "RevisionTree::add does not re-validate after a successful insertion", addb.loc())
    ub = facts.body("revisiontree::RevisionTree::unstage")
    if ub is not None:
        cfg = cfg_of(ub)
        rs = [bi for bi, t in ub.calls() if t.callee is not None and t.callee.name == "retain"]
        vs = [bi for bi, t in ub.calls() if t.callee is not None and t.callee.target() == "revisiontree::RevisionTree::validate"]
        ok = bool(rs) and bool(vs) and all(any(cfg.postdominates(vb, rb) for vb in vs) for rb in rs)
        res.instance("L2", "RevisionTree::unstage re-validates on every path after dropping staged entries: %s" % ok, ub.loc())
        if not ok:
            res.violation("L2", "unstage|no-revalidation", "RevisionTree::unstage does not re-validate after retain()", ub.loc())
    n_ops = 0
    for ap in appliers:
        apb = facts.body(ap)
        # public operations reaching the applier
        for opb in facts.repo_bodies():
            if opb.kind == "closure" or opb.impl_adt != "melda::Melda" or opb.path == ap:
                continue
            a_sites = [s for s in cg.sites[opb.path] if any(t.path == ap or cg.reaches(t, ap) for t in s.targets + s.closures)]
            if not a_sites:
                continue
            # direct appliers only (operations calling through another checked operation are covered there)
            a_sites = [s for s in a_sites if any(t.path == ap for t in s.targets) or any(cg.reaches(t, ap) and t.kind == "closure" for t in s.closures)]
            if not a_sites:
                continue
            n_ops += 1
            cfg = cfg_of(opb)
            v_sites = [s for s in cg.sites[opb.path] if _revalidates_all(facts, cg, opb, s, 0)]
            whole = bool(v_sites)
            ok = bool(v_sites) and whole and all(any(cfg.postdominates(vs.block, a.block) for vs in v_sites) for a in a_sites)
            res.instance("L2", "%s: validation of all trees post-dominates every application of remote changes: %s" % (opb.path, ok), opb.loc())
            if not ok:
                res.violation("L2", "%s|apply-without-revalidation" % opb.path,
                              "%s can return normally after applying remote changes without re-validating every revision tree "
                              "(validate sites: %d, whole document map: %s)" % (opb.path, len(v_sites), whole), opb.loc())
    res.floor("L2", "operations applying remote changes", n_ops, 2)

    # ------------------------------------------------------------------ L3
    lt = facts.struct_field_ty(TREE, "leafs_cache")
    res.instance("L3", "RevisionTree.leafs_cache: %s" % lt, None)
    if lt is None or "BTreeSet<revision::Revision>" not in lt:
        res.violation("L3", "leafs_cache-type", "RevisionTree.leafs_cache is %s, not a BTreeSet<Revision>: folds over leaves would not be content-ordered" % lt)
    n3 = 0
    for b in facts.repo_bodies():
        du = du_of(b)
        for bi, t in b.calls():
            if t.callee is None or t.callee.target() != "utils::merge_arrays":
                continue
            n3 += 1
            # the enclosing loop's iterator
            ok = False
            for l in lits_of(b, bi, facts):
                if l.kind == "variant" and l.variants == {"Some"}:
                    pt = peel(l.term)
                    if pt[0] == "call" and callee_name(pt) == "next":
                        for x in walk(pt):
                            if x[0] == "call" and x[4] is not None and callee_name(x) in ("into_iter", "iter") and \
                                    "BTreeSet<revision::Revision>" in (x[4].self_ty or x[4].full):
                                ok = contains_call(pt, "get_leafs")
            if not ok and b.kind == "closure":
                from ..common import iter_chain as _ic3
                # pipeline form: the fold step sits in the closure of `leafs.iter().for_each / try_for_each(..)`, possibly one level
                # further down inside an Option / Result combinator (`rebuild(l).map(|o| merge_arrays(&o, &mut acc))`)
                cb_, hops_ = b, 0
                while cb_ is not None and cb_.kind == "closure" and hops_ < 4 and not ok:
                    hops_ += 1
                    nxt_ = None
                    for cs_ in cg.callers_of(cb_.path):
                        if cb_ not in cs_.closures or cs_.callee is None or not cs_.term.args:
                            continue
                        rc_ = arg_term(cs_.body, cs_.term, 0, 30)
                        if cs_.callee.name in ("for_each", "try_for_each", "fold", "try_fold"):
                            names_ = [callee_name(x) for x in _ic3(rc_)]
                            sel_ = set(names_) & {"take", "skip", "step_by", "take_while", "skip_while", "rev", "filter", "filter_map"}
                            ok = contains_call(rc_, "get_leafs") and not sel_ and any(
                                x[0] == "call" and x[4] is not None and callee_name(x) in ("into_iter", "iter") and
                                "BTreeSet" in ((x[4].self_ty or "") + x[4].full) and "revision::Revision" in ((x[4].self_ty or "") + x[4].full)
                                for x in walk(rc_))
                        elif cs_.callee.name in ("map", "and_then", "map_or", "map_or_else", "inspect", "iter"):
                            nxt_ = cs_.body
                        break
                    cb_ = nxt_
            dst = arg_term(b, t, 1, 10)
            res.instance("L3", "%s: merge fold iterates get_leafs() as a BTreeSet<Revision>: %s" % (b.path, ok), b.loc(t.line))
            if not ok:
                res.violation("L3", "%s|merge-fold-order" % b.path, "%s folds merge_arrays over an iteration that is not the BTreeSet of leaves" % b.path, b.loc(t.line))
    res.floor("L3", "merge_arrays fold sites", n3, 1)

    # ------------------------------------------------------------------ L4
    n4 = 0
    for name in ("melda::Melda::reload", "melda::Melda::refresh"):
        b = facts.body(name)
        if b is None:
            continue
        n4 += 1
        ok = False
        for s in cg.sites[b.path]:
            if s.callee is None or s.callee.name != "for_each":
                continue
            if not any(any(t.path in appliers for t in ss.targets) for cb in s.closures for ss in cg.sites[cb.path]):
                continue
            recv = arg_term(b, s.term, 0, 30)
            from ..common import iter_chain, PARTIAL_ADAPTERS
            chain = iter_chain(recv)
            names = [callee_name(x) for x in chain]
            # the chain starts at the block map itself (not at some other collection whose closure merely looks blocks up)
            src_ok = bool(chain) and any(callee_name(c_) in ("iter", "par_iter", "values", "into_iter") and c_[2] and
                                         any(x[0] == "field" and x[2] == "deltas" for x in walk(c_[2][0], False)) for c_ in chain)
            whole = src_ok and not (set(names) & (PARTIAL_ADAPTERS | {"flat_map", "map_while", "find", "find_map"}))
            ready = all(c02.status_guard(cb, ss.block, facts) == "Ready" for cb in s.closures for ss in cg.sites[cb.path]
                        if any(t.path in appliers for t in ss.targets))
            ok = whole and ready
        if not ok:
            # loop form: `for delta in self.deltas.read().unwrap().values() { if status == Ready { apply } }`
            for ss in cg.sites[b.path]:
                if not any(t.path in appliers for t in ss.targets):
                    continue
                for l in lits_of(b, ss.block, facts):
                    if l.kind == "variant" and l.variants == {"Some"} and not l.derived:
                        pt = peel(l.term)
                        if pt[0] == "call" and callee_name(pt) == "next" and pt[2] and cfg_of(b).is_loop_header(pt[3]):
                            from ..common import iter_chain, PARTIAL_ADAPTERS
                            chain = iter_chain(pt[2][0])
                            names = [callee_name(x) for x in chain]
                            src_ok = bool(chain) and any(callee_name(c_) in ("iter", "values", "into_iter") and c_[2] and
                                                         any(x[0] == "field" and x[2] == "deltas" for x in walk(c_[2][0], False)) for c_ in chain)
                            whole = src_ok and not (set(names) & (PARTIAL_ADAPTERS | {"flat_map", "map_while", "find", "find_map"}))
                            if whole and c02.status_guard(b, ss.block, facts) == "Ready":
                                ok = True
        res.instance("L4", "%s applies every block of the whole block map whose status is Ready: %s" % (name, ok), b.loc())
        if not ok:
            res.violation("L4", "%s|not-all-ready-blocks" % name, "%s does not apply every Ready block of the complete block map" % name, b.loc())
    for name in ("melda::Melda::reload", "melda::Melda::refresh", "melda::Melda::reload_until"):
        b = facts.body(name)
        if b is None:
            continue
        n4 += 1
        de = facts.const_str("constants::DELTA_EXTENSION")
        ok = False
        for bi, t in b.calls():
            if t.callee is not None and t.callee.target() == "melda::DeltaId::from":
                a = arg_term(b, t, 0, 30)
                names = [callee_name(x) for x in walk(a, False) if x[0] == "call"]
                lists = [x for x in walk(a) if x[0] == "call" and callee_name(x) == R.name("lister")]
                if lists and de in [y[2] for y in walk(lists[0][2][1]) if y[0] == "const" and y[1] == "str"] and \
                        not (set(names) & {"take", "skip", "filter", "step_by", "take_while", "skip_while"}):
                    ok = True
        if not ok:
            # pipeline form: `list.iter().filter_map(|item| DeltaId::from(item).ok())...`: the parser is applied, inside a closure,
            # to the element of a chain that starts at the listing and has no selecting adaptor upstream
            for cb in facts.closures_of(b.path):
                for bi, t in cb.calls():
                    if t.callee is None or t.callee.target() != "melda::DeltaId::from":
                        continue
                    if not any(x[0] == "param" and x[1] == 2 for x in walk(arg_term(cb, t, 0, 12))):
                        continue
                    for cs in cg.callers_of(cb.path):
                        if cb not in cs.closures or not cs.term.args:
                            continue
                        up = arg_term(cs.body, cs.term, 0, 40)
                        names = [callee_name(x) for x in iter_chain(up)]
                        lists = [x for x in walk(up) if x[0] == "call" and callee_name(x) == R.name("lister")]
                        if lists and de in [y[2] for y in walk(lists[0][2][1]) if y[0] == "const" and y[1] == "str"] and \
                                not (set(names) & {"take", "skip", "filter", "step_by", "take_while", "skip_while", "filter_map", "rev", "nth"}):
                            ok = True
        res.instance("L4", "%s parses every name of the complete block listing: %s" % (name, ok), b.loc())
        if not ok:
            res.violation("L4", "%s|listing-not-complete" % name, "%s does not parse every name returned by list_raw_items(DELTA_EXTENSION)" % name, b.loc())
    res.floor("L4", "apply / parse loops", n4, 3)
    # L4c: every listed block that parses, can be fetched and loads is registered in the block map: inside the listing loop the
    # insertion is guarded by nothing but those per-item successes (and, for the incremental form, absence from the map). A further
    # selection (an index horizon, a status, a prefix) makes the set of known blocks depend on something else than the stored items.
    from ..common import inlined_sites
    from ..conds import unaccepted

    def _reg_guard_ok(l):
        if l.kind == "variant":
            return bool(l.variants) and l.variants <= {"Ok", "Some", "Continue"}
        if l.kind == "cmp" and l.term[1] in ("Eq", "Ne") and any(x[0] == "discr" or (x[0] == "call" and callee_name(x) == "discriminant_value") for x in walk(l.term)) and \
                not any(x[0] == "call" and callee_name(x) not in ("discriminant_value", "ok", "branch", "from", "next", "into_iter", "iter", R.name("fetcher"), R.name("loader"), "as_ref", "as_deref")
                        and x[4] is not None and x[4].krate in ("melda",) for x in walk(l.term)):
            return True     # a variant test written as a comparison of the discriminant (a joined Option / Result of the per-item steps)
        if l.kind == "call":
            n_ = callee_name(l.term)
            if n_ in ("contains_key", "contains"):
                # "not yet in the block map": absence from any other collection (a set of ids that failed before, a cache) is a selection
                return l.truth is False and bool(l.term[2]) and "deltas" in field_path(l.term[2][0])[0]
            if n_ in ("is_err", "is_none", "is_empty"):
                return l.truth is False
            if n_ in ("is_ok", "is_some"):
                return l.truth is True
        return False
    n4c = 0
    for name in ("melda::Melda::reload", "melda::Melda::refresh", "melda::Melda::reload_until"):
        b = facts.body(name)
        if b is None:
            continue
        for s in inlined_sites(facts, b, lambda t: _container_call(t, ("insert",)) and len(t.args) >= 3, depth=2):
            if _self_field(s.body, s.term) != "deltas" and not any(
                    x[0] == "field" and x[2] == "deltas" for x in walk(s.args[0] if s.args else ("cut",), False)):
                continue
            n4c += 1
            from .. import iters as _it4

            def per_item(body_, blk_):
                """the literals decided per listed item: those inside the listing loop (loop form); all of a closure's own (pipeline
                form: the closure runs once per item, its literals include the adaptor chain's filters)"""
                l0 = list(lits_of(body_, blk_, facts))
                hd = [peel(l.term)[3] for l in l0 if l.kind == "variant" and l.variants == {"Some"} and callee_name(peel(l.term)) == "next"]
                if hd:
                    inside = _it4.loop_body_blocks(body_, hd[-1]) | {hd[-1]} | {
                        l.block for l in l0 if l.kind == "variant" and callee_name(peel(l.term)) == "next" and peel(l.term)[3] == hd[-1]}
                    return [l for l in l0 if l.block in inside]       # implied literals too: a test parked in a flag (`let is_new = ..`)
                if body_.kind == "closure":
                    return [l for l in l0 if not l.implied]
                return []
            ls = per_item(s.body, s.block)
            if s.body is not b and s.body.kind != "closure":
                ls += per_item(s.outer_body, s.outer_block)     # a helper called from inside the loop
            extra = [repr(l) for l in unaccepted(ls, _reg_guard_ok)]
            # ... and the loop runs over the whole listing: an adaptor that selects by position or stops at the first item failing a test
            # (take_while, skip, take, ..) makes the registered set depend on the order of the listing; a filter is a per-item guard
            from ..common import iter_chain as _ic4
            from ..conds import closure_result_lits as _crl4
            for l in ls:
                if l.kind == "variant" and l.variants == {"Some"} and callee_name(peel(l.term)) == "next" and peel(l.term)[2]:
                    ch_ = _ic4(peel(l.term)[2][0])
                    sel_ = {callee_name(x) for x in ch_} & {"take", "skip", "step_by", "take_while", "skip_while", "map_while", "nth", "last", "find", "scan"}
                    if sel_:
                        extra.append("listing iterated through %s" % sorted(sel_))
                    for x in ch_:
                        if callee_name(x) == "filter" and len(x[2]) > 1:
                            cl_ = next((y for y in walk(x[2][1]) if y[0] == "closure"), None)
                            cb_ = facts.body(cl_[1]) if cl_ is not None else None
                            if cb_ is None:
                                extra.append("filter(<unresolved>)")
                            else:
                                extra += [repr(l2) for l2 in unaccepted(_crl4(cb_, facts, True), _reg_guard_ok)]
            res.instance("L4", "%s: a listed block is registered under per-item success / absence only: %s" % (name, not extra), s.loc())
            if extra:
                res.violation("L4", "%s|listed-block-skipped-under-extra-condition" % name,
                              "%s registers a listed block only under the additional condition %s: blocks that are stored, valid and loadable can stay "
                              "unknown to the replica" % (name, extra[:2]), s.loc())
    # bulk form: `deltas.extend(listing.iter().filter_map(parse).filter_map(|d| Some((d, load(d)?))))`: the per-item guards are the
    # success conditions of the chain's closures; the chain carries no positional adaptor
    from ..conds import success_result_lits as _srl4, closure_result_lits as _crl4b
    from ..common import iter_chain as _ic4b
    for name in ("melda::Melda::reload", "melda::Melda::refresh", "melda::Melda::reload_until"):
        b = facts.body(name)
        if b is None:
            continue
        for bi, t in b.calls():
            if t.callee is None or t.callee.name != "extend" or len(t.args) < 2 or "deltas" not in field_path(arg_term(b, t, 0, 16))[0]:
                continue
            n4c += 1
            ch_ = _ic4b(arg_term(b, t, 1, 40))
            extra = []
            sel_ = {callee_name(x) for x in ch_} & {"take", "skip", "step_by", "take_while", "skip_while", "map_while", "nth", "last", "find", "scan"}
            if sel_:
                extra.append("listing iterated through %s" % sorted(sel_))
            for x in ch_:
                if callee_name(x) in ("filter", "filter_map") and len(x[2]) > 1:
                    cl_ = next((y for y in walk(x[2][1]) if y[0] == "closure"), None)
                    cb_ = facts.body(cl_[1]) if cl_ is not None else None
                    if cb_ is None:
                        if not any(y[0] == "const" and y[1] == "fn" for y in walk(x[2][1])):
                            extra.append("%s(<unresolved>)" % callee_name(x))
                        continue
                    ls_ = _srl4(cb_, facts) if callee_name(x) == "filter_map" else _crl4b(cb_, facts, True)
                    extra += [repr(l2) for l2 in unaccepted(ls_, _reg_guard_ok)]
            res.instance("L4", "%s: listed blocks are registered in bulk under per-item success only: %s" % (name, not extra), b.loc(t.line))
            if extra:
                res.violation("L4", "%s|listed-block-skipped-under-extra-condition" % name,
                              "%s registers a listed block only under the additional condition %s: blocks that are stored, valid and loadable can stay "
                              "unknown to the replica" % (name, extra[:2]), b.loc(t.line))
    res.floor("L4", "block registrations in the listing loops", n4c, 3)

    # L4d: a block is applied whole: the applier's loop over the change records runs to exhaustion - it has no exit that still ends in
    # Ok (a `break` at the first revision the tree already knows drops the records behind it: two replicas that wrote the same sealing
    # marker into different blocks never learn the rest of each other's block)
    from .c18 import _leads_to_ok_return as _ok4d
    ab = R.body("applier")
    n4d = 0
    if ab is not None:
        from ..common import members_of as _mo4d
        for m_ in _mo4d(facts, ab):
            for hb_, ht_ in m_.calls():
                if ht_.callee is None or ht_.callee.name != "next":
                    continue
                blocks_ = _it4.loop_body_blocks(m_, hb_)
                if not any(t2.callee is not None and t2.callee.name in ("unvalidated_add", "add") and "RevisionTree" in t2.callee.path
                           for b2, t2 in m_.calls() if b2 in blocks_):
                    continue
                n4d += 1
                bad_ = [e for e in _it4.early_exits(m_, hb_, blocks_) if _ok4d(m_, e[1])]
                res.instance("L4", "%s: the loop over a block's change records has no exit that ends in Ok before every record was added: %s" % (m_.path, not bad_), m_.loc())
                if bad_:
                    res.violation("L4", "%s|block-applied-in-part" % ab.path,
                                  "%s can leave its loop over the change records early and still return Ok: the records behind that point never reach the "
                                  "revision trees although the block counts as applied" % ab.path, m_.loc(m_.blocks[bad_[0][0]].term.line))
            # pipeline form: for_each / try_for_each visit every record (or hand on the first Err)
            for b2, t2 in m_.calls():
                if t2.callee is not None and t2.callee.name in ("for_each", "try_for_each") and t2.args:
                    ch_ = [callee_name(x) for x in _ic4(arg_term(m_, t2, 0, 30))]
                    if any(cb_ is not None and any(t3.callee is not None and t3.callee.name in ("unvalidated_add", "add") and "RevisionTree" in t3.callee.path for _, t3 in cb_.calls())
                           for cb_ in [facts.body(x[1]) for a_ in t2.args for x in walk(arg_term(m_, t2, t2.args.index(a_), 8)) if x[0] == "closure"]):
                        n4d += 1
                        sel_ = set(ch_) & {"take", "skip", "step_by", "take_while", "skip_while", "map_while", "filter", "filter_map", "find"}
                        res.instance("L4", "%s: the record pipeline visits every change record (%s): %s" % (m_.path, t2.callee.name, not sel_), m_.loc(t2.line))
                        if sel_:
                            res.violation("L4", "%s|block-applied-in-part" % ab.path, "%s feeds only a selection of a block's change records (%s) to the revision trees" % (
                                ab.path, sorted(sel_)), m_.loc(t2.line))
    res.floor("L4", "record loops of the block applier", n4d, 1)

    # ------------------------------------------------------------------ L5
    res.rule("L5", "meld copies every item the peer holds and this replica lacks (no further selection)")
    m = facts.body("melda::Melda::meld")
    n5 = 0
    if m is not None:
        SEL = {"take", "skip", "step_by", "take_while", "skip_while", "rev", "nth", "last", "find"}
        for cb in [m] + facts.closures_of(m.path):
            for bi, t in cb.calls():
                if t.callee is None or t.callee.name != R.name("raw_write"):
                    continue
                n5 += 1
                extra = []
                from ..conds import unaccepted
                all_l = lits_of(cb, bi, facts)
                for l in all_l:
                    if not l.derived and _copy_guard_ok(l):
                        sel = {callee_name(x) for x in walk(l.term) if x[0] == "call"} & (SEL | {"filter", "filter_map"}) \
                            if l.kind == "variant" and l.variants == {"Some"} and callee_name(peel(l.term)) == "next" else set()
                        if sel:
                            res.violation("L5", "meld|source-not-whole:%s" % ",".join(sorted(sel)),
                                          "a meld copy loop iterates a selected part of the peer's items (%s)" % sorted(sel), cb.loc(t.line))
                extra = [repr(l) for l in unaccepted(all_l, _copy_guard_ok)]
                res.instance("L5", "%s: copy guarded only by absence / class exclusion / successful read: %s" % (cb.path, not extra), cb.loc(t.line))
                if extra:
                    res.violation("L5", "meld|copy-under-extra-condition",
                                  "meld copies an item only under an additional condition %s: items the peer holds (and has validated) can be "
                                  "withheld, so two replicas that melded both ways need not hold the same items" % extra[:2], cb.loc(t.line))
        for s in cg.sites[m.path]:
            if s.callee is not None and s.callee.name in ("for_each", "try_for_each") and any(
                    tt.callee is not None and tt.callee.name == R.name("raw_write") for c_ in s.closures for _, tt in c_.calls()):
                recv = arg_term(m, s.term, 0, 30)
                names = {callee_name(x) for x in walk(recv, False) if x[0] == "call"}
                if "filter" in names and not (names & (SEL | {"filter_map"})):
                    # `.filter(|item| !is_block_or_pack(item) && !ours.contains(item)).for_each(copy)`: a filter that states only the
                    # accepted copy guards is the loop's `if`
                    from ..conds import closure_result_lits, unaccepted
                    from ..common import iter_chain
                    okf = True
                    for x in iter_chain(recv):
                        if callee_name(x) == "filter" and len(x[2]) >= 2:
                            c_ = x[2][1]
                            hops = 0
                            while hops < 20 and c_[0] in ("ref", "deref", "cast", "var"):
                                hops += 1
                                c_ = c_[3] if c_[0] == "var" else c_[1]
                            fcb = facts.body(c_[1]) if c_[0] == "closure" else None
                            tl = closure_result_lits(fcb, facts, True) if fcb is not None else []
                            if not tl or unaccepted(tl, _copy_guard_ok):
                                okf = False
                    if okf:
                        names = names - {"filter"}
                if names & (SEL | {"filter", "filter_map"}):
                    res.violation("L5", "meld|source-not-whole:%s" % ",".join(sorted(names & (SEL | {"filter", "filter_map"}))),
                                  "a meld copy loop iterates a selected part of the peer's items (%s)" % sorted(names & (SEL | {"filter", "filter_map"})), s.loc())
    res.floor("L5", "meld copy sites", n5, 3)
    # L5c: no successful return of meld bypasses a copy pass (an early `return Ok(..)` taken when the peer's heads are already
    # known would leave packs or blocks of an interrupted earlier meld uncopied for good)
    if m is not None:
        from ..common import pass_anchors, bypassing_returns
        mcfg = cfg_of(m)
        anchors = pass_anchors(facts, m, lambda t: t.callee is not None and t.callee.name == R.name("raw_write"), depth=2)
        _, oks = bypassing_returns(m, anchors)
        # a return taken because the peer *is* this replica (`std::ptr::eq(self, other)`) has nothing to copy
        own = [o for o in oks if any(l.kind == "call" and l.truth is True and l.term[4] is not None and l.term[4].path.endswith("ptr::eq")
                                     for l in lits_of(m, o, facts))]
        if own:
            res.instance("L5", "meld: %d successful return(s) taken only when the peer is this very replica (nothing to copy)" % len(own), m.loc())
        oks = [o for o in oks if o not in own]
        bypass = []
        for a in sorted(anchors):
            for o in oks:
                if o != a and mcfg.reaches(0, o, avoid=(a,)):
                    bypass.append((a, o))
        res.instance("L5", "meld: every successful return passes through each of the %d copy passes: %s" % (len(anchors), not bypass), m.loc())
        res.floor("L5", "copy passes of meld (blocks, packs, other items)", len(anchors), 3)
        res.floor("L5", "successful returns of meld", len(oks), 1)
        if bypass:
            a, o = bypass[0]
            res.violation("L5", "meld|success-bypasses-copy-pass",
                          "meld can return Ok without running the copy pass at line %s: items the peer holds and this replica lacks stay "
                          "uncopied although the meld reported success" % m.blocks[a].term.line, m.loc(m.blocks[o].term.line))

    # ------------------------------------------------------------------ L6 memoised view state
    _check_memos(facts, res)


def _plain_root(t):
    """the parameter / local a term is a plain view of (ref / deref / clone), else the term's head"""
    hops = 0
    while hops < 30:
        hops += 1
        if t[0] in ("ref", "deref", "cast"):
            t = t[1]
        elif t[0] == "var" and t[3][0] in ("ref", "deref", "cast", "var", "param"):
            t = t[3]
        elif t[0] == "call" and callee_name(t) in ("clone", "borrow", "as_ref", "deref") and t[2]:
            t = t[2][0]
        else:
            break
    return (t[0], t[1]) if t[0] in ("param", "var") else (t[0], callee_name(t) if t[0] == "call" else None)


TREE_STATE = ("get_leafs", "get_winner")
CONTAINERS = ("lru::LruCache", "collections::HashMap", "collections::BTreeMap", "hash::map::HashMap", "btree::map::BTreeMap")
LOSSLESS = {"clone", "cloned", "to_owned", "to_vec", "collect", "iter", "into_iter", "copied", "as_ref", "borrow", "deref", "into", "from",
            "unwrap", "expect", "to_string"}


def _container_call(t, names):
    c_ = t.callee
    return c_ is not None and c_.name in names and any(x in c_.path for x in CONTAINERS)


def _self_field(body, t):
    fp, root = field_path(arg_term(body, t, 0, 24))
    if not fp or root[0] != "param" or root[1] != 1:
        return None
    return fp[0]


def _carries_whole(key, block, depth=0):
    """does `key` contain the result of the call at `block` through value-preserving operations only?"""
    if depth > 40:
        return False
    k = key[0]
    if k == "call":
        if key[3] == block:
            return True
        nm = callee_name(key)
        if nm in LOSSLESS and key[2]:
            return _carries_whole(key[2][0], block, depth + 1)
        return False
    if k in ("ref", "deref", "cast"):
        return _carries_whole(key[1], block, depth + 1)
    if k == "var":
        return _carries_whole(key[3], block, depth + 1)
    if k == "tuple":
        return any(_carries_whole(x, block, depth + 1) for x in key[1])
    if k == "agg":
        return any(_carries_whole(x, block, depth + 1) for x in key[3])
    if k == "phi":
        return bool(key[1]) and all(_carries_whole(x, block, depth + 1) for x in key[1])
    return False


def _check_memos(facts, res):
    """L6: a value that depends on the *current* leaf set or winner of a revision tree may be kept across calls (stored into a
    container field of the replica and handed back on a later lookup) only under a key that carries that whole leaf set / winner:
    the leaf set changes whenever a block arrives, so a key that omits it or summarises it (a count, an index) serves a view
    computed from an earlier set of blocks - a replica that read before the block arrived and one that read after hold the same
    items and show different documents."""
    from ..flows import flow_of
    res.rule("L6", "no read-path memo of a value that depends on a tree's current leaf set / winner unless the key carries that whole state")
    cleared = set()
    for ob in facts.repo_bodies():
        for bi, t in ob.calls():
            if _container_call(t, ("clear",)):
                f = _self_field(ob, t)
                if f:
                    cleared.add(f)
    n = n_memo = 0
    for ob in facts.repo_bodies():
        if not ob.path.startswith("melda::Melda::") and not ob.path.startswith("datastorage::DataStorage::"):
            continue
        ins = [(bi, t) for bi, t in ob.calls() if _container_call(t, ("put", "push", "insert", "get_or_insert")) and len(t.args) >= 3]
        if not ins:
            continue
        fl = flow_of(ob)
        ret_src = fl.local_sources(0)
        for bi, t in ins:
            fld = _self_field(ob, t)
            if fld is None:
                continue
            n += 1
            # the same function hands a looked-up entry of that field back to its caller (memo shape)
            looks = [(b2, t2) for b2, t2 in ob.calls() if _container_call(t2, ("get", "peek", "get_mut", "peek_mut", "get_or_insert")) and
                     _self_field(ob, t2) == fld and t2.dest is not None and ("l", t2.dest.local) in ret_src]
            vsrc = fl.operand_sources(t.args[-1])
            state_calls = sorted(b for b in fl.call_blocks(vsrc)
                                 if ob.blocks[b].term.callee is not None and ob.blocks[b].term.callee.name in TREE_STATE
                                 and "RevisionTree" in ob.blocks[b].term.callee.path)
            res.instance("L6", "%s stores into self.%s: returned on a later lookup by the same function: %s; stored value depends on tree state reads: %s" % (
                ob.path, fld, bool(looks), [ob.blocks[b].term.callee.name for b in state_calls]), ob.loc(t.line))
            if looks:
                n_memo += 1
            if not looks or not state_calls:
                continue
            if fld in cleared:
                res.instance("L6", "self.%s is also cleared somewhere: invalidation design, not decided by this rule" % fld, ob.loc(t.line))
                continue
            key = arg_term(ob, t, 1, 24)
            missing = [ob.blocks[b].term.callee.name for b in state_calls if not _carries_whole(key, b)]
            if missing:
                res.violation("L6", "%s|memo-of-tree-state:%s" % (ob.path, fld),
                              "%s keeps a value computed from the tree's current %s in self.%s and returns it on later lookups, but the key (%s) "
                              "does not carry that state whole: after a block arrives the old entry is still served, so the view depends on what was "
                              "read before" % (ob.path, "/".join(sorted(set(missing))), fld, fmt(key, 5)), ob.loc(t.line))
    res.floor("L6", "stores into container fields of the replica examined", n, 6)
    res.floor("L6", "memo-shaped stores (the array reconstruction cache)", n_memo, 1)


def thorough(res):
    from .. import engine
    engine.sensitivity("C01", res)


def _copy_guard_ok(l):
    """accepted guards of a meld copy: `!ours.contains(_key)(item)`, `!item.ends_with(EXT)`, a successful (verified) read /
    parse / serialisation of the item, the loop's own `next() is Some`"""
    if l.kind == "call":
        n = callee_name(l.term)
        if n in ("contains", "contains_key", "ends_with", "is_err", "is_none"):
            return l.truth is False
        if n in ("is_ok", "is_some"):
            return l.truth is True
        if n == "eq" and l.truth is False and l.term[4] is not None and l.term[4].path.endswith("ptr::eq"):
            return True     # the peer is not this very replica (the self-meld early return, C08)
        if n in ("eq", "ne") and l.truth is (n == "eq") and any(
                x[0] == "call" and callee_name(x) in ("digest_bytes", "digest_string") for x in walk(l.term)):
            return True     # the copy's bytes hash to the item's name (verification of what is copied, C10/C11)
        return False
    if l.kind == "variant":
        pt = peel(l.term)
        if pt[0] == "call" and callee_name(pt) == "next":
            return True     # this loop's element / the exit edge of a preceding copy loop
        return bool(l.variants) and l.variants <= {"Ok", "Some", "Continue"}
    return False


def _revalidates_all(facts, cg, body, site, depth):
    """the call at `site` validates every tree of the whole document map: either a for_each over
    documents.values() whose closure reaches RevisionTree::validate, or a call to a helper every normal return
    of which lies behind such a site"""
    V = "revisiontree::RevisionTree::validate"
    if site.callee is not None and site.callee.name in ("for_each", "try_for_each") and any(cg.reaches(t, V) for t in site.closures):
        recv = arg_term(body, site.term, 0, 30)
        names = [callee_name(x) for x in walk(recv, False) if x[0] == "call"]
        return "values" in names and any(x[0] == "field" and x[2] == "documents" for x in walk(recv)) and \
            not (set(names) & {"take", "skip", "filter", "step_by", "take_while", "skip_while"})
    if depth >= 2 or site.fanout:
        return False
    for t in site.targets:
        if t.impl_adt != "melda::Melda" or not cg.reaches(t, V):
            continue
        tcfg = cfg_of(t)
        inner = [s for s in cg.sites[t.path] if _revalidates_all(facts, cg, t, s, depth + 1)]
        if inner and all(any(tcfg.dominates(s.block, e) for s in inner) for e in tcfg.exits):
            return True
    return False
