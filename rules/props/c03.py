"""C03 - A successful commit is durable and reopens to the same state (structural clauses)."""
from ..defuse import du_of, walk, peel, callee_name, fmt
from ..callgraph import cg_of
from .. import engine
from ..cfg import cfg_of
from ..conds import lits_of, closure_result_lits
from ..roles import roles_of
from ..common import arg_term, contains_call, call_named, field_path, ADAPTER_TRAIT, iter_chain
from .. import tables

TEXT = ("Decides the two clauses of reopen-equality that are visible in the shape of the code. K1 (contradiction "
        "rule on the pack re-indexer, found by role = the function that inserts into the object index keyed by "
        "digest_bytes of a slice of raw pack bytes): a byte scanner that compares pack bytes with '{' / '}' must "
        "also compare them with '\"' and '\\\\', because the pack writer (serde_json::to_string) emits braces inside "
        "string values verbatim; the set of u8 constants compared is read from MIR. K2 (writer/reader table "
        "agreement): JSON keys written by Delta::to_json = keys read by the block loader; change-record arities "
        "written = arities accepted, everything else rejected; position p of a written record carries Change field f "
        "iff the loader fills field f from position p; the pack writer records (offset,len) of exactly the bytes it "
        "appended; writer and reader derive the block's storage key from the same function. K5: in commit no call that can "
        "stage objects (write effect on DataStorage.stage, e.g. the automatic array resolution) is reachable from the "
        "pack write. Does not decide state "
        "equality after reopen for all contents (a round trip over runtime values)."
        " K2g also flags comparisons between values of a record on the way to a rejection. K2h: no rejection is conditioned on the absence of a key Delta::to_json writes conditionally. K2i: the loader accumulates parsed records by push or under a key that carries the whole revision. K6: serde_json float_roundtrip. K7: parse sites accept the nesting depth the writers emit (open known finding). K2j: from the edge that recognises a record by its length the loader's record loop cannot reach its header again without passing an accumulation site (no recognised record is skipped).")
TECHNIQUE = 'static analysis over rustc MIR: finite abstract interpretation of the pack scanner vs a reference JSON object-boundary machine, writer/reader table extraction for blocks and packs, effect-ordered reachability in commit'
TRUSTED = ["rustc nightly MIR", "serde_json::to_string emits RFC 8259 JSON (braces, quotes and backslashes unescaped only as structure / inside strings as written)"]

BRACE_OPEN, BRACE_CLOSE, QUOTE, BACKSLASH = 0x7B, 0x7D, 0x22, 0x5C


def reindexers(facts):
    out = []
    for b in facts.repo_bodies():
        for bi, t in b.calls():
            if t.callee is None or t.callee.name != "insert" or len(t.args) < 3:
                continue
            fp, _ = field_path(arg_term(b, t, 0))
            if "committed_objects" in fp and contains_call(arg_term(b, t, 1), "digest_bytes"):
                out.append((b, bi, t))
    return out


def byte_consts_compared(body):
    vals = set()
    for blk in body.blocks:
        if blk.cleanup:
            continue
        for st in blk.stmts:
            if st.kind == "assign" and st.rv.kind == "binop" and st.rv.j["op"] in ("Eq", "Ne"):
                for o in st.rv.operands():
                    if o.is_const() and o.j.get("ty") == "u8" and o.const_int() is not None:
                        vals.add(o.const_int())
        t = blk.term
        if t.kind == "switch" and t.j.get("discr_ty") == "u8":
            for v, _ in t.j["targets"]:
                vals.add(v)
    return vals


def _optional_keys_accepted(facts, res, w, r):
    """the writer emits a key only when the block has something to put under it (a commit that stores nothing new writes no pack
    reference, a first commit writes no parents); a loader that turns the absence of such a key into a rejection discards blocks
    the writer legitimately produced - the commit was acknowledged and is gone after reopening."""
    from ..common import members_of, assigns_of_return
    opt = set()
    for bi, t in w.calls():
        c = t.callee
        if c is None or c.name != "insert" or "serde_json::Map" not in c.path or len(t.args) < 3:
            continue
        ks = [x[2] for x in walk(arg_term(w, t, 1)) if x[0] == "const" and x[1] == "str"]
        if ks and any(l.kind in ("variant", "call", "cmp") for l in lits_of(w, bi, facts)):
            opt.update(ks)
    res.instance("K2", "keys Delta::to_json writes only when there is something to write (optional for the loader): %s" % sorted(opt), w.loc())
    res.floor("K2", "conditionally written block keys", len(opt), 3)

    def key_of_presence(l, body):
        """K if literal l says 'key K is present' (truth) / absent (not truth): returns (K, present?)"""
        t = l.term
        if l.kind == "call" and callee_name(t) == "contains_key":
            ks = [x[2] for x in walk(t) if x[0] == "const" and x[1] == "str" and x[2] in opt]
            if ks:
                return ks[0], l.truth is True
        if l.kind == "variant" and l.variants in ({"Some"}, {"None"}):
            pt = peel(t)
            if pt[0] == "call" and callee_name(pt) == "get":
                ks = [x[2] for x in walk(pt) if x[0] == "const" and x[1] == "str" and x[2] in opt]
                if ks:
                    return ks[0], l.variants == {"Some"}
        return None

    n = 0
    for m in members_of(facts, r):
        du = du_of(m)

        def holder_key(t):
            """the optional key a local stands for: one of its definitions sits under 'K present', another is None"""
            hops = 0
            while hops < 12 and t[0] in ("ref", "deref", "cast"):
                t = t[1]
                hops += 1
            if t[0] != "var":
                return None
            found = None
            for d in du.full_defs(t[1]):
                for l in lits_of(m, d.block, facts):
                    kp = key_of_presence(l, m)
                    if kp and kp[1]:
                        found = kp[0]
            return found

        sites = [(eb, st.line) for eb, st in assigns_of_return(m, "Err")]
        for bi, t in m.calls():
            if t.callee is not None and t.callee.name == "from_residual" and t.dest is not None and t.dest.local == 0:
                sites.append((bi, t.line))
        for eb, line in sites:
            ls = lits_of(m, eb, facts)
            present = set()
            absent = []
            for l in ls:
                kp = key_of_presence(l, m)
                if kp:
                    (present.add(kp[0]) if kp[1] else absent.append((kp[0], l)))
                    continue
                hk = None
                if l.kind == "call" and callee_name(l.term) in ("is_none", "is_some") and l.term[2]:
                    hk = holder_key(l.term[2][0])
                    if hk and (callee_name(l.term) == "is_none") == (l.truth is True):
                        absent.append((hk, l))
                    elif hk:
                        present.add(hk)
                elif l.kind == "variant" and l.variants in ({"Some"}, {"None"}):
                    hk = holder_key(l.term)
                    if hk and l.variants == {"None"}:
                        absent.append((hk, l))
                    elif hk:
                        present.add(hk)
            n += 1
            for k_, l in absent:
                if k_ in present:
                    continue
                res.violation("K2", "loader|requires-optional-key:%s" % k_,
                              "%s rejects a block because the key %r is absent (%s), but Delta::to_json writes that key only when the block has "
                              "something to put under it: a block the writer produced is rejected on reopen" % (m.path, k_, l), m.loc(line))
    res.instance("K2", "no rejection in the block loader is conditioned on the absence of an optionally written key (%d rejection sites)" % n, r.loc())
    res.floor("K2", "rejection sites of the block loader examined", n, 8)


def run(facts, res):
    R = roles_of(facts)
    res.rule("K1", "the pack re-indexer is JSON-string-aware: comparing pack bytes with '{' and '}' implies comparing with '\"' and '\\\\'")
    res.rule("K2", "block and pack writer/reader tables agree (keys, arities, positions, offsets, storage key function)")

    # ------------------------------------------------------------------ K1
    rs = reindexers(facts)
    res.floor("K1", "pack re-indexer (index writer fed from raw pack bytes)", len({b.path for b, _, _ in rs}), 1)
    scan_fns = {}
    for b, _, _ in rs:
        # the insertion may sit in a private helper that is handed the positions (`index_object(name, data, start, end)`):
        # the scanner is then the helper's caller
        if not byte_consts_compared(b) and not b.public and b.kind != "closure" and \
                not any(t.callee is not None and "serde_json" in t.callee.path for _, t in b.calls()):
            cs = [s_.body for s_ in cg_of(facts).callers_of(b.path) if s_.body.in_repo()]
            if cs:
                for cb_ in cs:
                    scan_fns[cb_.path] = cb_
                continue
        scan_fns[b.path] = b
    for b in scan_fns.values():
        S = byte_consts_compared(b)
        tokenizes = any(t.callee is not None and "serde_json" in t.callee.path for _, t in b.calls())
        desc = "{%s}" % ", ".join(repr(chr(v)) for v in sorted(S))
        res.instance("K1", "%s compares pack bytes with %s%s" % (b.path, desc, " and uses a JSON tokenizer" if tokenizes else ""), b.loc())
        if not S and not tokenizes:
            res.violation("K1", "%s|no-boundary-detection" % b.path,
                          "%s neither scans the pack bytes nor tokenizes them" % b.path, b.loc())
        if {BRACE_OPEN, BRACE_CLOSE} <= S and not ({QUOTE, BACKSLASH} <= S):
            res.violation("K1", "%s|brace-scanner-not-string-aware" % b.path,
                          "%s finds object boundaries by comparing bytes with '{' and '}' but never with %s: a brace "
                          "inside a JSON string value ends an object early and its digest is never indexed" % (
                              b.path, " / ".join(repr(chr(c)) for c in (QUOTE, BACKSLASH) if c not in S)), b.loc())

        # K1b: the scanner, abstractly interpreted over byte classes, is equivalent to the reference machine for
        # "boundaries of top-level JSON objects" on every class string up to the bound
        if S:
            from ..scanner import Scanner, Unsupported
            try:
                sc = Scanner(b, facts)
                nst, ntr, cex = sc.compare(maxlen=7, maxdepth=2)
                res.instance("K1", "%s: scanner transition system (state variables %s) compared with the reference JSON object-boundary machine: "
                             "%d product states, %d transitions, byte-class strings up to length 7, nesting up to 2: %s" % (
                                 b.path, [b.local_name(l) for l in sc.state_vars], nst, ntr, "equivalent" if cex is None else "DIFFERS"), b.loc())
                if cex is not None:
                    res.violation("K1", "%s|scanner-differs-from-json-boundaries" % b.path,
                                  "%s does not find the boundaries of top-level JSON objects: %s (abstract interpretation of the loop body; classes: { } \" \\ and o = any other byte)" % (b.path, cex), b.loc())
            except Unsupported as e:
                res.violation("K1", "%s|scanner-not-abstractable" % b.path,
                              "cannot abstract the byte scanner of %s (%s); accepted idiom: a `for (offset, byte) in data.iter().enumerate()` loop over constant-initialised "
                              "state variables with comparisons against the JSON structural bytes (fail closed)" % (b.path, e), b.loc())

    # ------------------------------------------------------------------ K2a keys
    w = facts.body("melda::Delta::to_json")
    r = R.body("loader")
    if w is None or r is None:
        res.floor("K2", "Delta::to_json / block loader anchors", 0, 2)
        return
    wk = set(tables.json_keys_written(w))
    from ..common import members_of as _mo
    rk = set(k_ for m_ in _mo(facts, r) for k_ in tables.json_keys_read(m_))
    res.instance("K2", "block keys written %s / read %s" % (sorted(wk), sorted(rk)), w.loc())
    res.floor("K2", "block keys written by Delta::to_json", len(wk), 4)
    if wk != rk:
        res.violation("K2", "block-keys-differ", "Delta::to_json writes keys %s but the loader reads %s" % (sorted(wk), sorted(rk)), r.loc())
    # keys are the named constants
    names = {facts.const_str("constants::" + n) for n in ("CHANGESETS_FIELD", "INFORMATION_FIELD", "PARENTS_FIELD", "PACK_FIELD")}
    if names != wk:
        res.violation("K2", "block-keys-not-the-constants", "Delta::to_json writes %s, constants are %s" % (sorted(wk), sorted(names)), w.loc())

    # ------------------------------------------------------------------ K2b arities + K2e positions
    arr = [x for cb_ in [w] + facts.closures_of(w.path) for x in tables.array_literals(cb_)]
    w_ar = sorted({n for n, _, _, _ in arr})
    lc = tables.len_compared_consts(r)
    r_ar = sorted({c for (op, c) in lc if op == "Eq"})
    res.instance("K2", "change-record arities written %s / accepted %s" % (w_ar, r_ar), w.loc())
    if w_ar != r_ar or not w_ar:
        res.violation("K2", "record-arities-differ", "Delta::to_json writes change records of arity %s, the loader accepts %s" % (w_ar, r_ar), r.loc())
    # anything else is rejected: the chain of len()== tests ends in an Err return
    if not _else_rejects(r, lc, facts):
        res.violation("K2", "unknown-arity-not-rejected", "the block loader does not reject change records of other arities", r.loc())
    # K2g: acceptance conditions agree: the loader must not reject a record shape under a condition the writer does
    # not also impose when it emits that shape
    from ..cfg import cfg_of
    from ..common import assigns_of_return
    SHAPE = {"ok_or_else", "as_str", "is_array", "is_object", "as_array", "from", "branch", "next", "len", "contains_key", "get"}
    for (op, k_), sites in lc.items():
        if op != "Eq":
            continue
        for eb, st in assigns_of_return(r, "Err"):
            ls = lits_of(r, eb, facts)
            under = [i for i, l in enumerate(ls) if l.kind == "cmp" and l.term[1] == "Eq" and l.truth is True and
                     any(x[0] == "const" and x[1] == "int" and x[2] == k_ for x in (l.term[2], l.term[3]))]
            if not under:
                continue
            extra = []
            for l in ls[under[-1] + 1:]:
                if l.kind == "variant" and l.variants <= {"Break", "Err", "None"}:
                    pt = peel(l.term)
                    if pt[0] == "call" and callee_name(pt) in SHAPE | {"ok_or_else"}:
                        continue   # per-element type / syntax checks
                if l.kind == "call" and callee_name(l.term) in ("is_none", "is_some") or (l.kind == "variant" and l.variants <= {"None", "Some"}):
                    extra.append(l)
                elif l.kind == "call" and callee_name(l.term) in ("eq", "ne", "lt", "le", "gt", "ge", "contains", "starts_with", "ends_with", "is_empty") and \
                        not any(x[0] == "call" and callee_name(x) == "len" for x in walk(l.term)):
                    extra.append(l)     # a comparison between values of the record (`prev.digest() == digest`): the writer has no such restriction
            for l in extra:
                # does the writer emit arity-k records only under a matching condition? (it conditions on the element's own
                # parent, never on the block's parents)
                res.violation("K2", "arity-%d-rejected-under-extra-condition" % k_,
                              "the block loader rejects arity-%d change records under the additional condition %s, but Delta::to_json / commit emit "
                              "such records whenever a staged revision has a parent: a first commit that contains an update is written and then "
                              "rejected on reopen" % (k_, l), r.loc(st.line))
    res.instance("K2", "loader rejections under an arity test carry no condition beyond per-element shape checks", r.loc())
    # K2h: every key Delta::to_json writes conditionally is optional for the loader: no rejection is conditioned on its absence
    _optional_keys_accepted(facts, res, w, r)
    # K2i: the loader keeps every change record it parses: records are accumulated by `push` (or a keyed insert whose key is the whole
    # revision). A keyed collection whose key is a projection ((object, revision index)) collapses two same-index revisions of one
    # object - exactly what a committed resolution of equally long branches writes - and the reopened replica misses one of them.
    from ..common import members_of as _mok
    n_rec = 0
    for m_ in _mok(facts, r):
        dum = du_of(m_)
        for bi, t in m_.calls():
            c_ = t.callee
            if c_ is None or len(t.args) < 2:
                continue
            carries_change = any(x[0] == "agg" and str(x[1]).endswith("melda::Change") for a_ in range(1, len(t.args)) for x in walk(dum.operand_term(t.args[a_], 12)))
            if not carries_change or c_.krate not in ("std", "alloc", "core", "hashbrown"):
                continue
            if c_.name in ("push", "push_back", "extend", "extend_from_slice"):
                n_rec += 1
                res.instance("K2", "%s: a parsed change record is appended (%s): nothing can be collapsed" % (m_.path, c_.name), m_.loc(t.line))
            elif c_.name in ("insert", "entry", "replace") and any(k_ in (c_.path or "") + (c_.self_ty or "") for k_ in ("BTreeMap", "HashMap", "BTreeSet", "HashSet")):
                n_rec += 1
                key_t = dum.operand_term(t.args[1], 20)
                lossy = contains_call(key_t, "index") or contains_call(key_t, "digest") or contains_call(key_t, "tail") or \
                    not any(x[0] == "agg" and "Revision" in str(x[1]) or (x[0] == "call" and callee_name(x) in ("new", "new_updated", "from", "to_string") and
                                                                          "Revision" in str(x[4].path if x[4] is not None else "")) for x in walk(key_t))
                res.instance("K2", "%s: parsed change records accumulated in a keyed collection; the key carries the whole revision: %s" % (m_.path, not lossy), m_.loc(t.line))
                if lossy:
                    res.violation("K2", "loader|records-collapsed-by-key",
                                  "%s accumulates the change records of a block in a collection keyed by a projection of the record (%s): two records that "
                                  "agree on it (two revisions of one object with the same index: a committed resolution of equally long branches) collapse "
                                  "into one and the reopened replica never learns the other" % (m_.path, fmt(key_t, 5)), m_.loc(t.line))
    res.floor("K2", "sites where the loader accumulates a parsed change record", n_rec, 1)
    # K2j: no recognised record is skipped: from the edge on which the loader recognises a record by its length, the record loop cannot
    # move on to the next record without passing an accumulation site (an Err return leaves the loop and rejects the block as a whole -
    # that is K2g's business). A `continue` for records "on top of a deletion / a resolution marker" drops the re-creation of a deleted
    # object and every resolution recorded on a deleted leaf: the writer shows them, a reopened replica does not.
    from ..conds import all_edge_lits as _aelk
    n_skip = 0
    for m_ in _mok(facts, r):
        mcfg = cfg_of(m_)
        dum = du_of(m_)
        acc = set()
        for bi, t in m_.calls():
            c_ = t.callee
            if c_ is not None and len(t.args) >= 2 and c_.name in ("push", "push_back", "extend", "insert", "entry") and \
                    any(x[0] == "agg" and str(x[1]).endswith("melda::Change") for a_ in range(1, len(t.args)) for x in walk(dum.operand_term(t.args[a_], 12))):
                acc.add(bi)
        if not acc:
            continue
        for e_, l in _aelk(m_, facts):
            if not (l.kind == "cmp" and l.term[1] == "Eq" and l.truth is True and any(x[0] == "const" and x[1] == "int" and x[2] in (2, 3) for x in (l.term[2], l.term[3])) and
                    any((x[0] == "call" and callee_name(x) == "len") or (x[0] == "unop" and x[1] == "PtrMetadata") for x in walk(l.term))):
                continue
            hdrs = [hb for hb, ht in m_.calls() if ht.callee is not None and ht.callee.name == "next" and mcfg.is_loop_header(hb) and mcfg.dominates(hb, l.edge[0])]
            if not hdrs:
                continue
            n_skip += 1
            skip = mcfg.reaches(e_, hdrs[-1], avoid=acc)
            res.instance("K2", "%s: a record of length %s is never skipped (every way back to the record loop passes an accumulation site): %s" % (
                m_.path, [x[2] for x in (l.term[2], l.term[3]) if x[0] == "const"], not skip), m_.loc(m_.blocks[l.edge[0]].term.line))
            if skip:
                res.violation("K2", "loader|record-skipped",
                              "%s can move on to the next change record without keeping the current one: a record the writer stored (and shows) is "
                              "missing on every replica that loads the block" % m_.path, m_.loc(m_.blocks[l.edge[0]].term.line))
    # positions
    wpos = {}
    for n, els, ln, bi in arr:
        wpos[n] = [_writer_tag(e) for e in els]
    rpos = _reader_positions(r, facts)
    res.instance("K2", "record layout written %s / read %s" % (wpos, rpos), w.loc())
    for n, tags in wpos.items():
        rp = rpos.get(n)
        if rp is None:
            continue
        for p, tag in enumerate(tags):
            if tag is None or rp.get(tag) != {p}:
                res.violation("K2", "record-position-mismatch:%d" % n,
                              "arity-%d change record: writer puts %s at position %d, loader reads %s from %s" % (
                                  n, tag, p, tag, sorted(rp.get(tag, []))), r.loc())

    # ------------------------------------------------------------------ K2c pack writer offsets
    for b in facts.repo_bodies():
        has_write = [t for _, t in b.calls() if t.callee is not None and t.callee.trait == ADAPTER_TRAIT and t.callee.name == "write_object"]
        ext = [(bi, t) for bi, t in b.calls() if t.callee is not None and t.callee.name == "extend_from_slice"]
        if not has_write or not ext or b.impl_adt != "datastorage::DataStorage":
            continue
        du = du_of(b)
        ins = [(bi, t) for bi, t in b.calls() if t.callee is not None and t.callee.name == "insert" and len(t.args) >= 3
               and any(x[0] == "tuple" for x in walk(arg_term(b, t, 2, 6)))]
        ok = False
        for bi, t in ins:
            val = peel(arg_term(b, t, 2))
            if val[0] != "tuple" or len(val[1]) != 2:
                continue
            start_t, len_t = val[1]
            bytes_vars = {x[1] for x in walk(arg_term(b, ext[0][1], 1)) if x[0] == "var"}
            len_vars = {x[1] for x in walk(len_t) if x[0] == "var"}
            buf_vars = {x[1] for x in walk(arg_term(b, ext[0][1], 0)) if x[0] == "var"}
            st_defs = peel(start_t, stop_var=False)
            start_ok = all((x[0] == "const") or (x[0] == "call" and callee_name(x) == "len" and buf_vars & {y[1] for y in walk(x) if y[0] == "var"})
                           for x in (st_defs[1] if st_defs[0] == "phi" else [st_defs]))
            len_ok = contains_call(len_t, "len") and bool(bytes_vars & len_vars)
            ok = ok or (start_ok and len_ok)
            res.instance("K2", "%s records (start=%s, len=%s) for the bytes appended by extend_from_slice" % (
                b.path, fmt(start_t, 4), fmt(len_t, 4)), b.loc(t.line))
        if not ok:
            res.violation("K2", "%s|pack-offsets-not-those-of-appended-bytes" % b.path,
                          "%s: the (offset,length) recorded in the pack index is not (buffer length before append, "
                          "length of the appended bytes)" % b.path, b.loc())

    # ------------------------------------------------------------------ K4 the block records every staged entry
    # RevisionTree::commit clears the staging flag of *every* entry, so commit must serialise every staged entry:
    # the change records are pushed from a loop over the complete revision map, once per entry whose flag is set
    res.rule("K4", "commit / stage serialise every staged entry of every tree exactly once")
    from ..common import whole_iteration
    from ..conds import all_edge_lits
    n_k4 = 0
    seen_fn = set()
    for fn in ("melda::Melda::commit", "melda::Melda::stage"):
        fb = facts.body(fn)
        if fb is None:
            continue
        members_ = [fb] + facts.closures_of(fb.path)
        for hb_ in cg_of(facts).reach(fb).values():
            # extracted private helpers of Melda (e.g. collect_staged_changes) belong to the operation
            if hb_.in_repo() and hb_.path != fb.path and hb_.kind != "closure" and hb_.impl_adt == "melda::Melda" and not hb_.public and \
                    hb_.local_ty(0).startswith("std::vec::Vec<melda::Change") :
                members_ += [hb_] + facts.closures_of(hb_.path)
        for cb in members_:
            du = du_of(cb)
            cfg = cfg_of(cb)
            pushes = []
            for bi, t in cb.calls():
                if t.callee is None or t.callee.name != "push" or len(t.args) < 2:
                    continue
                # a change record is pushed: the value is a Change, or it is built from the element of an iteration over a
                # tree's revision map (the stage export pushes serde_json values)
                if "melda::Change" not in (t.callee.full or "") and "Change" not in cb.local_ty(t.args[0].place.local if t.args[0].place is not None else 0):
                    v_ = du.operand_term(t.args[1], 30)
                    from ..flows import flow_of as _fo
                    src_ = _fo(cb).operand_sources(t.args[1])      # may-derive graph: sees through `vec![..]` (boxed array)
                    via_next = any(cb.blocks[bb].term.callee is not None and cb.blocks[bb].term.callee.name == "next" and cb.blocks[bb].term.args and
                                   (contains_call(du.operand_term(cb.blocks[bb].term.args[0], 20), "get_revisions") or
                                    contains_call(du.operand_term(cb.blocks[bb].term.args[0], 20), "get_leafs")) for bb in _fo(cb).call_blocks(src_))
                    via_elem = cb.kind == "closure" and (("l", 2) in src_ or any(x[0] == "param" and x[1] == 2 for x in walk(v_))) and \
                        any(contains_call(arg_term(s_.body, s_.term, 0, 20), "get_revisions") or contains_call(arg_term(s_.body, s_.term, 0, 20), "get_leafs")
                            for s_ in cg_of(facts).callers_of(cb.path) if cb in s_.closures)
                    if not (contains_call(v_, "get_revisions") or contains_call(v_, "get_leafs") or via_next or via_elem):
                        continue
                pushes.append((bi, t))
            # keyed accumulation (map / set insert under is_staging) can collapse two staged entries into one record
            for bi, t in cb.calls():
                if t.callee is None or t.callee.name != "insert" or len(t.args) < 2:
                    continue
                if not any(k_ in (t.callee.path or "") + (t.callee.self_ty or "") for k_ in ("BTreeMap", "HashMap", "BTreeSet", "HashSet")):
                    continue
                if not any(l.kind == "call" and callee_name(l.term) == "is_staging" and l.truth is True for l in lits_of(cb, bi, facts)):
                    continue
                seen_fn.add(fn)
                key_t = du.operand_term(t.args[1], 20)
                whole_rev = contains_call(key_t, "to_string") or not (contains_call(key_t, "digest") or contains_call(key_t, "index"))
                res.instance("K4", "%s: change records accumulated in a keyed collection; the key identifies the whole revision: %s" % (cb.path, whole_rev), cb.loc(t.line))
                if not whole_rev:
                    res.violation("K4", "%s|records-collapsed-by-key" % fn,
                                  "%s accumulates change records in a keyed collection whose key is a projection of the revision (digest / index): two staged "
                                  "revisions of one object with the same digest (toggle A-B-A-B, delete/re-create/delete, two resolution markers) "
                                  "collapse into one record" % fn, cb.loc(t.line))
            # adaptor-chain form: changes.extend(revs.iter().filter(|e| e.is_staging()).map(|e| Change(..))) / .collect()
            for bi, t in cb.calls():
                if t.callee is None or t.callee.name not in ("extend", "collect", "from_iter") or "melda::Change" not in (t.callee.full or ""):
                    continue
                it_t = du.operand_term(t.args[1 if t.callee.name == "extend" and len(t.args) > 1 else 0], 30)
                chain = iter_chain(it_t)
                names = [callee_name(x) for x in chain]
                if "get_revisions" not in names:
                    continue
                n_k4 += 1
                seen_fn.add(fn)
                src_ok = "get_leafs" not in names and not (set(names) & {"take", "skip", "step_by", "take_while", "skip_while", "filter_map", "rev", "nth", "skip_last", "map_while", "flat_map"})
                staged = all_pass = False
                nfilter = 0
                for x in chain:
                    if callee_name(x) != "filter" or len(x[2]) < 2:
                        continue
                    nfilter += 1
                    c_ = x[2][1]
                    hops = 0
                    while hops < 20 and c_[0] in ("ref", "deref", "cast", "var"):
                        hops += 1
                        c_ = c_[3] if c_[0] == "var" else c_[1]
                    fcb = facts.body(c_[1]) if c_[0] == "closure" else None
                    if fcb is None:
                        continue
                    tl = closure_result_lits(fcb, facts, True)
                    fl_ = closure_result_lits(fcb, facts, False)
                    staged = any(l.kind == "call" and callee_name(l.term) == "is_staging" and l.truth is True for l in tl)
                    all_pass = any(l.kind == "call" and callee_name(l.term) == "is_staging" and l.truth is False for l in fl_)
                ok = src_ok and nfilter == 1 and staged and all_pass and "map" in names
                res.instance("K4", "%s: change records built by an adaptor chain over the complete revision map (%s), filtered by is_staging() exactly (%s)" % (
                    cb.path, src_ok, staged and all_pass and nfilter == 1), cb.loc(t.line))
                if not ok:
                    res.violation("K4", "%s|change-set-not-all-staged-entries" % fn,
                                  "%s builds its change records from something other than `every entry of get_revisions() with is_staging()` "
                                  "(adaptor chain %s; whole map: %s, selects staged entries: %s, selects every staged entry: %s)" % (
                                      fn, "/".join(reversed(names)), src_ok, staged, all_pass), cb.loc(t.line))
            if not pushes:
                continue
            seen_fn.add(fn)
            for bi, t in pushes:
                n_k4 += 1
                v = du.operand_term(t.args[1], 30)
                if cb.kind == "closure":
                    # for_each closure over get_revisions().iter(): elements are the closure parameter
                    sites = [s_ for s_ in cg_of(facts).callers_of(cb.path) if cb in s_.closures]
                    src_ok = False
                    for s_ in sites:
                        rcv = arg_term(s_.body, s_.term, 0, 20)
                        names = [callee_name(x) for x in walk(rcv, False) if x[0] == "call"]
                        if "get_revisions" in names and s_.callee.name == "for_each" and not (set(names) & {"take", "skip", "filter", "step_by", "take_while", "skip_while"}):
                            src_ok = True
                else:
                    src_ok = whole_iteration(cb, v) and contains_call(v, "get_revisions") and not contains_call(v, "get_leafs")
                    if not src_ok:
                        # the record may be assembled through a boxed array (`vec![..]`): follow the may-derive graph
                        from ..flows import flow_of
                        fl_ = flow_of(cb)
                        nb = [bb for bb in fl_.call_blocks(fl_.operand_sources(t.args[1]))
                              if cb.blocks[bb].term.callee is not None and cb.blocks[bb].term.callee.name == "next" and cfg.is_loop_header(bb)]
                        for bb in nb:
                            it = du.operand_term(cb.blocks[bb].term.args[0], 20)
                            names = {callee_name(x) for x in walk(it, False) if x[0] == "call"}
                            if "get_revisions" in names and not (names & {"take", "skip", "filter", "step_by", "take_while", "skip_while"}):
                                src_ok = True
                        if any(cb.blocks[bb].term.callee.name == "next" and contains_call(du.operand_term(cb.blocks[bb].term.args[0], 20), "get_leafs") for bb in nb):
                            src_ok = False
                staged = any(l.kind == "call" and callee_name(l.term) == "is_staging" and l.truth is True for l in lits_of(cb, bi, facts))
                res.instance("K4", "%s: change record pushed for each element of the complete revision map (%s) under is_staging() (%s)" % (cb.path, src_ok, staged), cb.loc(t.line))
                if not (src_ok and staged):
                    res.violation("K4", "%s|change-set-not-all-staged-entries" % fn,
                                  "%s builds its change records from something other than `every entry of get_revisions() with is_staging()` (whole map: %s, under is_staging: %s): "
                                  "RevisionTree::commit marks every entry committed, so an entry that is not serialised (e.g. a resolution marker, which is never a leaf) is lost on reopen" % (
                                      fn, src_ok, staged), cb.loc(t.line))
            # every staged entry yields a record: from the is_staging()==true edge the loop cannot continue without a push
            edges = all_edge_lits(cb, facts)
            st_edges = [e for e, l in edges if l.kind == "call" and callee_name(l.term) == "is_staging" and l.truth is True]
            pb = {bi for bi, _ in pushes}
            for e in st_edges:
                if cb.kind == "closure":
                    ok = not cfg.return_reachable_without(e, pb)
                else:
                    hdrs = [hb for hb, ht in cb.calls() if ht.callee is not None and ht.callee.name == "next" and cfg.is_loop_header(hb) and cfg.reaches(e, hb)]
                    ok = bool(hdrs) and not any(cfg.reaches(e, hb, avoid=pb) for hb in hdrs[-1:])
                res.instance("K4", "%s: every staged entry produces a change record (no path skips the push): %s" % (cb.path, ok), cb.loc())
                if not ok:
                    res.violation("K4", "%s|staged-entry-skipped" % fn, "%s can skip the change record of a staged entry" % fn, cb.loc())
    res.floor("K4", "change-record push sites in commit and stage", n_k4, 2)
    res.floor("K4", "functions with change-record accumulation sites (commit, stage)", len(seen_fn), 2)

    # ------------------------------------------------------------------ K5 everything staged is packed
    res.rule("K5", "commit stages nothing after writing the pack (every staged object is in the pack the block references)")
    from . import c09
    from ..effects import effects_of
    cm = facts.body("melda::Melda::commit")
    if cm is not None:
        cg = cg_of(facts)
        eff = effects_of(facts)
        ccfg = cfg_of(cm)
        writers = c09.raw_writer_bodies(facts)
        wsites = c09.sites_reaching_writer(facts, cm, writers)
        psites = [s_ for s_ in wsites if not (len(s_.term.args) > 1 and contains_call(arg_term(cm, s_.term, 1, 30), "melda::DeltaId::key"))]
        stagers = [s_ for s_ in cg.sites[cm.path] if s_ not in wsites and not s_.fanout and
                   ("datastorage::DataStorage", "stage") in eff.site_effects(s_)]
        res.instance("K5", "commit: pack write site(s) %s; other sites that can stage objects: %s" % (
            [s_.loc() for s_ in psites], [(s_.name(), s_.loc()) for s_ in stagers]), cm.loc())
        res.floor("K5", "pack write site in commit", len(psites), 1)
        res.floor("K5", "staging call sites in commit (automatic array resolution)", len(stagers), 1)
        for ps_ in psites:
            for st_ in stagers:
                if ccfg.reaches(ps_.block, st_.block):
                    res.violation("K5", "commit|stages-after-pack:%s" % st_.name(),
                                  "commit can call %s (which stages objects) after the pack has been written: the block would reference revisions whose "
                                  "objects are in no pack, and a reopened replica holds the block back" % st_.name(), st_.loc())

    # ------------------------------------------------------------------ K6 numbers read back as written
    # The pack is the text printed by serde_json; a reopened replica (and the committing one after a cache eviction) parses
    # it.  serde_json prints the shortest text that identifies the f64, but parses it back to exactly that f64 only when
    # built with `float_roundtrip` (its default parser is off by one ULP for ~30% of doubles): defect F21.
    res.rule("K6", "every number reads back from a pack as it was written: serde_json is built with float_roundtrip")
    try:
        fs = engine.dep_features("serde_json", engine.REPO)
    except Exception as e:  # pragma: no cover
        fs = None
        res.violation("K6", "cargo-metadata-failed", "cannot determine serde_json features: %r" % (e,))
    if fs is not None:
        res.floor("K6", "serde_json in the dependency graph", len(fs), 1)
        for f in fs:
            ok = "float_roundtrip" in f and "arbitrary_precision" not in f
            res.instance("K6", "serde_json resolved features %s: parse(print(x)) == x for every f64: %s" % (f, ok), None)
            if not ok:
                res.violation("K6", "serde_json|float-parse-not-exact",
                              "serde_json is built without `float_roundtrip`: a floating point number stored in a pack parses back one ULP off for about "
                              "a third of all doubles, so a reopened replica shows a different value than the committing replica did")

    # ------------------------------------------------------------------ K7 nesting depth: writer unbounded, reader bounded
    # serde_json serialises a Value of any nesting depth, but its parser stops at 128 nested containers unless the crate is built with
    # `unbounded_depth` *and* the parse site disables the limit. Blocks and packs are written with to_string and read back with
    # from_str / from_slice: a value nested deeper than the parser accepts is stored and can never be read again.
    res.rule("K7", "whatever nesting depth the writers emit, the readers accept (serde_json recursion limit)")
    parse_sites = []
    unlimited = 0
    for ob in facts.repo_bodies():
        for bi, t in ob.calls():
            c_ = t.callee
            if c_ is None or c_.krate != "serde_json":
                continue
            if c_.name in ("from_str", "from_slice", "from_reader", "from_value") and c_.name != "from_value":
                parse_sites.append((ob, t))
            if c_.name == "disable_recursion_limit":
                unlimited += 1
    res.floor("K7", "serde_json parse sites in the crate (block fetch, object read)", len(parse_sites), 2)
    if fs is not None:
        feat_ok = all("unbounded_depth" in f for f in fs)
        ok7 = feat_ok and unlimited >= len(parse_sites)
        res.instance("K7", "%d parse sites; serde_json built with unbounded_depth: %s; sites that disable the recursion limit: %d" % (
            len(parse_sites), feat_ok, unlimited), parse_sites[0][0].loc(parse_sites[0][1].line) if parse_sites else None)
        if not ok7:
            res.violation("K7", "serde_json|reader-depth-bounded:128",
                          "blocks and packs are written by serde_json::to_string (any nesting depth) and read back by from_str / from_slice with the "
                          "default recursion limit of 128: a document value or commit information nested deeper than that is committed successfully and "
                          "is unreadable afterwards", parse_sites[0][0].loc(parse_sites[0][1].line) if parse_sites else None)

    # ------------------------------------------------------------------ K2f storage key
    c = facts.body("melda::Melda::commit")
    fch = R.body("fetcher")
    n = 0
    for body, fn in ((c, R.name("raw_write")), (fch, R.name("raw_read"))):
        if body is None:
            continue
        for bi, t in body.calls():
            if t.callee is not None and t.callee.name == fn:
                n += 1
                k = arg_term(body, t, 1)
                okk = contains_call(k, "melda::DeltaId::key")
                res.instance("K2", "%s: storage key of the block derives from DeltaId::key: %s" % (body.path, okk), body.loc(t.line))
                if not okk:
                    res.violation("K2", "%s|block-key-function" % body.path,
                                  "%s does not derive the block's storage key from DeltaId::key (writer and reader must agree)" % body.path, body.loc(t.line))
    res.floor("K2", "block write + block fetch key sites", n, 2)


def _writer_tag(e):
    """what a record element is, from the structure of its term (no variable names): the digest of the record's revision,
    the printed parent revision (field 2 of a Change / get_parent()), or the object identifier (a plain copy)"""
    cf = {x[2] for x in walk(e) if x[0] == "field" and len(x) > 3 and (x[3] or "").endswith("Change")}
    if contains_call(e, "get_parent"):
        return "prev"
    if contains_call(e, "digest"):
        return "rev.digest" if (not cf or "1" in cf) else None
    if contains_call(e, "to_string"):
        if cf:
            return "prev" if "2" in cf else ("rev" if "1" in cf else None)
        return "rev"
    if contains_call(e, "clone") or contains_call(e, "to_owned"):
        return "uuid" if (not cf or "0" in cf) else None
    return None


def _else_rejects(r, lc, facts):
    """a record whose arity matches none of the accepted ones is rejected with Err"""
    from ..common import assigns_of_return
    cfg = cfg_of(r)
    errs = {b for b, _ in assigns_of_return(r, "Err")}
    entries = []
    eqs = [(c, sites) for (op, c), sites in lc.items() if op == "Eq"]
    if not eqs:
        return False
    last = max(eqs, key=lambda e: e[0])
    for (bi, ln) in last[1]:
        t = r.blocks[bi].term
        if t.kind != "switch":
            continue
        if t.j.get("discr_ty") == "bool":
            for v, tgt in t.switch_edges():
                if v == 0:
                    entries.append(tgt)
        else:
            entries.append(t.j["otherwise"])     # `match len { 2 => .., 3 => .., _ => .. }`
    for tb in entries:
        # (after helper inlining the rejection runs through the spliced `?` chain: an Err built on the way and handed on by from_residual
        # down to the return counts as well)
        saw_err = False
        for _ in range(90):
            if tb in errs:
                return True
            blk = r.blocks[tb]
            for st in blk.stmts:
                if st.kind == "assign" and st.rv.kind == "agg" and st.rv.j.get("variant") == "Err":
                    saw_err = True
            if blk.term.kind == "call" and blk.term.callee is not None and blk.term.callee.name in ("from_residual", "format_err", "from_error"):
                saw_err = True
            if blk.term.kind == "return":
                if saw_err:
                    return True
                break
            ss = cfg.block_succs(tb)
            if len(ss) != 1:
                break
            tb = ss[0]
    return False


def _reader_positions(r, facts):
    """arity -> {tag: set(record positions it is read from)} from the Change aggregates built under len()==arity"""
    out = {}
    for bi, st, fields in tables.aggregates(r, "melda::Change"):
        ar = None
        for l in lits_of(r, bi, facts):
            if l.kind == "cmp" and l.term[1] == "Eq" and l.truth:
                for x in (l.term[2], l.term[3]):
                    if x[0] == "const" and x[1] == "int":
                        ar = x[2]
        if ar is None or len(fields) != 3:
            continue
        pos = {"uuid": tables.index_consts(fields[0])}
        # field 1 = revision built by Revision::new(index, digest, parent)
        rv = peel(fields[1])
        if rv[0] == "call" and callee_name(rv) == "new" and len(rv[2]) >= 3:
            pos["rev.digest"] = tables.index_consts(rv[2][1])
            if ar == 3:
                pos["prev"] = tables.index_consts(rv[2][2]) | tables.index_consts(fields[2])
        out[ar] = pos
    return out


def thorough(res):
    from .. import engine
    engine.sensitivity("C03", res)
