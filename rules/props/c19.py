"""C19 - Revision identifiers are canonical."""
import re
from ..cfg import cfg_of
from ..defuse import du_of, walk, peel, callee_name, fmt, inline_calls
from ..conds import lits_of
from ..callgraph import cg_of
from ..common import arg_term, contains_call, call_named, field_path, assigns_of_return
from .. import engine
from . import c05

TEXT = ("P1 (purity / effect analysis): the transitive callee closure inside the crate of the revision constructors "
        "and of digest_object / digest_string / digest_bytes contains no nondeterminism source (clock, RNG, "
        "environment, thread identity, iteration over RandomState-hashed containers, pointer-to-integer casts, statics); "
        "external callees are confined to sha2 / digest / hex / serde_json / core / alloc, and serde_json is resolved "
        "without preserve_order. P2 (field provenance): in every constructor `index` is the argument or parent.index + 1 "
        "(constant 1), `digest` is the digest argument or the kind constant, `tail` derives from "
        "digest_string(parent.to_string()) and from nothing else and is None iff there is no parent; Revision values are "
        "built only inside the constructors. P3 (print/parse table agreement): the separators and field order of the "
        "Display templates (decoded from the format_args! template constants) equal the literal separators and "
        "named-group order of the parser's regex constants, for Revision and for DeltaId. P4: eq and hash read the same "
        "field set, partial_cmp = Some(cmp), cmp yields Equal only on equal printed forms, which cover every field. "
        "P1 also requires digest_object to serialise the object itself (viewed), not a re-rendered copy. Does not decide collision-freeness of the 28-bit tail."
        " P4b: eq answers true only under equality of every field, hash feeds every field on every path.")
TECHNIQUE = 'static analysis over rustc MIR: field provenance of revision constructors, print/parse template agreement, Eq/Hash/Ord field-set consistency and symbolic evaluation of the comparator'
TRUSTED = ["rustc nightly MIR", "sha2, hex, regex, serde_json behave as documented", "format_args! template encoding of this nightly (0xC0 = plain placeholder, n<0x80 = literal of n bytes)"]

NONDET_PATH = ("std::time::", "std::env::", "std::thread::", "rand::", "getrandom", "std::hash::RandomState", "std::collections::hash_map::RandomState",
               "rayon::current_thread_index", "rayon_core::current_thread_index", "rayon_core::current_num_threads", "std::process::id",
               "std::ptr::addr", "core::ptr::addr", "uuid::")
UNORDERED_ITER = {"iter", "keys", "values", "into_iter", "drain", "iter_mut", "values_mut", "into_keys", "into_values"}
OK_CRATES = {"core", "alloc", "std", "sha2", "digest", "hex", "serde_json", "generic_array", "anyhow", "block_buffer", "crypto_common", "typenum", "regex", "lazy_static"}


def decode_template(b):
    """-> list of ('ph',) / ('lit', str)"""
    out = []
    i = 0
    while i < len(b):
        c = b[i]
        if c == 0:
            break
        if c == 0xC0:
            out.append(("ph",))
            i += 1
        elif c < 0x80:
            out.append(("lit", b[i + 1:i + 1 + c].decode("utf8", "replace")))
            i += 1 + c
        else:
            out.append(("ph?", c))
            i += 1
            # flags follow in an unknown encoding: fail closed at the caller
    return out


def templates(body):
    """[(block, decoded template, [arg field names])] for format_args! in body"""
    du = du_of(body)
    out = []
    for bi, t in body.calls():
        c = t.callee
        if c is None or not c.path.startswith("std::fmt::Arguments") or c.name != "new" or len(t.args) < 2:
            continue
        tt = du.operand_term(t.args[0], 8)
        bs = [x[2] for x in walk(tt) if x[0] == "const" and x[1] in ("bytes", "str")]
        if not bs:
            continue
        raw = bs[0] if isinstance(bs[0], bytes) else bs[0].encode()
        at = du.operand_term(t.args[1], 26)
        fields = []
        for x in walk(at):
            if x[0] == "array":
                for e in x[1]:
                    fs = [y[2] for y in walk(e) if y[0] == "field"]
                    fields.append(fs[-1] if fs else "?")
                break
        out.append((bi, decode_template(raw), fields))
    return out


def regex_shape(s):
    """named groups in order and the literal separators between them"""
    names = re.findall(r"\(\?P<(\w+)>", s)
    parts = re.split(r"\(\?P<\w+>[^)]*\)", s)
    seps = [p for p in parts[1:len(names)]]
    return names, seps, parts[-1] if parts else ""


def run(facts, res):
    cg = cg_of(facts)
    res.rule("P1", "revision constructors and digest functions are pure (no nondeterminism source in their callee closure)")
    res.rule("P2", "constructor field provenance: index, digest, tail; Revision values are built only by the constructors")
    res.rule("P3", "Display templates and parser regexes agree on separators and field order (Revision, DeltaId)")
    res.rule("P4", "eq and hash read the same fields; cmp is Equal only on equal printed forms covering every field")

    # ------------------------------------------------------------------ P1
    roots = []
    for p in ("revision::Revision::new", "revision::Revision::new_updated", "revision::Revision::new_deleted",
              "revision::Revision::new_empty", "revision::Revision::new_resolved", "revision::Revision::from",
              "utils::digest_object", "utils::digest_string", "utils::digest_bytes",
              "<revision::Revision as std::fmt::Display>::fmt", "melda::DeltaId::new", "melda::DeltaId::new_from_anchors"):
        b = facts.body(p)
        if b is not None:
            roots.append(b)
    res.floor("P1", "constructor / digest roots", len(roots), 6)
    members = {}
    for r in roots:
        members.update(cg.reach(r))
    ext = {}
    for p, b in sorted(members.items()):
        for bi, t in b.calls():
            c = t.callee
            if c is None:
                continue
            tp = c.target()
            if facts.body(tp) is not None:
                continue
            ext.setdefault(c.krate, set()).add(tp.split("<")[0])
            if any(tp.startswith(n) or c.path.startswith(n) for n in NONDET_PATH):
                res.violation("P1", "%s|nondeterminism:%s" % (p, c.path), "%s (in the callee closure of the identifier functions) calls %s" % (p, c.path), b.loc(t.line))
            if c.krate not in OK_CRATES:
                res.violation("P1", "%s|unvetted-crate:%s" % (p, c.krate), "%s calls into crate %s, which is not in the vetted deterministic set" % (p, c.krate), b.loc(t.line))
            if c.name in UNORDERED_ITER and ("HashMap<" in (c.self_ty or c.full) or "HashSet<" in (c.self_ty or c.full) or "hash_map" in c.full or "hash_set" in c.full):
                res.violation("P1", "%s|unordered-iteration" % p, "%s iterates a RandomState-hashed container while computing an identifier" % p, b.loc(t.line))
        for blk in b.blocks:
            if blk.cleanup:
                continue
            for st in blk.stmts:
                if st.kind == "assign" and st.rv.kind == "cast" and "PointerExposeProvenance" in st.rv.j.get("kind", ""):
                    res.violation("P1", "%s|pointer-to-int" % p, "%s casts a pointer to an integer while computing an identifier" % p, b.loc(st.line))
                if st.kind == "assign" and st.rv.kind == "other" and "ThreadLocalRef" in st.rv.j.get("dbg", ""):
                    res.violation("P1", "%s|thread-local" % p, "%s reads a thread local while computing an identifier" % p, b.loc(st.line))
    res.instance("P1", "%d bodies in the callee closure; external callees by crate: %s" % (len(members), {k: len(v) for k, v in ext.items()}), None)
    try:
        fs = engine.dep_features("serde_json")
        res.instance("P1", "serde_json features %s" % fs, None)
        for f in fs:
            if set(f) & {"preserve_order", "arbitrary_precision"}:
                res.violation("P1", "serde_json-features", "serde_json built with %s: digest_object no longer hashes a canonical serialisation" % f)
    except Exception as e:
        res.violation("P1", "cargo-metadata-failed", "cannot determine serde_json features: %r" % (e,))
    # digest_object hashes the canonical serialisation of the whole object
    do = facts.body("utils::digest_object")
    if do is not None:
        ok = False
        for bi, st in assigns_of_return(do, "Ok"):
            t = du_of(do).rvalue_term(st.rv, 20)
            for x in walk(t):
                if x[0] == "call" and callee_name(x) == "digest_string" and contains_call(x, "to_string") and any(y[0] == "param" and y[1] == 1 for y in walk(x)):
                    ok = True
        if not ok:
            # closure form: `o.get(HASH).map_or_else(|| Ok(digest_string(&to_string(o))), ..)`: the closure's Ok value, the object captured
            for cb_ in facts.closures_of(do.path):
                for bi, st in assigns_of_return(cb_, "Ok"):
                    t = du_of(cb_).rvalue_term(st.rv, 20)
                    for x in walk(t):
                        if x[0] == "call" and callee_name(x) == "digest_string" and contains_call(x, "to_string") and \
                                any(y[0] == "upvar" and do.local_ty(1) and y[2].split(".")[0] == do.local_name(1) for y in walk(x)):
                            ok = True
        # ... of the object itself: what is serialised is the parameter, viewed - not a re-rendered copy (numbers "normalised", keys
        # re-cased): the pack stores the bytes of the object as submitted, and reload re-derives every digest from those bytes
        whole_ = None
        for cb_ in [do] + facts.closures_of(do.path):
            for bi, t in cb_.calls():
                if t.callee is None or t.callee.name != "to_string" or "serde_json" not in t.callee.path or not t.args:
                    continue
                a_ = arg_term(cb_, t, 0, 12)
                hops_ = 0
                while hops_ < 20 and a_[0] in ("ref", "deref", "cast", "var"):
                    hops_ += 1
                    a_ = a_[3] if a_[0] == "var" else a_[1]
                whole_ = (whole_ is not False) and ((a_[0] == "param" and a_[1] == 1) or (a_[0] == "upvar" and a_[2].split(".")[0] == do.local_name(1)))
        if whole_ is False:
            res.violation("P1", "digest_object|hashes-a-derived-copy",
                          "digest_object serialises a value derived from the object instead of the object itself: the digest no longer equals the hash of "
                          "the bytes that are stored for it, so a reopened replica cannot find the object", do.loc())
        res.instance("P1", "digest_object = digest_string(serde_json::to_string(object)): %s" % ok, do.loc())
        if not ok:
            res.violation("P1", "digest_object|not-hash-of-serialisation", "digest_object no longer returns digest_string(serde_json::to_string(o)) for ordinary objects", do.loc())

    # ------------------------------------------------------------------ P2
    def ctor_fields(b):
        du = du_of(b)
        for bi, st in assigns_of_return(b):
            if st.rv.kind == "agg" and st.rv.j.get("adt") == "revision::Revision":
                f = st.rv.j["fields"]
                ops = st.rv.operands()
                return {n: inline_calls(du.operand_term(o, 24), facts) for n, o in zip(f, ops)}, bi
        return None, None

    def tail_ok(t, parent_param):
        digs = [x for x in walk(t) if x[0] == "call" and callee_name(x) == "digest_string"]
        if not digs:
            return False
        for d in digs:
            if not (contains_call(d[2][0], "to_string") and any(y[0] == "param" and y[1] == parent_param for y in walk(d[2][0]))):
                return False
        # nothing but the parent and constants feeds the tail
        ps = {y[1] for y in walk(t) if y[0] == "param"}
        return ps <= {parent_param}

    nb = facts.body("revision::Revision::new")
    if nb is not None:
        f, bi = ctor_fields(nb)
        ok_i = f is not None and peel(f["index"])[0] == "param" and peel(f["index"])[1] == 1
        ok_d = f is not None and any(y[0] == "param" and y[1] == 2 for y in walk(f["digest"])) and not contains_call(f["digest"], "digest_string")
        ok_t = False
        if f is not None:
            tl = f["tail"]
            alts = tl[3][1] if (tl[0] == "var" and tl[3][0] == "phi") else (tl[1] if tl[0] == "phi" else [tl])
            somes = [a for a in alts if a[0] == "agg" and a[2] == "Some"]
            nones = [a for a in alts if a[0] == "agg" and a[2] == "None"]
            ok_t = len(somes) == 1 and len(nones) == 1 and tail_ok(somes[0], 3)
            # None iff no parent: the Some assignment is under `parent is Some`
            du = du_of(nb)
            some_under = none_under = False
            for d in du.defs.get(_tail_local(nb), []):
                if d.kind != "assign":
                    continue
                tt = du.rvalue_term(d.rv, 4)
                ls = lits_of(nb, d.block, facts)
                for l in ls:
                    if l.kind == "variant" and peel(l.term)[0] == "param" and peel(l.term)[1] == 3:
                        if tt[0] == "agg" and tt[2] == "Some" and l.variants == {"Some"}:
                            some_under = True
                        if tt[0] == "agg" and tt[2] == "None" and l.variants == {"None"}:
                            none_under = True
            ok_t = ok_t and some_under and none_under
            # equivalent idiom: `parent.map(|p| tail(p))` - Some iff the parent is Some by construction of Option::map
            tt = tl
            while tt[0] == "var":
                tt = tt[3]
            if not ok_t and tt[0] == "call" and callee_name(tt) == "map" and tt[2] and peel(tt[2][0])[0] == "param" and peel(tt[2][0])[1] == 3:
                ok_t = tail_ok(tt, 3)
        res.instance("P2", "Revision::new: index=arg %s, digest=arg %s, tail=Some(H(parent.to_string())[..7]) iff parent is Some %s" % (ok_i, ok_d, ok_t), nb.loc())
        if not (ok_i and ok_d and ok_t):
            res.violation("P2", "Revision::new|field-provenance", "Revision::new: index from argument: %s, digest from argument: %s, tail = hash of the parent's printed form iff a parent exists: %s" % (ok_i, ok_d, ok_t), nb.loc())
    else:
        res.floor("P2", "Revision::new", 0, 1)
    ub = facts.body("revision::Revision::new_updated")
    if ub is not None:
        f, bi = ctor_fields(ub)
        ok_i = f is not None and _is_parent_index_plus_1(f["index"], 2)
        ok_d = f is not None and any(y[0] == "param" and y[1] == 1 for y in walk(f["digest"]))
        ok_t = f is not None and f["tail"][0] == "agg" and f["tail"][2] == "Some" and tail_ok(f["tail"], 2)
        if f is None:
            # delegation: `new_updated(d, p) = Revision::new(p.index + 1, d, Some(p))` - `new` itself is checked above
            rt_ = peel(du_of(ub).local_term(0, 20))
            if rt_[0] == "call" and rt_[1] == "revision::Revision::new" and len(rt_[2]) >= 3:
                ok_i = _is_parent_index_plus_1(rt_[2][0], 2)
                ok_d = any(y[0] == "param" and y[1] == 1 for y in walk(rt_[2][1])) and not contains_call(rt_[2][1], "digest_string")
                ok_t = any(y[0] == "agg" and y[2] == "Some" for y in walk(rt_[2][2])) and any(y[0] == "param" and y[1] == 2 for y in walk(rt_[2][2]))
        res.instance("P2", "Revision::new_updated: index=parent.index+1 %s, digest=arg %s, tail=Some(H(parent.to_string())[..7]) %s" % (ok_i, ok_d, ok_t), ub.loc())
        if not (ok_i and ok_d and ok_t):
            res.violation("P2", "Revision::new_updated|field-provenance", "Revision::new_updated: index = parent.index + 1: %s, digest from argument: %s, tail from parent: %s" % (ok_i, ok_d, ok_t), ub.loc())
    else:
        res.floor("P2", "Revision::new_updated", 0, 1)
    kinds = {"new_deleted": "DELETED_HASH", "new_empty": "EMPTY_HASH", "new_resolved": "RESOLVED_HASH"}
    seen_consts = {}
    for fn, cn in kinds.items():
        b = facts.body("revision::Revision::" + fn)
        if b is None:
            if fn != "new_empty":   # new_empty is unused (dead code) on the pinned tree; its removal is not an alarm
                res.floor("P2", "Revision::" + fn, 0, 1)
            continue
        want = facts.const_str("constants::" + cn)

        def is_kind_ctor(t):
            return t[0] == "call" and t[1] == "revision::Revision::new" and len(t[2]) >= 3 and _is_parent_index_plus_1(t[2][0], 1) and \
                [x[2] for x in walk(t[2][1]) if x[0] == "const" and x[1] == "str"] == [want] and \
                peel(t[2][2], stop_var=False)[0] in ("agg", "param") and any(y[0] == "agg" and y[2] == "Some" for y in walk(t[2][2])) and \
                any(y[0] == "param" and y[1] == 1 for y in walk(t[2][2]))
        t = peel(du_of(b).local_term(0, 20))
        ok = is_kind_ctor(t)
        if not ok and t[0] == "call" and t[1] == "revision::Revision::new_updated" and len(t[2]) >= 2:
            # `new_deleted(p) = new_updated(DELETED_HASH, p)`: new_updated is checked above
            ok = [x[2] for x in walk(t[2][0]) if x[0] == "const" and x[1] == "str"] == [want] and peel(t[2][1])[0] == "param" and peel(t[2][1])[1] == 1
        if not ok and t[0] == "call" and facts.body(t[1]) is not None and not facts.body(t[1]).public:
            # through a private helper (`new_child(parent, KIND)`): the helper's body with the arguments substituted
            it = inline_calls(t, facts)
            ok = any(is_kind_ctor(x) for x in walk(it) if x is not it)
        seen_consts[fn] = want
        res.instance("P2", "Revision::%s = new(parent.index + 1, %r, Some(parent)): %s" % (fn, want, ok), b.loc())
        if not ok:
            res.violation("P2", "Revision::%s|shape" % fn, "Revision::%s is not Revision::new(parent.index + 1, %s, Some(parent))" % (fn, cn), b.loc())
    if len(set(seen_consts.values())) != len(seen_consts):
        res.violation("P2", "kind-constants-collide", "the deleted / empty / resolved digests are not pairwise distinct: %s" % seen_consts)
    # who may build a Revision
    builders = set()
    for b in facts.repo_bodies():
        for blk in b.blocks:
            if blk.cleanup:
                continue
            for st in blk.stmts:
                if st.kind == "assign" and st.rv.kind == "agg" and st.rv.j.get("adt") == "revision::Revision":
                    builders.add(b.path)
    allowed = {"revision::Revision::new", "revision::Revision::new_updated", "revision::Revision::null", "revision::Revision::from",
               "<revision::Revision as std::clone::Clone>::clone"}
    res.instance("P2", "functions building Revision values directly: %s" % sorted(builders), None)
    # private helpers of the allowed builders (e.g. `from_captures`, called by `from` only) share their licence
    cg_ = cg_of(facts)
    changed_ = True
    while changed_:
        changed_ = False
        for p in sorted(builders - allowed):
            pb = facts.body(p)
            callers_ = {(facts.body(s_.body.parent) if s_.body.kind == "closure" and s_.body.parent else s_.body).path for s_ in cg_.callers_of(p)}
            if pb is not None and not pb.public and pb.impl_adt == "revision::Revision" and callers_ and callers_ <= allowed:
                allowed.add(p)
                changed_ = True
    for p in sorted(builders - allowed):
        res.violation("P2", "%s|builds-revision-directly" % p, "%s builds a Revision outside the constructors (identifier would not be canonical)" % p, facts.body(p).loc())

    # ------------------------------------------------------------------ P3
    _print_parse(facts, res, "<revision::Revision as std::fmt::Display>::fmt",
                 {"FULL_REV": "<revision::FULL_REV as std::ops::Deref>::deref::__static_ref_initialize",
                  "FIRST_REV": "<revision::FIRST_REV as std::ops::Deref>::deref::__static_ref_initialize"}, "Revision")
    _print_parse(facts, res, "<melda::DeltaId as std::fmt::Display>::fmt",
                 {"DELTA_ID": "<melda::DELTA_ID as std::ops::Deref>::deref::__static_ref_initialize"}, "DeltaId")
    # the parser fills the fields from the groups of the same name
    fb = facts.body("revision::Revision::from")
    if fb is not None:
        from ..common import members_of
        n = 0
        for fbm in members_of(facts, fb):
          du = du_of(fbm)
          for blk in fbm.blocks:
            for st in blk.stmts:
                if st.kind == "assign" and st.rv.kind == "agg" and st.rv.j.get("adt") == "revision::Revision":
                    n += 1
                    for fld, op in zip(st.rv.j["fields"], st.rv.operands()):
                        t = inline_calls(du.operand_term(op, 20), facts)      # sees through a local `group(name)` closure
                        gs = sorted({x[2] for c in walk(t) if c[0] == "call" and callee_name(c) == "name" for x in walk(c[2][1]) if x[0] == "const" and x[1] == "str"})
                        if t[0] == "agg" and t[2] == "None":
                            continue
                        tv = t
                        while tv[0] == "var":
                            tv = tv[3]
                        if tv[0] == "call" and callee_name(tv) in ("then", "then_some") and len(tv[2]) >= 2:
                            # `cond.then(|| group("tail").to_string())`: the value is the closure's result; the condition is judged by P3b
                            vals_ = tv[2][1:]
                            gs = sorted({x[2] for v_ in vals_ for c in walk(v_) if c[0] == "call" and callee_name(c) == "name"
                                         for x in walk(c[2][1]) if x[0] == "const" and x[1] == "str"})
                        if gs != [fld]:
                            res.violation("P3", "Revision::from|group-field:%s" % fld, "Revision::from fills field %s from regex group(s) %s" % (fld, gs), fb.loc(st.line))
                        # the captured text is taken over unmodified (views, copies and the integer parse only)
                        between = {callee_name(c) for c in walk(t) if c[0] == "call"} - {"name", "captures", "unwrap", "expect", "as_str", "to_string", "to_owned",
                                                                                       "parse", "into", "from", "deref", "branch", "clone", "as_ref",
                                                                                       "call", "call_mut", "call_once", "then", "then_some"}
                        if between:
                            res.violation("P3", "Revision::from|group-text-transformed:%s" % fld,
                                          "Revision::from transforms the captured text of group `%s` (%s) before storing it: printing a revision and parsing it back "
                                          "no longer yields the same revision for every identifier the system can print" % (fld, sorted(between)), fb.loc(st.line))
        res.instance("P3", "Revision::from: %d aggregates, every field filled from the regex group of the same name" % n, fb.loc())
        res.floor("P3", "Revision aggregates in the parser", n, 1)
        # P3b: the parser accepts a tail only where Display prints one (index > 1).  Display drops the tail of a revision
        # whose index is <= 1 while Eq / Hash compare it: an accepted text `1-d_t` denotes a revision that prints as `1-d`, is
        # not the creation revision `1-d`, and whose children are named exactly like the children of `1-d` - one revision key,
        # two recorded parents, first arrival wins (defect F20)
        from ..census import atom_of
        res.rule("P3", "parse is the inverse of print on everything the parser accepts: a tail is accepted only for index > 1")
        nb = 0
        for fbm in members_of(facts, fb):
          du = du_of(fbm)
          for blk in fbm.blocks:
            for st in blk.stmts:
                # the sites where the parser wraps the captured `tail` group in Some(..)
                if not (st.kind == "assign" and st.rv.kind == "agg" and st.rv.j.get("variant") == "Some"):
                    continue
                tt = ("tuple", [du.operand_term(o, 14) for o in st.rv.operands()])
                gs = [x[2] for c in walk(tt) if c[0] == "call" and callee_name(c) == "name" and len(c[2]) > 1
                      for x in walk(c[2][1]) if x[0] == "const" and x[1] == "str"]
                if "tail" not in gs:
                    continue
                nb += 1
                ok = False
                for l in lits_of(fbm, blk.idx, facts):
                    a = atom_of(l, fbm)
                    if a and a[0] == "lt":
                        if (a[1] == "const:1" and a[3] is True) or (a[2] == "const:2" and a[3] is False):
                            ok = True
                res.instance("P3", "Revision::from: a tail is taken from the text only for index > 1: %s" % ok, fb.loc(st.line))
                if not ok:
                    res.violation("P3", "Revision::from|tail-accepted-for-first-revision",
                                  "Revision::from accepts a tail for every index, Display prints it only for index > 1 while Eq/Hash compare it: the accepted "
                                  "text `1-d_t` is a revision that prints as `1-d` but is not the creation revision; its children carry the identifiers of the "
                                  "children of `1-d`, so one revision can be recorded with two parents and the first arrival wins (winner depends on arrival order)",
                                  fb.loc(st.line))
        # `tail: (with_tail && index > 1).then(|| group("tail")..)`: the condition of the `then` must imply index > 1
        for fbm in members_of(facts, fb):
            du = du_of(fbm)
            for bi, t in fbm.calls():
                if t.callee is None or t.callee.name not in ("then", "then_some") or len(t.args) < 2:
                    continue
                vt = inline_calls(du.call_term(t, bi, 20), facts)
                gs_ = [x[2] for c in walk(vt) if c[0] == "call" and callee_name(c) == "name" and len(c[2]) > 1 for x in walk(c[2][1]) if x[0] == "const" and x[1] == "str"]
                if "tail" not in gs_:
                    continue
                nb += 1
                cond = du.operand_term(t.args[0], 40)
                while cond[0] == "var":
                    cond = cond[3]
                alts = cond[1] if cond[0] == "phi" else [cond]
                ok = bool(alts)
                for a_ in alts:
                    while a_[0] == "var":
                        a_ = a_[3]
                    if a_[0] == "const" and a_[1] == "bool" and a_[2] is False:
                        continue
                    from ..conds import Lit as _Lit
                    if not (a_[0] == "binop" and _means_index_gt_1(_Lit("cmp", a_, True))):
                        ok = False
                res.instance("P3", "Revision::from: a tail is taken from the text only for index > 1 (condition of `then`): %s" % ok, fbm.loc(t.line))
                if not ok:
                    res.violation("P3", "Revision::from|tail-accepted-for-first-revision",
                                  "Revision::from accepts a tail for every index, Display prints it only for index > 1 while Eq/Hash compare it", fbm.loc(t.line))
        res.floor("P3", "parser aggregates carrying a tail", nb, 1)

    # ------------------------------------------------------------------ P4
    eqb = facts.body("<revision::Revision as std::cmp::PartialEq>::eq")
    hb = facts.body("<revision::Revision as std::hash::Hash>::hash")

    def fields_read(b):
        s = set()
        for blk in b.blocks:
            if blk.cleanup:
                continue
            for st in blk.stmts:
                if st.kind == "assign":
                    pls = []
                    if st.rv.kind in ("ref", "rawptr"):
                        pls.append(st.rv.place())
                    for o in st.rv.operands():
                        if o.place is not None:
                            pls.append(o.place)
                    for pl in pls:
                        for p in pl.proj:
                            if p["k"] == "field" and p.get("of") == "revision::Revision":
                                s.add(p["n"])
        return s
    if eqb is not None and hb is not None:
        fe, fh = fields_read(eqb), fields_read(hb)
        allf = {f["name"] for v in facts.structs["revision::Revision"]["variants"] for f in v["fields"]}
        res.instance("P4", "eq reads %s, hash reads %s, struct has %s" % (sorted(fe), sorted(fh), sorted(allf)), eqb.loc())
        if fe != fh or fe != allf:
            res.violation("P4", "eq-hash-fields", "Revision::eq reads %s, Revision::hash reads %s, the struct has %s" % (sorted(fe), sorted(fh), sorted(allf)), eqb.loc())
        # P4b: eq answers true only when *every* field is equal, and hash feeds every field on every path: an equality that skips a
        # field under some condition (deleted revisions compared without their tail) identifies distinct revisions - the second one to
        # arrive is dropped by the insert-if-absent of the revision map, and which one that is depends on the order of arrival
        from ..conds import closure_result_lits
        from ..cfg import cfg_of as _cfg_of
        tl = closure_result_lits(eqb, facts, True)

        def eq_on(l, f):
            t_ = l.term
            if l.kind == "cmp" and ((t_[1] == "Ne" and l.truth is False) or (t_[1] == "Eq" and l.truth is True)):
                ops_ = (t_[2], t_[3])
            elif l.kind == "call" and callee_name(t_) in ("eq", "ne") and len(t_[2]) == 2 and l.truth is (callee_name(t_) == "eq"):
                ops_ = (t_[2][0], t_[2][1])
            else:
                return False
            sides = [{(x[1][1] if x[1][0] == "param" else None) for x in walk(o) if x[0] == "field" and x[2] == f and
                      (lambda r: r[0] == "param")(_root(x[1]))} for o in ops_]
            return all(sides)
        def _root(t_):
            hops = 0
            while hops < 30 and t_[0] in ("ref", "deref", "cast", "field", "var"):
                t_ = t_[3] if t_[0] == "var" else t_[1]
                hops += 1
            return t_
        missing = sorted(f for f in allf if not any(eq_on(l, f) for l in tl))
        res.instance("P4", "eq answers true only under equality of every field (fields without an equality literal on the true result: %s)" % missing, eqb.loc())
        if missing or not tl:
            res.violation("P4", "eq-true-without-comparing:%s" % ",".join(missing or ["?"]),
                          "Revision::eq can answer true without having compared %s: two revisions that differ there are one key of the revision map" % (missing or "its fields"), eqb.loc())
        hcfg = _cfg_of(hb)
        rets = [blk.idx for blk in hb.blocks if not blk.cleanup and blk.term.kind == "return"]
        for f in sorted(allf):
            fb = []
            for bi, t in hb.calls():
                if t.callee is not None and t.callee.name in ("hash", "hash_slice", "write", "write_u32", "write_str", "write_u64", "write_usize") and t.args:
                    a0 = arg_term(hb, t, 0, 12)
                    if any(x[0] == "field" and x[2] == f for x in walk(a0)):
                        fb.append(bi)
            skip = (not fb) or (0 not in fb and any(hcfg.reaches(0, r_, avoid=set(fb)) for r_ in rets))
            res.instance("P4", "hash feeds the field %s on every path: %s" % (f, not skip), hb.loc())
            if skip:
                res.violation("P4", "hash-field-conditional:%s" % f, "Revision::hash can return without feeding the field %s" % f, hb.loc())
    else:
        res.floor("P4", "PartialEq / Hash for Revision", 0, 2)
    cmpb = facts.body("<revision::Revision as std::cmp::Ord>::cmp")
    if cmpb is not None:
        try:
            tab = c05.abstract_cmp_table(cmpb, facts)
            bad = [k for k, v in tab.items() if (v == "=" and k[3] != "=") or v.startswith("«")]
            res.instance("P4", "cmp yields Equal only when the printed forms are equal: %s" % (not bad), cmpb.loc())
            if bad:
                res.violation("P4", "cmp|equal-without-string-equality", "Revision::cmp can yield Equal for revisions whose printed forms differ: %s" % bad[:3], cmpb.loc())
        except ValueError as e:
            res.violation("P4", "cmp|unrecognised-shape", "cannot extract Revision::cmp's decision table: %s" % e, cmpb.loc())


def _tail_local(b):
    for blk in b.blocks:
        for st in blk.stmts:
            if st.kind == "assign" and st.rv.kind == "agg" and st.rv.j.get("adt") == "revision::Revision":
                f = st.rv.j["fields"]
                o = st.rv.operands()[f.index("tail")]
                return o.place.local if o.place is not None else -1
    return -1


def _is_parent_index_plus_1(t, parent):
    """t = (parent.index + 1)"""
    for x in walk(t):
        if x[0] == "binop" and x[1] in ("Add", "AddWithOverflow", "AddUnchecked"):
            a, b = x[2], x[3]
            for p, q in ((a, b), (b, a)):
                if q[0] == "const" and q[2] == 1:
                    if any(y[0] == "field" and y[2] == "index" for y in walk(p)) and any(y[0] == "param" and y[1] == parent for y in walk(p)):
                        return True
        if x[0] == "call" and callee_name(x) in ("checked_add", "saturating_add", "wrapping_add") and len(x[2]) == 2:
            if x[2][1][0] == "const" and x[2][1][2] == 1 and any(y[0] == "field" and y[2] == "index" for y in walk(x[2][0])):
                return True
    return False


def _print_parse(facts, res, disp_path, regex_bodies, label):
    db = facts.body(disp_path)
    if db is None:
        res.floor("P3", "Display for " + label, 0, 1)
        return
    tpls = templates(db)
    res.floor("P3", "format templates in Display for " + label, len(tpls), 1)
    shapes = []
    for bi, dec, fields in tpls:
        if any(d[0] == "ph?" for d in dec):
            res.violation("P3", "%s|template-encoding" % label, "cannot decode the format template of Display for %s (formatting flags present)" % label, db.loc())
            return
        seps = [d[1] for d in dec if d[0] == "lit"]
        nph = len([d for d in dec if d[0] == "ph"])
        lead = dec and dec[0][0] == "lit"
        trail = dec and dec[-1][0] == "lit"
        shapes.append((fields[:nph], seps, lead, trail))
    rshapes = []
    for nm, bp in regex_bodies.items():
        rb = facts.body(bp)
        if rb is None:
            res.floor("P3", "regex initialiser " + nm, 0, 1)
            continue
        # concatenate the string constants of the initialiser in program order
        parts = []
        for blk in rb.blocks:
            if blk.cleanup:
                continue
            for st in blk.stmts:
                if st.kind == "assign" and st.rv.kind == "use":
                    o = st.rv.operands()[0]
                    if o.is_const() and o.const_str() is not None and (o.const_str().startswith("(") or o.const_str().startswith(".") or o.const_str().startswith(")")):
                        parts.append(o.const_str())
        rx = "".join(parts)
        names, seps, rest = regex_shape(rx)
        rshapes.append((nm, rx, names, seps, rest))
    res.instance("P3", "%s: Display shapes %s / parser regexes %s" % (label, [(f, s) for f, s, _, _ in shapes], [(n, nm, sp) for n, _, nm, sp, _ in rshapes]), db.loc())
    # every Display shape must be matched by a regex with the same group order and separators
    fieldmap = {"0": "index", "1": "digest"}
    for fields, seps, lead, trail in shapes:
        f2 = [fieldmap.get(f, f) for f in fields]
        if lead or trail:
            res.violation("P3", "%s|template-has-affix" % label, "Display for %s prints text before/after the fields" % label, db.loc())
        if not any(names == f2 and sp == seps for _, _, names, sp, _ in rshapes):
            res.violation("P3", "%s|print-parse-mismatch:%s" % (label, "".join(seps)),
                          "Display for %s prints fields %s separated by %s; no parser regex has that group order and those separators (%s)" % (
                              label, f2, seps, [(nm, sp) for _, _, nm, sp, _ in rshapes]), db.loc())
    # every decimal index the printer can emit must be accepted: the index group matches any non-empty digit string
    for nm, rx, names, sp, rest in rshapes:
        for gname, gpat in re.findall(r"\(\?P<(\w+)>([^)]*)\)", rx):
            if gname == "index":
                ok_ = gpat in ("\\d+", "[0-9]+", "\\d{1,10}", "[0-9]{1,10}")
                res.instance("P3", "%s regex %s: index group %r accepts every decimal index: %s" % (label, nm, gpat, ok_), db.loc())
                if not ok_:
                    res.violation("P3", "%s|index-group-class:%s" % (label, nm),
                                  "parser regex %s of %s matches the index with %r: indices the printer emits (any decimal number, e.g. 10 or 101) are rejected or, "
                                  "since the regex is unanchored, truncated" % (nm, label, gpat), db.loc())
    for nm, rx, names, sp, rest in rshapes:
        f2s = [[fieldmap.get(f, f) for f in fields] for fields, _, _, _ in shapes]
        if names not in f2s:
            res.violation("P3", "%s|regex-without-template:%s" % (label, nm), "parser regex %s (%s) has no Display form with fields %s" % (nm, rx, names), db.loc())
    if label == "DeltaId":
        de = facts.const_str("constants::DELTA_EXTENSION")
        for nm, rx, names, sp, rest in rshapes:
            ok = rest.replace("\\", "") == "(%s)?" % de
            res.instance("P3", "DELTA_ID regex accepts the optional block extension %r: %s" % (de, ok), db.loc())
            if not ok:
                res.violation("P3", "DeltaId|extension-group", "DELTA_ID regex tail %r does not accept exactly the optional DELTA_EXTENSION" % rest, db.loc())
        kb = facts.body("melda::DeltaId::key")
        if kb is not None:
            t = du_of(kb).local_term(0, 12)
            t = du_of(kb).local_term(0, 44)
            printed = contains_call(t, "to_string") or any(x[0] == "call" and callee_name(x) == "new_display" and x[2] and
                                                           any(y[0] == "param" and y[1] == 1 for y in walk(x[2][0])) for x in walk(t))
            ok = printed and de in [x[2] for x in walk(t) if x[0] == "const" and x[1] == "str"]
            res.instance("P3", "DeltaId::key = to_string() + DELTA_EXTENSION: %s" % ok, kb.loc())
            if not ok:
                res.violation("P3", "DeltaId::key|shape", "DeltaId::key is not to_string() + DELTA_EXTENSION", kb.loc())
    if label == "Revision":
        # the short form is used exactly for index <= 1
        du = du_of(db)
        ok = False
        for bi, dec, fields in tpls:
            if len([d for d in dec if d[0] == "ph"]) == 3:
                for l in lits_of(db, bi, facts):
                    if l.kind == "cmp" and l.truth is not None and _means_index_gt_1(l):
                        ok = True
        res.instance("P3", "Revision: the three-field form is printed iff index > 1: %s" % ok, db.loc())
        if not ok:
            res.violation("P3", "Revision|full-form-condition", "Display for Revision no longer prints the tail exactly when index > 1", db.loc())


FIXTURE_EXPECT = ['nondeterminism:std::time', 'pointer-to-int']


def _means_index_gt_1(l):
    """the literal states `index > 1` in any of its equivalent spellings (index > 1, !(index <= 1), index >= 2, 1 < index ...)"""
    op, a, b = l.term[1], l.term[2], l.term[3]
    flip = {"Gt": "Lt", "Lt": "Gt", "Ge": "Le", "Le": "Ge", "Eq": "Eq", "Ne": "Ne"}
    neg = {"Gt": "Le", "Le": "Gt", "Lt": "Ge", "Ge": "Lt", "Eq": "Ne", "Ne": "Eq"}
    if op not in flip:
        return False
    if a[0] == "const":
        a, b, op = b, a, flip[op]
    idx_like = any(y[0] == "field" and y[2] == "index" for y in walk(a)) or \
        any(y[0] == "call" and callee_name(y) in ("name", "call") and any(z[0] == "const" and z[1] == "str" and z[2] == "index" for z in walk(y)) for y in walk(a))
    if b[0] != "const" or not idx_like:
        return False
    if l.truth is False:
        op = neg[op]
    return (op, b[2]) in (("Gt", 1), ("Ge", 2))


def thorough(res):
    from .. import engine
    engine.sensitivity("C19", res)
