"""C16 - Delta-encoded arrays reconstruct exactly (structural clauses)."""
from ..cfg import cfg_of
from ..defuse import du_of, walk, peel, callee_name, fmt
from ..conds import lits_of
from ..callgraph import cg_of
from ..guards import locks_of
from ..roles import roles_of
from ..common import arg_term, contains_call, field_path, assigns_of_return
from .. import tables

TEXT = ("Thin claim: exactness of the Myers edit script for all pairs of arrays is arithmetic over runtime values and is "
        "NOT decided. Decided: E1 - in update_object the revision whose order is rebuilt as the diff base and the "
        "revision recorded as the new revision's parent are the same value (the winner of the same locked tree, no "
        "insertion in between), the chain walk follows the recorded parent links and leaves its loop as soon as the "
        "base order has been assigned (nearest stored full order); E2 - writer/reader table agreement "
        "for edit scripts: op-codes emitted = op-codes tested (anything else is an Err), per-op operand kinds agree "
        "position by position, and the applier's ranges are (start = op[2], end = op[2] + op[1]) for deletions and an "
        "empty range at op[1] for insertions; E3 - the reconstruction cache is transparent: the value stored under the "
        "base revision and the value returned are the same local, a hit returns the cached order unmodified, the cache "
        "guard is held across the whole reconstruction, keys are revisions (content-derived, C19), and only full orders "
        "are cached, and a cached order is never handed out mutably or removed."
        " E2e: the diff routine receives the two input sequences themselves, not derived keys. E2f: a window of the inputs handed to the diff routine has a trimmed tail measured on what the trimmed head left over (dependent bounds). E3e: on every path the order the edit scripts start from is assigned from one ancestor only. E2g: every array literal that starts with an op-code is built per element of the diff routine's result.")
TECHNIQUE = 'static analysis over rustc MIR: diff-base = recorded parent (provenance), op-code/operand table agreement of edit-script writer and applier, cache transparency (who-may-write, held guard, lookup keys), history-walk must-pass rules'
TRUSTED = ["rustc nightly MIR", "yavomrs::myers_unfilled produces a correct edit script", "Vec::drain / splice semantics", "C19"]


def run(facts, res):
    R = roles_of(facts)
    cg = cg_of(facts)
    res.rule("E1", "the diff base is the recorded parent")
    res.rule("E2", "edit-script op-code and operand tables of writer and applier agree")
    res.rule("E3", "the array reconstruction cache cannot change a result")

    # ------------------------------------------------------------------ E1
    u = facts.body("melda::Melda::update_object")
    if u is None:
        res.floor("E1", "update_object", 0, 1)
    else:
        du = du_of(u)
        cfg = cfg_of(u)
        diffs = [(bi, t) for bi, t in u.calls() if t.callee is not None and t.callee.name == R.name("diff_maker")]
        from ..effects import effects_of
        eff = effects_of(facts)
        adds = [(s_.block, s_.term) for s_ in cg.sites[u.path] if s_.callee is not None and not s_.fanout and
                ("revisiontree::RevisionTree", "revisions") in eff.site_effects(s_) and
                not any(t_.public and t_.impl_adt == "melda::Melda" for t_ in s_.targets)]
        news = []
        for mb in list(cg.reach(u).values()):
            if mb.in_repo() and (mb.path == u.path or (mb.impl_adt == "melda::Melda" and not mb.public)):
                news += [(mb, bi, t) for bi, t in mb.calls() if t.callee is not None and t.callee.target() == "revision::Revision::new_updated"]
        res.floor("E1", "diff + new_updated + add sites in update_object", min(len(diffs), len(adds), len(news)), 1)
        for (db, dt) in diffs:
            tree = arg_term(u, dt, 2, 20)
            tv = {x[1] for x in walk(tree) if x[0] == "var"}
            for (ab, at) in adds:
                argts = [arg_term(u, at, i_, 24) for i_ in range(len(at.args))]
                same_tree = any(bool(tv & {x[1] for x in walk(a_) if x[0] == "var"}) and not contains_call(a_, "get_winner") for a_ in argts)
                from_winner = any(contains_call(a_, "get_winner") and bool(tv & {x[1] for x in walk(a_) if x[0] == "var"}) for a_ in argts)
                nu_ok = any(contains_call(arg_term(mb, nt, 1, 20), "get_winner") or any(x[0] == "param" for x in walk(arg_term(mb, nt, 1, 20)))
                            for mb, _, nt in news)
                between = [x for x, _ in adds if x != ab and cfg.reaches(db, x) and cfg.reaches(x, ab)]
                ok = same_tree and from_winner and nu_ok and not between and not cfg.reaches(ab, db)
                res.instance("E1", "update_object: diff computed on tree T, parent = T.get_winner() (%s/%s), new revision built on the same winner (%s), no insertion between diff and add (%s)" % (
                    same_tree, from_winner, nu_ok, not between), u.loc(at.line))
                if not ok:
                    res.violation("E1", "update_object|diff-base-not-parent", "update_object records a parent that is not the revision the diff was computed against", u.loc(at.line))
        cd = R.body("diff_maker")
        if cd is not None:
            ok = False
            for bi, t in cd.calls():
                if t.callee is not None and t.callee.name == R.name("rebuilder"):
                    a = arg_term(cd, t, 1, 16)
                    tr = arg_term(cd, t, 2, 10)
                    ok = contains_call(a, "get_winner") and any(x[0] == "param" and x[1] == 3 for x in walk(a)) and any(x[0] == "param" and x[1] == 3 for x in walk(tr))
            res.instance("E1", "create_delta_array_descriptor diffs against rebuild_array_order(rt.get_winner(), rt): %s" % ok, cd.loc())
            if not ok:
                res.violation("E1", "diff-maker|base", "the diff base is not the order at the winner of the tree passed in", cd.loc())
        rb = R.body("rebuilder")
        if rb is not None:
            ok = any(t.callee is not None and t.callee.target() == "revisiontree::RevisionTree::get_parent" for _, t in rb.calls())
            rev_ok = any(t.callee is not None and t.callee.name == "rev" for _, t in rb.calls())
            res.instance("E1", "rebuild_array_order walks RevisionTree::get_parent (%s) and applies the collected patches oldest first (rev(): %s)" % (ok, rev_ok), rb.loc())
            if not (ok and rev_ok):
                res.violation("E1", "array-rebuilder|chain", "rebuild_array_order no longer follows the recorded parent links / applies patches oldest first", rb.loc())

        # E1c: the walk stops at the nearest stored full order: the base the patches are applied to is assigned at most
        # once per reconstruction - inside the history loop an assignment of the base is followed by leaving the loop
        if rb is not None:
            rdu = du_of(rb)
            rcfg = cfg_of(rb)
            bases = set()
            scripts = set()
            from ..conds import capture_term
            for ab_ in [rb] + facts.closures_of(rb.path):
                adu = du_of(ab_)
                for bi, t in ab_.calls():
                    if t.callee is None or t.callee.target() != "utils::apply_diff_patch" or len(t.args) < 2:
                        continue
                    if ab_ is rb:
                        bases |= {x[1] for x in walk(rdu.operand_term(t.args[0], 6)) if x[0] == "var"}
                        scripts |= {x[1] for x in walk(rdu.operand_term(t.args[1], 44)) if x[0] == "var"}
                    else:
                        # `descriptors.iter().rev().try_for_each(|d| apply_diff_patch(&mut order, ..))`: the base is a captured
                        # variable, the scripts are the elements of the chain the closure is applied to
                        for x in walk(adu.operand_term(t.args[0], 8)):
                            if x[0] == "upvar":
                                ct = capture_term(ab_, x[1], facts)
                                while ct is not None and ct[0] in ("ref", "deref", "cast"):
                                    ct = ct[1]
                                if ct is not None and ct[0] == "var":
                                    bases.add(ct[1])
                        for cs in cg.callers_of(ab_.path):
                            if ab_ in cs.closures and cs.body is rb and cs.term.args:
                                scripts |= {y[1] for y in walk(rdu.operand_term(cs.term.args[0], 44)) if y[0] == "var"}
            n_as = 0
            for blk in rb.blocks:
                if blk.cleanup:
                    continue
                for st in blk.stmts:
                    if st.kind == "assign" and st.place is not None and st.place.local in bases and not st.place.proj:
                        n_as += 1
                        hdrs = [hb for hb, ht in rb.calls() if ht.callee is not None and ht.callee.name == "next" and
                                rcfg.dominates(hb, blk.idx) and rcfg.reaches(blk.idx, hb)]
                        res.instance("E1", "rebuild_array_order: base order assigned at line %s; the history walk continues afterwards: %s" % (st.line, bool(hdrs)), rb.loc(st.line))
                        if hdrs:
                            res.violation("E1", "array-rebuilder|walk-continues-past-full-order",
                                          "rebuild_array_order keeps walking towards older versions after it found a stored full order: an older full order "
                                          "overwrites the nearest one and the collected patches are applied to the wrong base", rb.loc(st.line))
            res.floor("E1", "assignments of the patch base in the rebuilder", n_as, 1)
            # E1d: every version met on the walk contributes: an iteration of the history loop returns to the loop header only
            # after pushing that version's edit script (or it assigns the base and leaves, E1c); skipping a version - e.g. a
            # deletion marker, whose order is the empty array - applies later scripts to the wrong base
            from .. import iters as _it
            pushes = [bi for bi, t in rb.calls() if t.callee is not None and t.callee.name in ("push", "push_back", "insert") and t.args and
                      any(x[0] == "var" and x[1] in scripts for x in walk(rdu.operand_term(t.args[0], 8)))]
            base_as = [blk.idx for blk in rb.blocks if not blk.cleanup for st in blk.stmts
                       if st.kind == "assign" and st.place is not None and st.place.local in bases and not st.place.proj]
            n_loops = 0
            for hb, ht in rb.calls():
                if ht.callee is None or ht.callee.name != "next":
                    continue
                body_ = _it.loop_body_blocks(rb, hb)
                if not any(p_ in body_ for p_ in pushes):
                    continue
                n_loops += 1
                sw = rb.blocks[ht.j["target"]]
                some_e = None
                for k_, (v_, tg_) in enumerate(sw.term.switch_edges()):
                    if v_ == 1:
                        some_e = rcfg.edge_nodes[(sw.idx, k_)]
                skip = some_e is not None and rcfg.reaches(some_e, hb, avoid=set(pushes) | set(base_as))
                res.instance("E1", "rebuild_array_order: every iteration of the history loop pushes the version's script or fixes the base: %s" % (not skip), rb.loc(ht.line))
                if skip:
                    res.violation("E1", "array-rebuilder|history-element-skipped",
                                  "rebuild_array_order can move on to the next older version without recording the current one (neither its script is "
                                  "pushed nor the base assigned): e.g. a deletion marker is stepped over and later scripts are applied to an older order", rb.loc(ht.line))
            res.floor("E1", "history loops that collect edit scripts", n_loops, 1)

    # ------------------------------------------------------------------ E2
    w = facts.body("utils::make_diff_patch")
    a = facts.body("utils::apply_diff_patch")
    if w is None or a is None:
        res.floor("E2", "make_diff_patch / apply_diff_patch", 0, 2)
    else:
        wtab = {}
        from ..common import members_of as _mo16, inlined_sites as _is16
        for n, els, ln, bi in [x_ for wm_ in _mo16(facts, w) for x_ in tables.array_literals(wm_)]:
            code = [x[2] for x in walk(els[0]) if x[0] == "const" and x[1] == "str"]
            kinds = []
            for e in els[1:]:
                tv = [x for x in walk(e) if x[0] == "call" and callee_name(x) == "to_value"]
                ty = tv[0][4].args[0] if tv and tv[0][4] is not None else "?"
                kinds.append("array" if "[serde_json::Value]" in ty or "Vec<" in ty else ("number" if any(k in ty for k in ("i64", "u64", "usize", "i32", "u32")) else ty))
            if code:
                wtab.setdefault(code[0], set()).add(tuple(kinds))
        rtab = {}
        du = du_of(a)
        codes_tested = {}
        for s_ in _is16(facts, a, lambda t: t.callee.name in ("as_u64", "as_array", "as_i64", "as_str", "as_f64") and bool(t.args)):
            c = s_.term.callee
            idx = tables.index_consts(s_.args[0])
            if idx == {0} or not idx:
                continue
            code = None
            for l in s_.lits:
                if l.kind == "call" and callee_name(l.term) == "eq" and l.truth is True:
                    cs = [x[2] for arg in l.term[2] for x in walk(arg) if x[0] == "const" and x[1] == "str"]
                    if cs:
                        code = cs[0]
            if code is not None:
                for i in idx:
                    rtab.setdefault(code, {})[i] = "array" if c.name == "as_array" else "number"
        wt = {k: sorted(v) for k, v in wtab.items()}
        rt = {k: tuple(v[i] for i in sorted(v)) for k, v in rtab.items()}
        res.instance("E2", "edit script records written %s / read %s" % (wt, rt), w.loc())
        want = {facts.const_str("constants::PATCH_INSERT"), facts.const_str("constants::PATCH_DELETE")}
        if set(wt) != set(rt) or set(wt) != want:
            res.violation("E2", "opcodes-differ", "make_diff_patch emits op-codes %s, apply_diff_patch handles %s (constants %s)" % (sorted(wt), sorted(rt), sorted(want)), a.loc())
        for k in wt:
            if k in rt and any(tuple(x) != rt[k] for x in wt[k]):
                res.violation("E2", "operands-differ:%s" % k, "op %r: writer operand kinds %s, applier reads %s" % (k, wt[k], rt[k]), a.loc())
        # unknown op-code -> Err
        rej = False
        for am_ in _mo16(facts, a):
            for eb, _st in assigns_of_return(am_, "Err"):
                falses = [l for l in lits_of(am_, eb, facts) if l.kind == "call" and callee_name(l.term) == "eq" and l.truth is False]
                if len(falses) >= len(rt) and len(rt) >= 1:
                    rej = True
        res.instance("E2", "apply_diff_patch rejects unknown op-codes with Err: %s" % rej, a.loc())
        if not rej:
            res.violation("E2", "unknown-op-not-rejected", "apply_diff_patch does not return Err for an op-code it does not know", a.loc())
        # ranges
        d_ok = i_ok = False
        for am_, bi, t in [(m_, bi_, t_) for m_ in _mo16(facts, a) for bi_, t_ in m_.calls()]:
            if t.callee is None or t.callee.name not in ("drain", "splice"):
                continue
            du = du_of(am_)
            rg = peel(du.operand_term(t.args[1], 40))
            if rg[0] != "agg" or not rg[1].endswith("ops::Range"):
                continue
            s_i = tables.index_consts(rg[3][0])
            e_i = tables.index_consts(rg[3][1])
            if t.callee.name == "drain":
                d_ok = s_i == {2} and e_i == {1, 2} and any(x[0] == "binop" and x[1].startswith("Add") for x in walk(rg[3][1]))
            else:
                items = tables.index_consts(du.operand_term(t.args[2], 40))
                i_ok = s_i == {1} and e_i == {1} and items == {2}
        res.instance("E2", "applier ranges: delete = drain(op[2] .. op[2]+op[1]) %s; insert = splice(op[1]..op[1], op[2]) %s" % (d_ok, i_ok), a.loc())
        if not (d_ok and i_ok):
            res.violation("E2", "applier-ranges", "apply_diff_patch: delete range (start op[2], end op[2]+op[1]): %s; insert at op[1] of op[2]: %s" % (d_ok, i_ok), a.loc())

        # E2e: the edit script is computed over the elements themselves: the two sequences handed to the diff routine are the two
        # parameters of make_diff_patch, viewed but not re-encoded. A diff over derived keys (interned tokens, printed forms, hashes) is
        # an edit script between the *key* sequences; wherever the keying is not injective (the string "1" and the number 1) the
        # script leaves a stale element in place and the stored array differs from the submitted one.
        VIEW = {"deref", "as_ref", "as_slice", "borrow", "iter", "as_ptr", "index", "to_vec", "clone", "into", "from"}
        n2e = 0
        for s_ in _is16(facts, w, lambda t: t.callee is not None and t.callee.name.startswith("myers") and len(t.args) >= 2):
            n2e += 1
            which = []
            for i_ in (0, 1):
                x = s_.args[i_]
                hops = 0
                ok_ = None
                while hops < 40 and ok_ is None:
                    hops += 1
                    if x[0] in ("ref", "deref", "cast"):
                        x = x[1]
                    elif x[0] == "var":
                        x = x[3]
                    elif x[0] == "call" and callee_name(x) in VIEW and x[2]:
                        if callee_name(x) == "index" and len(x[2]) > 1:
                            _window_bounds(x[2][1], s_, res)
                        x = x[2][0]
                    elif x[0] == "param":
                        ok_ = x[1]
                    else:
                        ok_ = 0
                which.append(ok_ or 0)
            ok = which == [1, 2]
            res.instance("E2", "the diff routine receives the old and the new sequence themselves (parameters %s): %s" % (which, ok), s_.loc())
            if not ok:
                res.violation("E2", "diff-maker|diff-not-over-the-elements",
                              "make_diff_patch hands the diff routine sequences derived from its inputs (%s) instead of (old, new) themselves: the edit script "
                              "describes the derived sequences, and elements the derivation identifies are silently not replaced" % which, s_.loc())
        res.floor("E2", "diff routine call sites in make_diff_patch", n2e, 1)
        # E2g: every operation of the script restates one operation of the diff routine: the array literals that start with an op-code are
        # built per element of the routine's result (inside the loop / closure over it). A second way to produce a script (a "rewrite
        # the whole array" shortcut for long scripts) needs its own arithmetic - a deletion sized by the wrong array leaves stale elements.
        from ..common import members_of as _mo16
        opcodes = {facts.const_str("constants::PATCH_INSERT"), facts.const_str("constants::PATCH_DELETE")} - {None}
        n2g = 0
        for m_ in _mo16(facts, w):
            for (n_, els_, ln_, bi_) in tables.array_literals(m_):
                if not any(x[0] == "const" and x[1] == "str" and x[2] in opcodes for x in walk(els_[0])):
                    continue
                n2g += 1
                per_op = m_.kind == "closure"
                for l in lits_of(m_, bi_, facts):
                    if l.kind == "variant" and l.variants == {"Some"} and callee_name(peel(l.term)) == "next" and \
                            any(x[0] == "call" and callee_name(x).startswith("myers") for x in walk(l.term)):
                        per_op = True
                res.instance("E2", "make_diff_patch: the script operation built at line %d restates one operation of the diff routine: %s" % (ln_, per_op), m_.loc(ln_))
                if not per_op:
                    res.violation("E2", "diff-maker|operation-not-from-the-diff",
                                  "make_diff_patch builds a script operation outside the loop over the diff routine's operations: that operation's "
                                  "position and count are not the routine's", m_.loc(ln_))
        res.floor("E2", "script operations built in make_diff_patch", n2g, 2)

    # ------------------------------------------------------------------ E3
    rb = R.body("rebuilder")
    if rb is None:
        res.floor("E3", "rebuild_array_order", 0, 1)
    else:
        du = du_of(rb)
        puts = [(bi, t) for bi, t in rb.calls() if t.callee is not None and t.callee.name == "put" and "lru::LruCache" in t.callee.path]
        res.floor("E3", "cache put in rebuild_array_order", len(puts), 1)
        for bi, t in puts:
            k = arg_term(rb, t, 1, 12)
            v = arg_term(rb, t, 2, 16)
            key_ok = any(x[0] == "param" and x[1] == 2 for x in walk(k))
            full = contains_call(v, "new_from_order")
            vv = {x[1] for x in walk(v) if x[0] == "var"}
            ret_same = False
            cfg = cfg_of(rb)
            for ob, st in assigns_of_return(rb, "Ok"):
                if cfg.dominates(bi, ob):
                    rv = {x[1] for x in walk(du.rvalue_term(st.rv, 8)) if x[0] == "var"}
                    ret_same = bool(rv & vv)
            mut_between = False
            for l in vv:
                for (mb, mi) in du.mutation_sites(l):
                    if mb in cfg.reachable_blocks(bi) and mb != bi:
                        mut_between = True
            res.instance("E3", "cache.put(base_revision (%s), full order (%s)) and the returned value are the same local (%s), not mutated afterwards (%s)" % (
                key_ok, full, ret_same, not mut_between), rb.loc(t.line))
            if not (key_ok and full and ret_same and not mut_between):
                res.violation("E3", "array-rebuilder|cached-value-differs", "the order cached under the base revision is not exactly the order returned", rb.loc(t.line))
        # hit path returns the cached order unmodified
        hit_ok = False
        for ob, st in assigns_of_return(rb, "Ok"):
            t = du.rvalue_term(st.rv, 16)
            if contains_call(t, "get") and contains_call(t, "get_order") and contains_call(t, "clone"):
                others = {callee_name(x) for x in walk(t) if x[0] == "call"} - {"get", "get_order", "clone", "as_ref", "unwrap", "deref_mut", "deref", "lock"}
                hit_ok = hit_ok or not others and any(l.kind == "variant" and l.variants == {"Some"} for l in lits_of(rb, ob, facts))
        res.instance("E3", "a cache hit returns the cached order unmodified: %s" % hit_ok, rb.loc())
        if not hit_ok:
            res.violation("E3", "array-rebuilder|hit-transformed", "a cache hit no longer returns the cached order as is", rb.loc())
        # guard held across the whole reconstruction
        bl = locks_of(rb, facts)
        toks = [tok for tok, acq in bl.acqs.items() if acq.cls == "ADCACHE"]
        held_all = bool(toks)
        for bi, t in rb.calls():
            if bi in toks or t.callee is None:
                continue
            cfg = cfg_of(rb)
            if any(cfg.dominates(tk, bi) for tk in toks) and t.callee.name not in ("unwrap", "expect"):
                if not (set(toks) & set(bl.held_tokens(bi))):
                    held_all = False
        res.instance("E3", "the cache guard is held at every call after its acquisition (no window between probe and use): %s" % held_all, rb.loc())
        if not held_all:
            res.violation("E3", "array-rebuilder|cache-guard-released", "rebuild_array_order releases the cache guard during the reconstruction", rb.loc())
        # cache lookups are keyed by the revision currently being examined: outside loops the requested revision, inside a
        # loop a value defined by that loop's own iteration (never a cursor left over from another loop)
        cfg = cfg_of(rb)
        hdrs = sorted(h for h in cfg.loop_headers())

        def loop_of(block):
            best = None
            for h in hdrs:
                if cfg.dominates(h, block) and cfg.reaches(block, h):
                    body = {x for x in cfg.reachable_blocks(h) if cfg.reaches(x, h)} | {h}
                    if best is None or len(body) < len(best):
                        best = body
            return best
        n_look = 0
        for bi, t in rb.calls():
            c_ = t.callee
            if c_ is None or c_.name not in ("get", "contains", "peek", "get_mut") or "lru::LruCache" not in c_.path or len(t.args) < 2:
                continue
            n_look += 1
            k = arg_term(rb, t, 1, 10)
            body = loop_of(bi)
            if body is None:
                ok = peel(k)[0] == "param" and peel(k)[1] == 2
                why = "outside loops: key is the requested revision"
            else:
                kk = k
                while kk[0] in ("ref", "deref", "cast"):
                    kk = kk[1]
                kvars = [kk] if kk[0] == "var" else []
                ok = bool(kvars) and all(any(d.block in body for d in du.defs.get(x[1], [])) for x in kvars)
                if not kvars:
                    ok = any(x[0] == "call" and x[3] in body for x in walk(k))
                why = "inside a loop: key is defined by that loop's iteration"
            res.instance("E3", "cache.%s keyed by the revision under examination (%s): %s" % (c_.name, why, ok), rb.loc(t.line))
            if not ok:
                res.violation("E3", "array-rebuilder|cache-lookup-key",
                              "rebuild_array_order looks the cache up under %s, which is not the revision being examined at that point (a cursor from another "
                              "loop): the cached order of a different ancestor would be used and the edit scripts in between skipped" % fmt(k, 4), rb.loc(t.line))
        res.floor("E3", "cache lookups in the reconstruction", n_look, 2)
        # E3e: one starting point per reconstruction. The order the edit scripts are applied to is taken from exactly one ancestor - the
        # nearest one that is cached or stored in full - and the scripts collected are those above it. A second assignment of the
        # starting order on the same path (a cached order installed after the collection stopped at a nearer full descriptor)
        # applies the collected scripts to the wrong array, and only on replicas that happen to hold that cache entry.
        # the order local: the one whose clone is cached under the base revision and which is returned afterwards
        def _outer_vars(t_):
            """named locals a term mentions directly (not those their definitions mention)"""
            out_, st_ = set(), [t_]
            while st_:
                x_ = st_.pop()
                if not isinstance(x_, tuple) or not x_:
                    continue
                if x_[0] == "var":
                    out_.add(x_[1])
                    continue
                if x_[0] == "call":
                    st_.extend(x_[2])
                elif x_[0] in ("agg",):
                    st_.extend(x_[3])
                elif x_[0] in ("ref", "deref", "cast", "field", "downcast"):
                    st_.append(x_[1])
            return out_
        ols = set()
        for bi, t in puts:
            vv_ = _outer_vars(arg_term(rb, t, 2, 16))
            for ob, st in assigns_of_return(rb, "Ok"):
                if cfg.dominates(bi, ob):
                    ols |= vv_ & _outer_vars(du.rvalue_term(st.rv, 8))
        ols = {l_ for l_ in ols if "Vec<" in rb.local_ty(l_)}
        n3e = 0
        for ol in sorted(ols):
            srcs = []
            for d in du.defs.get(ol, []):
                if d.kind != "assign" or d.place.proj:
                    continue
                tt = peel(du.rvalue_term(d.rv, 14))
                if tt[0] == "call" and callee_name(tt) in ("new", "with_capacity", "default"):
                    continue        # the empty start value
                srcs.append(d)
            n3e += len(srcs)
            twice = [(a_, b_) for a_ in srcs for b_ in srcs if a_ is not b_ and cfg.reaches(a_.block, b_.block)]
            res.instance("E3", "the starting order of the reconstruction is assigned from one ancestor per path (%d source assignments, none reachable from another): %s" % (
                len(srcs), not twice), rb.loc())
            if twice:
                a_, b_ = twice[0]
                res.violation("E3", "array-rebuilder|starting-order-assigned-twice",
                              "rebuild_array_order can assign the order the edit scripts start from twice on one path (%s, then %s): the scripts collected down to "
                              "the first ancestor are applied to the order of another one" % (
                                  rb.loc(rb.blocks[a_.block].stmts[a_.idx].line), rb.loc(rb.blocks[b_.block].stmts[b_.idx].line)),
                              rb.loc(rb.blocks[b_.block].stmts[b_.idx].line))
        res.floor("E3", "source assignments of the starting order", n3e, 1)
        # who-may-write: the reconstruction function is the only writer of the array cache
        writers = set()
        for ob in facts.repo_bodies():
            for bi, t in ob.calls():
                c_ = t.callee
                if c_ is not None and c_.name in ("put", "push", "get_or_insert", "get_or_insert_mut", "pop", "clear", "pop_lru", "get_mut", "peek_mut") and \
                        "lru::LruCache" in c_.path and "melda::ArrayDescriptor" in " ".join(c_.args):
                    writers.add(ob.path)
        # ... and even the reconstruction function only *adds* entries: a cached order is never handed out mutably (get_mut /
        # peek_mut / iter_mut), removed or replaced in place - a later lookup of the same revision must find what was stored
        for ob in facts.repo_bodies():
            for bi, t in ob.calls():
                c_ = t.callee
                if c_ is not None and "lru::LruCache" in c_.path and "melda::ArrayDescriptor" in " ".join(c_.args) and \
                        c_.name in ("get_mut", "peek_mut", "iter_mut", "pop", "pop_lru", "get_or_insert_mut", "clear", "demote", "promote"):
                    res.violation("E3", "%s|cached-order-mutable:%s" % (ob.path, c_.name),
                                  "%s calls %s on the array reconstruction cache: a cached order can be changed or removed after it was stored, so the next "
                                  "reconstruction that starts from that revision uses a different order (the result depends on what was read before and on "
                                  "the cache capacity)" % (ob.path, c_.name), ob.loc(t.line))
        res.instance("E3", "writers of the array reconstruction cache: %s" % sorted(writers), rb.loc())
        for wpath in sorted(writers - {rb.path}):
            res.violation("E3", "%s|foreign-cache-writer" % wpath,
                          "%s writes the array reconstruction cache; only %s may store (revision -> order reconstructed for exactly that revision), "
                          "otherwise later diffs are computed against something that is not the recorded parent's order" % (wpath, rb.path), facts.body(wpath).loc())
        # keys are revisions
        kty = facts.struct_field_ty("melda::Melda", "array_descriptors_cache")
        ok = kty is not None and "LruCache<revision::Revision," in kty
        res.instance("E3", "cache type: %s" % kty, None)
        if not ok:
            res.violation("E3", "cache-key-type", "the array cache is not keyed by Revision (%s)" % kty)


def _window_bounds(r, site, res):
    """E2f: a window `x[head .. x.len() - tail]` handed to the diff routine has ordered bounds only if the trimmed tail was measured on
    what the head left over: a tail counted on the whole arrays, independently of the head, overlaps the head as soon as an element
    repeats ([x,y,y,z] -> [x,y,z]: head 2, tail 2) and the slice expression panics while the version is being stored."""
    while r[0] in ("ref", "deref", "cast", "var"):
        r = r[3] if r[0] == "var" else r[1]
    if r[0] != "agg" or not str(r[2]).startswith("Range") or len(r[3]) < 2:
        return
    start, end = r[3][0], r[3][1]
    sv = {x[1] for x in walk(start) if x[0] == "var"}
    if not sv:
        return
    for x in walk(end):
        if x[0] == "binop" and x[1].startswith("Sub") and contains_call(x[2], "len"):
            tv = {y[1] for y in walk(x[3]) if y[0] == "var"}
            tcalls = {callee_name(y) for y in walk(x[3]) if y[0] == "call"}
            if not tcalls & {"count", "position", "len", "rposition"}:
                continue
            dep = bool(sv & tv)
            res.instance("E2", "window handed to the diff routine: the trimmed tail (%s) is measured on what the head (%s) left over: %s" % (
                fmt(x[3], 3), fmt(start, 3), dep), site.loc())
            if not dep:
                res.violation("E2", "diff-maker|window-bounds-independent",
                              "make_diff_patch cuts the window [%s .. len - %s] with a tail measured independently of the head: on arrays with a repeated "
                              "element the two overlap, the bounds are inverted and the slice panics while the version is stored" % (fmt(start, 3), fmt(x[3], 3)), site.loc())


def thorough(res):
    from .. import engine
    engine.sensitivity("C16", res)
