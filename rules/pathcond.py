"""Path-sensitive branch facts.

`conds.lits_of` is dominance based: it knows the switch edges that every path to a block passes.  That loses conditions
that are computed first and tested later (`let applied = status == Ready && apply(..).is_ok(); if applied {..}`,
`let skip = a || b; if skip { continue }`, `matches!`), because the test is then a switch on a boolean *flag* whose value
was assigned on several paths.

This module runs a bounded *disjunctive* forward analysis over the CFG of one body.  The state at a node is a small set of
alternatives; an alternative is a set of facts:

   ("E", switch block, edge index)                   the path took that switch edge
   ("B", local, def block, def stmt index, negated)  bool local currently holds the value defined there (negated: through `!`)

At a switch on a bool local that is bound to a constant the infeasible edge is dropped; bound to a comparison / call the
edge asserts that definition's literal with the edge's truth.  Alternatives are joined by union (bounded; beyond the bound
they are intersected into one).  `implied(body, block)` returns the literals common to all alternatives reaching the block:
a superset of what dominance gives."""
from .cfg import cfg_of

MAX_ALTS = 16
MAX_VISITS = 40


def _is_bool(body, local):
    return body.mir.locals[local]["ty"] == "bool"


class PathFacts:
    def __init__(self, body):
        self.body = body
        self.cfg = cfg_of(body)
        self.state = {}      # node -> frozenset of alternatives (each a frozenset of facts) or None (unreached)
        self.flag_switches = set()   # switch blocks whose discriminant is a bool local
        self.unexplained = set()     # ... for which some alternative had no binding of the flag
        self._run()

    def _variant_index(self, adt, variant):
        a = (self.body.facts.adts or {}).get(adt) if self.body.facts is not None else None
        if not a:
            return {"None": 0, "Some": 1, "Ok": 0, "Err": 1, "Continue": 0, "Break": 1}.get(variant) if adt.split("<")[0].rsplit("::", 1)[-1] in ("Option", "Result", "ControlFlow") else None
        for v in a["variants"]:
            if v["name"] == variant:
                return v["discr"]
        return None

    # -------------------------------------------------------------- transfer
    def _bind(self, alt, local, val):
        """alt with the binding of `local` replaced by val (None = unknown)"""
        out = {f for f in alt if not (f[0] == "B" and f[1] == local)}
        if val is not None:
            out.add(("B", local) + val)
        return frozenset(out)

    def _binding(self, alt, local):
        for f in alt:
            if f[0] == "B" and f[1] == local:
                return f[2:]
        return None

    def _stmt_effect(self, alt, blk, i, st):
        if st.kind == "dead":
            # the flag's storage ends: its binding is forgotten (keeps the number of distinct binding sets small)
            l = st.j.get("l")
            if l is not None and any(f[0] == "B" and f[1] == l for f in alt):
                return self._bind(alt, l, None)
            return alt
        if st.kind != "assign" or st.place is None:
            return alt
        l = st.place.local
        if st.place.proj:
            # a write into part of the value: whatever was known about its variant is gone
            if any(f[0] == "B" and f[1] == l and f[2] == "vconst" for f in alt) and any(p["k"] != "deref" for p in st.place.proj):
                return self._bind(alt, l, None)
            return alt
        rv = st.rv
        ops = rv.operands()
        if not _is_bool(self.body, l):
            # enum-valued "flags": `let view = if deleted { None } else { Some(x) }; match view { .. }` - the variant a local was
            # given by an aggregate is remembered and decides the switch on its discriminant
            if rv.kind == "agg" and rv.j.get("variant") is not None and rv.j.get("adt"):
                idx = self._variant_index(rv.j["adt"], rv.j["variant"])
                return self._bind(alt, l, ("vconst", idx, 0, False) if idx is not None else None)
            if rv.kind == "discr":
                pl = rv.place()
                b = self._binding(alt, pl.local) if pl is not None and not pl.proj else None
                return self._bind(alt, l, b if b is not None and b[0] == "vconst" else None)
            if rv.kind == "use" and ops and ops[0].local() is not None:
                b = self._binding(alt, ops[0].local())
                return self._bind(alt, l, b if b is not None and b[0] == "vconst" else None)
            if any(f[0] == "B" and f[1] == l for f in alt):
                return self._bind(alt, l, None)
            return alt
        if rv.kind == "use" and ops:
            o = ops[0]
            if o.is_const() and "bool" in o.j:
                return self._bind(alt, l, ("const", bool(o.j["bool"]), 0, False))
            src = o.local()
            if src is not None and _is_bool(self.body, src):
                b = self._binding(alt, src)
                return self._bind(alt, l, b if b is not None else ("def", blk, i, False))
        if rv.kind == "unop" and rv.j.get("op") == "Not" and ops:
            src = ops[0].local()
            if src is not None and _is_bool(self.body, src):
                b = self._binding(alt, src)
                if b is not None:
                    if b[0] == "const":
                        return self._bind(alt, l, ("const", not b[1], 0, False))
                    return self._bind(alt, l, (b[0], b[1], b[2], not b[3]))
        return self._bind(alt, l, ("def", blk, i, False))

    def _block_out(self, alts, b):
        blk = self.body.blocks[b]
        out = set()
        for alt in alts:
            a = alt
            for i, st in enumerate(blk.stmts):
                a = self._stmt_effect(a, b, i, st)
            t = blk.term
            if t.kind in ("call", "tailcall") and t.dest is not None and not t.dest.proj and _is_bool(self.body, t.dest.local):
                a = self._bind(a, t.dest.local, ("def", b, -1, False))
            elif t.kind in ("call", "tailcall") and t.dest is not None and any(f[0] == "B" and f[1] == t.dest.local for f in a):
                a = self._bind(a, t.dest.local, None)
            out.add(a)
        return frozenset(out)

    def _edge_out(self, alts, node):
        """alternatives after taking switch edge `node`"""
        s, k, v, tgt = self.cfg.edge_info[node]
        term = self.body.blocks[s].term
        d = term.discr.local() if term.discr is not None else None
        is_bool = term.j.get("discr_ty") == "bool"
        targets = [x for (x, _) in term.j["targets"]]
        truth = None
        if is_bool:
            if v is None:
                truth = True if 0 in targets else (False if 1 in targets else None)
            else:
                truth = v != 0
        out = set()
        for alt in alts:
            a = set(alt)
            if not is_bool and d is not None:
                b = self._binding(alt, d)
                if b is not None and b[0] == "vconst":
                    if (v is not None and v != b[1]) or (v is None and b[1] in targets):
                        continue     # the local holds another variant on this alternative
            if is_bool and d is not None and truth is not None:
                self.flag_switches.add(s)
                b = self._binding(alt, d)
                if b is None:
                    self.unexplained.add(s)
                if b is not None and b[0] == "const":
                    if b[1] != truth:
                        continue     # infeasible edge for this alternative
                    out.add(frozenset(a))
                    continue
                if b is not None and b[0] == "def":
                    a.add(("A", b[1], b[2], truth != b[3], s, k))
            a.add(("E", s, k))
            out.add(frozenset(a))
        return frozenset(out)

    @staticmethod
    def _widen(alts):
        alts = list(alts)
        inter = set(alts[0])
        for a in alts[1:]:
            inter &= a
        return frozenset([frozenset(inter)])

    @staticmethod
    def _normalise(alts):
        """alternatives with the same flag bindings are merged (their path facts intersected): only the correlation between
        a flag's value and the edges taken matters, so the number of alternatives is bounded by the number of distinct
        binding sets of the flags that are live"""
        groups = {}
        for a in alts:
            key = frozenset(f for f in a if f[0] == "B")
            rest = frozenset(f for f in a if f[0] != "B")
            if key in groups:
                groups[key] = groups[key] & rest
            else:
                groups[key] = rest
        return frozenset(k | r for k, r in groups.items())

    def _join(self, a, b):
        if a is None:
            return self._normalise(b)
        if b is None:
            return self._normalise(a)
        u = self._normalise(a | b)
        if len(u) > MAX_ALTS:
            u = self._widen(u)
        return u

    def _run(self):
        cfg = self.cfg
        n = cfg.n
        IN = {0: frozenset([frozenset()])}
        visits = {}
        forced = set()
        work = [0]
        while work:
            x = work.pop()
            cur = IN.get(x)
            if cur is None:
                continue
            if x < n:
                out = self._block_out(cur, x)
            else:
                out = self._edge_out(cur, x)
            if not out:
                continue
            for y in cfg.succ[x]:
                old = IN.get(y)
                new = self._join(old, out)
                if y in forced and new is not None and len(new) > 1:
                    new = self._widen(new)
                if new != old:
                    visits[y] = visits.get(y, 0) + 1
                    if visits[y] > MAX_VISITS:
                        forced.add(y)
                        new = self._widen(new if old is None else (old | new))
                        if new == old:
                            continue
                    IN[y] = new
                    work.append(y)
        self.state = IN

    # -------------------------------------------------------------- queries
    def alternatives(self, block):
        s = self.state.get(block)
        return list(s) if s else []

    def common(self, block):
        alts = self.alternatives(block)
        if not alts:
            return frozenset()
        inter = set(alts[0])
        for a in alts[1:]:
            inter &= a
        return frozenset(inter)


def pathfacts_of(body):
    c = body._cache.get("pathfacts")
    if c is None:
        c = PathFacts(body)
        body._cache["pathfacts"] = c
    return c


def implied_lits(body, block, facts):
    """([Lit], explained): literals implied at `block` on every feasible path - decoded switch edges common to all
    alternatives and the literals asserted through bool flags; `explained` = switch blocks on a bool flag whose test was
    resolved through the flag's definition on every alternative"""
    from .conds import _decode_bool, _strip_var, decode
    from .defuse import du_of
    pf = pathfacts_of(body)
    du = du_of(body)
    cfg = cfg_of(body)
    out = []
    explained = set()
    common = pf.common(block)
    for f in sorted(common, key=lambda x: tuple(str(y) for y in x)):
        if f[0] == "A":
            _, db, di, truth, sb, k = f
            blk = body.blocks[db]
            if di == -1:
                t = du.call_term(blk.term, db, 22)
            else:
                t = du.rvalue_term(blk.stmts[di].rv, 22)
            lit = _decode_bool(_strip_var(t), truth, sb, t)
            e = cfg.edge_nodes.get((sb, k))
            lit.edge = cfg.edge_info[e] if e is not None else None
            lit.value = ("A", db, di)
            lit.implied = True
            if lit.kind != "flag":
                out.append(lit)
        elif f[0] == "E":
            _, sb, k = f
            e = cfg.edge_nodes.get((sb, k))
            if e is None:
                continue
            _, _, v, tgt = cfg.edge_info[e]
            lit = decode(body, sb, v, facts)
            lit.edge = (sb, k, v, tgt)
            lit.implied = True
            out.append(lit)
    for sb in pf.flag_switches:
        if sb not in pf.unexplained:
            explained.add(sb)
    return out, explained


def reaches_avoiding(body, start_nodes, target_block, avoid, facts, max_states=4000):
    """Path-sensitive reachability: can `target_block` be reached from one of `start_nodes` (CFG node ids: blocks or switch-edge
    nodes) along a *feasible* path none of whose switch edges asserts a literal accepted by `avoid(Lit)`?  Bool flags are tracked
    as in PathFacts: an edge on a flag bound to a constant is pruned when it contradicts the constant, an edge on a flag bound to
    a comparison / call asserts that definition's literal (so `let unchanged = !is_x && a == b; if unchanged { return }` cuts the
    paths the same way the nested `if` does)."""
    from .conds import _decode_bool, _strip_var, decode
    from .defuse import du_of
    pf = pathfacts_of(body)
    cfg = cfg_of(body)
    du = du_of(body)
    n = cfg.n
    seen = set()
    work = [(s, frozenset()) for s in start_nodes]
    while work and len(seen) < max_states:
        x, alt = work.pop()
        if (x, alt) in seen:
            continue
        seen.add((x, alt))
        if x < n:
            if x == target_block:
                return True
            outs = pf._block_out(frozenset([alt]), x)
        else:
            outs = pf._edge_out(frozenset([alt]), x)
            if not outs:
                continue        # infeasible for this binding
            s_, k_, v_, tgt_ = cfg.edge_info[x]
            lits = []
            l0 = decode(body, s_, v_, facts)
            l0.edge = (s_, k_, v_, tgt_)
            lits.append(l0)
            for a2 in outs:
                for f in a2 - alt:
                    if f[0] == "A":
                        _, db, di, truth, sb, kk = f
                        blk = body.blocks[db]
                        t = du.call_term(blk.term, db, 22) if di == -1 else du.rvalue_term(blk.stmts[di].rv, 22)
                        lits.append(_decode_bool(_strip_var(t), truth, sb, t))
            if any(avoid(l) for l in lits):
                continue
        for a2 in outs:
            # keep only the flag bindings (path facts are not needed for the search and would blow up the state space)
            a3 = frozenset(f for f in a2 if f[0] == "B")
            for y in cfg.succ[x]:
                work.append((y, a3))
    return False
