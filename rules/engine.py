"""Check engine: fact export with content-hash cache, result collection, known findings,
evidence files, VIOLATION / KNOWN-FINDING output."""
import fcntl
import hashlib
import json
import os
import re
import shutil
import subprocess
import sys
import time

VERIF = os.path.dirname(os.path.dirname(os.path.abspath(__file__)))
REPO = os.environ.get("VERIF_REPO", "/repo")
CACHE = os.environ.get("VERIF_CACHE", os.path.join(VERIF, ".cache"))
DRIVER = os.path.join(VERIF, "mirfacts", "target", "release", "mirfacts")
OUT = os.environ.get("VERIF_OUT", VERIF)   # where evidence/ and reports/ are written (variant runs redirect it)

CONFIGS = {
    "default": [],
    "all": ["--all-features"],
    "none": ["--no-default-features"],
    "fs": ["--no-default-features", "--features", "filesystemadapter"],
    "flate": ["--no-default-features", "--features", "flate2adapter"],
    "sqlite": ["--no-default-features", "--features", "sqlitedbadapter"],
    "brotli": ["--no-default-features", "--features", "brotliadapter"],
    "solid": ["--no-default-features", "--features", "solidadapter"],
}
QUICK_CONFIGS = ["default", "all"]
THOROUGH_CONFIGS = ["default", "all", "none", "fs", "flate", "sqlite", "brotli", "solid"]


def sha_file(h, path):
    with open(path, "rb") as f:
        h.update(path.encode())
        h.update(b"\0")
        h.update(f.read())
        h.update(b"\0")


def tree_hash(repo=None):
    repo = repo or REPO
    h = hashlib.sha256()
    files = []
    for root, dirs, fs in os.walk(os.path.join(repo, "src")):
        dirs.sort()
        for f in sorted(fs):
            files.append(os.path.join(root, f))
    for f in ("Cargo.toml", "Cargo.lock"):
        p = os.path.join(repo, f)
        if os.path.exists(p):
            files.append(p)
    for p in files:
        with open(p, "rb") as fh:
            h.update(os.path.relpath(p, repo).encode())
            h.update(b"\0")
            h.update(fh.read())
            h.update(b"\0")
    if os.path.exists(DRIVER):
        with open(DRIVER, "rb") as fh:
            h.update(hashlib.sha256(fh.read()).digest())
    return h.hexdigest()[:24], len(files)


def nightly_sysroot():
    return subprocess.check_output(["rustc", "+nightly", "--print", "sysroot"], text=True).strip()


def ensure_driver():
    if os.path.exists(DRIVER):
        return
    subprocess.check_call(["cargo", "build", "--release", "--offline"], cwd=os.path.join(VERIF, "mirfacts"))


def ensure_lockfile(repo):
    lock = os.path.join(repo, "Cargo.lock")
    if not os.path.exists(lock):
        sup = os.path.join(VERIF, "support", "Cargo.lock")
        if os.path.exists(sup):
            shutil.copy(sup, lock)


def export_facts(config, repo=None, crate="melda", quiet=True):
    """returns path of the fact file for (current tree of repo, config); re-exports when the
    content hash of the tree changed"""
    repo = repo or REPO
    ensure_driver()
    ensure_lockfile(repo)
    th, nfiles = tree_hash(repo)
    outdir = os.path.join(CACHE, "facts", th)
    out = os.path.join(outdir, "%s.%s.json" % (crate, config))
    if os.path.exists(out):
        return out, th, False
    os.makedirs(outdir, exist_ok=True)
    os.makedirs(os.path.join(CACHE, "target"), exist_ok=True)
    lockf = open(os.path.join(CACHE, "export.lock"), "w")
    fcntl.flock(lockf, fcntl.LOCK_EX)
    try:
        if os.path.exists(out):
            return out, th, False
        target = os.path.join(CACHE, "target")
        # force the workspace member through the wrapper again
        fp = os.path.join(target, "debug", ".fingerprint")
        if os.path.isdir(fp):
            for d in os.listdir(fp):
                if d.startswith(crate + "-"):
                    shutil.rmtree(os.path.join(fp, d), ignore_errors=True)
        for sub in ("deps", "incremental"):
            dd = os.path.join(target, "debug", sub)
            if os.path.isdir(dd):
                for d in os.listdir(dd):
                    if d.startswith(crate + "-") or d.startswith("lib" + crate + "-"):
                        pth = os.path.join(dd, d)
                        if os.path.isdir(pth):
                            shutil.rmtree(pth, ignore_errors=True)
                        else:
                            try:
                                os.remove(pth)
                            except OSError:
                                pass
        env = dict(os.environ)
        env["LD_LIBRARY_PATH"] = nightly_sysroot() + "/lib:" + env.get("LD_LIBRARY_PATH", "")
        env["RUSTFLAGS"] = "-Zmir-opt-level=0 -Awarnings"
        env["RUSTC_WORKSPACE_WRAPPER"] = DRIVER
        env["MIRFACTS_OUT"] = outdir
        env["MIRFACTS_TAG"] = config
        env["MIRFACTS_CRATES"] = crate
        env["CARGO_TARGET_DIR"] = target
        env["CARGO_NET_OFFLINE"] = "true"
        cmd = ["cargo", "+nightly", "check", "--offline", "--lib"] + CONFIGS[config]
        t0 = time.time()
        p = subprocess.run(cmd, cwd=repo, env=env, stdout=subprocess.PIPE, stderr=subprocess.STDOUT, text=True)
        if p.returncode != 0 or not os.path.exists(out):
            sys.stderr.write(p.stdout[-4000:])
            raise RuntimeError("fact export failed for config %s (exit %d)" % (config, p.returncode))
        # prune old fact directories (keep the 40 most recent)
        base = os.path.join(CACHE, "facts")
        ds = sorted((os.path.getmtime(os.path.join(base, d)), d) for d in os.listdir(base)
                    if os.path.isdir(os.path.join(base, d)))
        for _, d in ds[:-40]:
            shutil.rmtree(os.path.join(base, d), ignore_errors=True)
        return out, th, True
    finally:
        fcntl.flock(lockf, fcntl.LOCK_UN)
        lockf.close()


def export_fixture_facts():
    """facts of the positive fixture crate /verif/fixtures/vfix (same driver, own target dir)"""
    ensure_driver()
    fx = os.path.join(VERIF, "fixtures", "vfix")
    h = hashlib.sha256()
    for root, dirs, fs in os.walk(os.path.join(fx, "src")):
        dirs.sort()
        for f in sorted(fs):
            h.update(open(os.path.join(root, f), "rb").read())
    h.update(open(os.path.join(fx, "Cargo.toml"), "rb").read())
    h.update(hashlib.sha256(open(DRIVER, "rb").read()).digest())
    th = "fixture-" + h.hexdigest()[:20]
    outdir = os.path.join(CACHE, "facts", th)
    out = os.path.join(outdir, "melda.fixture.json")
    if os.path.exists(out):
        os.utime(outdir, None)
        return out
    os.makedirs(outdir, exist_ok=True)
    lockf = open(os.path.join(CACHE, "export-fixture.lock"), "w")
    fcntl.flock(lockf, fcntl.LOCK_EX)
    try:
        if os.path.exists(out):
            return out
        target = os.path.join(CACHE, "target-fix")
        fp = os.path.join(target, "debug", ".fingerprint")
        if os.path.isdir(fp):
            for d in os.listdir(fp):
                if d.startswith("melda-"):
                    shutil.rmtree(os.path.join(fp, d), ignore_errors=True)
        env = dict(os.environ)
        env["LD_LIBRARY_PATH"] = nightly_sysroot() + "/lib:" + env.get("LD_LIBRARY_PATH", "")
        env["RUSTFLAGS"] = "-Zmir-opt-level=0 -Awarnings"
        env["RUSTC_WORKSPACE_WRAPPER"] = DRIVER
        env["MIRFACTS_OUT"] = outdir
        env["MIRFACTS_TAG"] = "fixture"
        env["MIRFACTS_CRATES"] = "melda"
        env["CARGO_TARGET_DIR"] = target
        env["CARGO_NET_OFFLINE"] = "true"
        p = subprocess.run(["cargo", "+nightly", "check", "--offline", "--lib"], cwd=fx, env=env,
                           stdout=subprocess.PIPE, stderr=subprocess.STDOUT, text=True)
        if p.returncode != 0 or not os.path.exists(out):
            sys.stderr.write(p.stdout[-3000:])
            raise RuntimeError("fixture fact export failed (exit %d)" % p.returncode)
        return out
    finally:
        fcntl.flock(lockf, fcntl.LOCK_UN)
        lockf.close()


# ------------------------------------------------------------------------- results
class Violation:
    def __init__(self, rule, key, msg, loc=None, detail=None):
        self.rule = rule
        self.key = key
        self.msg = msg
        self.loc = loc
        self.detail = detail or {}
        self.configs = []


class Result:
    def __init__(self, prop):
        self.prop = prop
        self.instances = []     # {rule, what, where, nontrivial}
        self.violations = {}    # key -> Violation
        self.notes = []
        self.rules = {}         # rule id -> description
        self.floors = []
        self.config = None
        self.assumptions = []
        self.exceptions = []
        self.fixture = False

    def rule(self, rid, desc):
        self.rules.setdefault(rid, desc)

    def instance(self, rule, what, where=None, nontrivial=True, **kw):
        d = {"rule": rule, "what": what, "where": where, "nontrivial": nontrivial, "config": self.config}
        d.update(kw)
        self.instances.append(d)

    def violation(self, rule, subject, msg, loc=None, **detail):
        # the marks the inliner leaves in the paths of re-parented closures are not part of a finding's identity
        subject = re.sub(r"::\{inlined#\d+ [^}]*\}", "", subject)
        key = "%s|%s|%s" % (self.prop, rule, subject)
        v = self.violations.get(key)
        if v is None:
            v = Violation(rule, key, msg, loc, detail)
            self.violations[key] = v
        if self.config not in v.configs:
            v.configs.append(self.config)
        return v

    def floor(self, rule, what, count, minimum):
        """fail closed when fewer anchors / instances matched than were counted by hand"""
        if self.fixture:
            return
        self.floors.append({"rule": rule, "what": what, "count": count, "floor": minimum, "config": self.config})
        if count < minimum:
            self.violation(rule, "floor:" + what,
                           "anchor lost: %s matched %d site(s), expected at least %d (fail closed)" % (what, count, minimum))

    def note(self, s):
        self.notes.append(s)

    def exception(self, key, reason):
        self.exceptions.append({"key": key, "reason": reason})


# ------------------------------------------------------------------------- known findings
def load_known():
    path = os.path.join(VERIF, "known_findings.txt")
    openk, fixed = {}, []
    if os.path.exists(path):
        for line in open(path):
            line = line.strip()
            if not line or line.startswith("#"):
                continue
            m = re.match(r"open:\s+property=(\S+)\s+key=(\S+)\s+(.*)", line)
            if m:
                openk[m.group(2)] = (m.group(1), m.group(3))
                continue
            m = re.match(r"fixed:\s+property=(\S+)\s+(\S+)\s+(.*)", line)
            if m:
                fixed.append((m.group(1), m.group(2), m.group(3)))
    return openk, fixed


def slug(s):
    return re.sub(r"[^A-Za-z0-9_.-]+", "_", s)[:120] + "-" + hashlib.sha1(s.encode()).hexdigest()[:8]


def finish(prop, tier, results, t0, level_text, trusted, seed=0):
    """merge per-config results, print verdict lines, write evidence; returns exit code"""
    merged = Result(prop)
    for r in results:
        merged.instances.extend(r.instances)
        merged.floors.extend(r.floors)
        merged.notes.extend(n for n in r.notes if n not in merged.notes)
        merged.rules.update(r.rules)
        for e in r.exceptions:
            if e not in merged.exceptions:
                merged.exceptions.append(e)
        for k, v in r.violations.items():
            if k in merged.violations:
                for c in v.configs:
                    if c not in merged.violations[k].configs:
                        merged.violations[k].configs.append(c)
            else:
                merged.violations[k] = v
    openk, fixed = load_known()
    repdir = os.path.join(OUT, "reports", prop)
    os.makedirs(repdir, exist_ok=True)
    unknown = []
    known = []
    for k, v in sorted(merged.violations.items()):
        rep = os.path.join(repdir, slug(k) + ".json")
        with open(rep, "w") as f:
            json.dump({"property": prop, "key": k, "rule": v.rule, "message": v.msg, "location": v.loc,
                       "configs": v.configs, "detail": v.detail, "tier": tier}, f, indent=1, default=str)
        if k in openk:
            known.append((k, v))
            print("KNOWN-FINDING: property=%s %s %s" % (prop, k, v.msg))
        else:
            unknown.append((k, v, rep))
    for k, v, rep in unknown:
        print("%s/%s %s %s [configs: %s]" % (prop, v.rule, v.loc or "", v.msg, ",".join(map(str, v.configs))))
        print("VIOLATION property=%s replay=%s" % (prop, rep))
    # evidence
    distinct = {}
    for i in merged.instances:
        if i.get("nontrivial"):
            distinct[(i["rule"], i["what"], i.get("where"))] = i
    samples = []
    seen_rules = {}
    for i in merged.instances:
        c = seen_rules.get(i["rule"], 0)
        if c < 4:
            samples.append({k: v for k, v in i.items() if v is not None})
            seen_rules[i["rule"]] = c + 1
    obligations = len(merged.rules)
    failed_rules = {v.rule for v in merged.violations.values()}
    ev = {
        "property_id": prop,
        "tier": tier,
        "seed": seed,
        "level": "other",
        "coverage": {
            "explanation": level_text,
            "evaluations": len(merged.instances),
            "distinct_nontrivial": len(distinct),
            "rule": "one evaluation = one rule instance (anchor site x rule) decided on the MIR of one cargo "
                    "feature configuration; distinct = distinct (rule, subject, location) ignoring the configuration; "
                    "non-trivial = the rule's anchor matched real program sites and a dominance / dataflow / table "
                    "comparison was actually evaluated for it",
            "samples": samples[:60],
            "obligations": obligations,
            "discharged": obligations - len([r for r in merged.rules if r in failed_rules]),
            "rules": merged.rules,
            "floors": merged.floors,
            "configs": sorted({i["config"] for i in merged.instances if i.get("config")}),
            "frozen_exceptions": merged.exceptions,
            "notes": merged.notes,
            "known_findings_reported": [k for k, _ in known],
            "fixed_findings_on_record": [f for f in fixed if f[0] == prop],
            "trusted_base": trusted,
            "exhaustive": True,
        },
        "assumptions": trusted,
        "wall_s": round(time.time() - t0, 3),
        "violations": len(unknown),
    }
    os.makedirs(os.path.join(OUT, "evidence"), exist_ok=True)
    with open(os.path.join(OUT, "evidence", prop + ".json"), "w") as f:
        json.dump(ev, f, indent=1, default=str)
    print("%s %s: %d rule instances over %d rules, %d violation(s), %d known finding(s), %.1fs" % (
        prop, tier, len(merged.instances), obligations, len(unknown), len(known), time.time() - t0))
    return 1 if unknown else 0


def dep_features(crate_name, repo=None):
    """resolved cargo features of a dependency (cargo metadata, offline, all features of the root)"""
    repo = repo or REPO
    env = dict(os.environ)
    env["CARGO_NET_OFFLINE"] = "true"
    p = subprocess.run(["cargo", "metadata", "--offline", "--format-version", "1", "--all-features"],
                       cwd=repo, env=env, stdout=subprocess.PIPE, stderr=subprocess.PIPE, text=True)
    if p.returncode != 0:
        raise RuntimeError("cargo metadata failed: " + p.stderr[-500:])
    m = json.loads(p.stdout)
    out = []
    for n in m["resolve"]["nodes"]:
        if ("#%s@" % crate_name) in n["id"] or ("/%s#" % crate_name) in n["id"]:
            out.append(sorted(n["features"]))
    return out


# ------------------------------------------------------------------------- sensitivity suite
def sensitivity(prop, res):
    """Thorough tier: analyse (never run) one-edit variants of the repository that each break one clause of
    `prop`; record whether the rule fires and names the instance. A variant whose edit no longer applies to
    the current tree is skipped and reported. Outcomes are checker-health information: they are written to the
    evidence file and printed, they never turn into a VIOLATION of the property."""
    import tempfile
    idx = json.load(open(os.path.join(VERIF, "variants", "index.json")))
    mine = [v for v in idx if any(e[0] == prop for e in v["expect"])]
    out = []
    for v in mine:
        d = tempfile.mkdtemp(prefix="verif-sens.")
        try:
            repo = os.path.join(d, "repo")
            os.makedirs(repo)
            shutil.copytree(os.path.join(REPO, "src"), os.path.join(repo, "src"))
            for f in ("Cargo.toml", "Cargo.lock"):
                if os.path.exists(os.path.join(REPO, f)):
                    shutil.copy(os.path.join(REPO, f), repo)
            applied = False
            if "patch" in v:
                subprocess.run(["git", "init", "-q", "."], cwd=repo)
                p = subprocess.run(["git", "apply", os.path.join(VERIF, "variants", v["patch"])], cwd=repo,
                                   stdout=subprocess.PIPE, stderr=subprocess.PIPE)
                applied = p.returncode == 0
            else:
                fp = os.path.join(repo, v["file"])
                if os.path.exists(fp):
                    s = open(fp).read()
                    if v["old"] in s:
                        open(fp, "w").write(s.replace(v["old"], v["new"], 1))
                        applied = True
            rec = {"variant": v["name"], "applied": applied, "fired": None, "keys": []}
            if applied:
                env = dict(os.environ)
                env["VERIF_REPO"] = repo
                env["VERIF_OUT"] = os.path.join(d, "out")
                p = subprocess.run([os.path.join(VERIF, "check"), prop, "--tier", "quick", "--configs", "default,all"], env=env,
                                   stdout=subprocess.PIPE, stderr=subprocess.STDOUT, text=True)
                keys = []
                rd = os.path.join(d, "out", "reports", prop)
                if os.path.isdir(rd):
                    for f in os.listdir(rd):
                        try:
                            keys.append(json.load(open(os.path.join(rd, f)))["key"])
                        except Exception:
                            pass
                wants = [e[1] for e in v["expect"] if e[0] == prop]
                if any("engine|analysis-error" in k for k in keys):
                    rec["fired"] = None
                    rec["note"] = "variant does not compile on this tree: skipped"
                else:
                    rec["fired"] = all(any(w in k for k in keys) for w in wants)
                rec["keys"] = sorted(keys)[:6]
            out.append(rec)
            res.instance("sensitivity", "variant %s: applied=%s, rule fired=%s %s" % (v["name"], applied, rec["fired"], rec["keys"][:2]),
                         None, nontrivial=bool(applied))
            if applied and rec["fired"] is False:
                print("SENSITIVITY-WARNING property=%s variant=%s applied but the expected rule did not fire (checker health, not a property violation)" % (prop, v["name"]))
        finally:
            shutil.rmtree(d, ignore_errors=True)
    res.rule("sensitivity", "seeded one-edit variants of the repository are analysed statically; each must make its rule fire (checker health)")
    res.note("sensitivity suite: %d variant(s) for %s: %s" % (len(out), prop, json.dumps(out)))
    return out
