"""Guard census (rule family X): under which conditions does an operation perform each of its state-changing steps?

For every public entry point the call graph is walked (closures included, `dyn Adapter` calls are leaves); every *leaf
effect* - a direct write of a field of a crate struct (assignment or a mutating std method on it), a call into the storage
adapter, a `return` of a function on the way, an exit edge of a loop - is recorded together with the set of *guard atoms*
that dominate it: the decoded branch conditions on the way from the entry point to the leaf, accumulated over the call
path and normalised so that they survive renaming, helper extraction / inlining and the usual re-spellings of a condition
(`contains_key` / `get(..).is_some()`, `is_empty()` / `len() == 0`, `?` / `match`, `x.eq(y)` / `==`, negations).

The census of the pinned (repaired) tree, read and confirmed by hand, is frozen in `census_table.json`.  On every run the
census of the current tree is compared with it:

  X1  new guard      an effect is (newly) conditioned on an atom that no confirmed instance of that effect in that
                     operation carries (a shortcut, an "only if something changed" test, a cache / registry probe ...)
  X2  lost guard     a confirmed instance of an effect has no counterpart that still carries all of its guards
  X3  lost effect    an operation no longer performs an effect of a confirmed class on a field at all
  X4  new effect     an operation performs an effect of a class on a field that it never performed

Atoms that cannot be normalised (opaque flags, calls taking closures) never raise X1 and suppress X2 for the instance
that carries them (fail open: no alarm on a form that is not understood)."""
import json
import os
import re

from .cfg import cfg_of
from .conds import lits_of
from .defuse import du_of, callee_name, TRANSPARENT
from .callgraph import cg_of
from .common import MUTATORS, ADAPTER_TRAIT

TABLE = os.path.join(os.path.dirname(os.path.abspath(__file__)), "census_table.json")

ADD_OPS = {"insert", "push", "push_back", "push_front", "put", "extend", "extend_from_slice", "append", "entry",
           "or_insert_with", "or_insert", "push_str", "get_or_insert_with", "insert_str"}
DEL_OPS = {"remove", "clear", "retain", "pop", "pop_front", "pop_back", "truncate", "drain", "swap_remove", "dedup",
           "take", "remove_entry", "split_off", "pop_first", "pop_last", "retain_mut", "pop_lru"}
MEMBER_FNS = {"contains_key", "contains", "get", "get_mut", "get_key_value", "peek"}
COLLECTION_HINT = ("HashMap", "BTreeMap", "HashSet", "BTreeSet", "Map", "LruCache", "Vec", "VecDeque")
SHAPE_TESTS = {"is_object", "is_array", "is_string", "is_number", "is_boolean", "is_null", "is_u64", "is_i64", "is_f64",
               "as_object", "as_array", "as_str", "as_u64", "as_i64", "as_f64", "as_bool"}


def _short(path):
    """`std::collections::HashMap::<K, V, S>::contains_key` -> `HashMap::contains_key`"""
    p = path
    # strip generic argument lists
    out, depth = [], 0
    for ch in p:
        if ch == "<":
            depth += 1
        elif ch == ">":
            depth -= 1
        elif depth == 0:
            out.append(ch)
    p = "".join(out)
    p = re.sub(r"\{[^}]*\}", "", p)
    segs = [s for s in p.split("::") if s and s not in ("as",)]
    segs = [s.strip() for s in segs]
    return "::".join(segs[-2:]) if len(segs) >= 2 else (segs[0] if segs else "?")


def _tyname(ty):
    t = ty or "?"
    t = re.sub(r"^(&(mut )?|\*(mut|const) )+", "", t)
    for w in ("std::sync::MutexGuard<", "std::sync::RwLockReadGuard<", "std::sync::RwLockWriteGuard<", "std::boxed::Box<",
              "std::sync::Arc<", "std::sync::Mutex<", "std::sync::RwLock<"):
        while t.startswith(w) or re.match(r"^(&(mut )?)?" + re.escape(w), t):
            t = re.sub(r"^(&(mut )?)?", "", t)
            t = t[len(w):]
            t = re.sub(r"^'[a-z_]+, ", "", t)
            if t.endswith(">"):
                t = t[:-1]
            t = re.sub(r"^(&(mut )?|\*(mut|const) )+", "", t)
    # head type without generic args, last path segment
    head = re.split(r"[<\[(]", t, 1)[0].strip()
    return head.split("::")[-1] or "?"


def strip(t):
    n = 0
    while n < 80:
        n += 1
        k = t[0]
        if k == "var":
            t = t[3]
        elif k in ("ref", "deref", "cast"):
            t = t[1]
        elif k == "phi" and len(t[1]) == 1:
            t = t[1][0]
        else:
            break
    return t


def desc(t, body, d=3):
    """stable description of what a value is: struct field path / parameter type / producing call"""
    t = strip(t)
    k = t[0]
    if k == "param":
        return _tyname(body.mir.locals[t[1]]["ty"]) if t[1] < len(body.mir.locals) else "param"
    if k == "upvar":
        return "cap:" + str(t[2])
    if k == "field":
        owner = t[3] if len(t) > 3 and t[3] else None
        if owner:
            return owner.split("::")[-1] + "." + str(t[2])
        return desc(t[1], body, d) + "." + str(t[2])
    if k == "call":
        n = callee_name(t)
        if n in TRANSPARENT and t[2]:
            return desc(t[2][0], body, d)
        if n in ("lock", "read", "write", "try_lock", "try_read", "try_write") and t[2]:
            return desc(t[2][0], body, d)
        if d <= 0:
            return _short(t[1])
        if t[2]:
            return "%s(%s)" % (_short(t[1]), desc(t[2][0], body, d - 1))
        return _short(t[1]) + "()"
    if k == "const":
        if t[1] == "fn":
            return "fn:" + _short(str(t[2]))
        return "const:%s" % (t[2],)
    if k == "binop":
        return "%s(%s,%s)" % (t[1], desc(t[2], body, d - 1), desc(t[3], body, d - 1))
    if k == "unop":
        return "%s(%s)" % (t[1], desc(t[2], body, d - 1))
    if k == "phi":
        return "|".join(sorted({desc(x, body, d - 1) for x in t[1]}))
    if k in ("index", "downcast", "discr"):
        return desc(t[1], body, d)
    if k == "agg":
        return "%s::%s" % (str(t[1]).split("::")[-1], t[2])
    if k == "closure":
        return "closure"
    if k == "tuple":
        return "tuple"
    return "?"


def _has_closure_arg(t):
    for a in t[2][1:] if t[0] == "call" else []:
        s = strip(a)
        if s[0] == "closure" or (s[0] == "const" and s[1] == "fn"):
            return True
    return False


def _is_next(t):
    s = strip(t)
    return s[0] == "call" and callee_name(s) in ("next", "next_back", "into_iter", "iter", "enumerate", "par_iter")


def _is_const_int(t, v=None):
    s = strip(t)
    if s[0] == "const" and s[1] in ("int", "uint", "usize", "u32", "u64", "i32"):
        return v is None or s[2] == v
    if s[0] == "const" and isinstance(s[2], int) and not isinstance(s[2], bool):
        return v is None or s[2] == v
    return False


def atom_of(lit, body):
    """normalised atom (tuple of strings / bools) or None (structural literal to ignore) or ('opaque', ..)"""
    blk = body.blocks[lit.block] if lit.block is not None and lit.block < len(body.blocks) else None
    if blk is not None and blk.term.kind == "assert":
        return None   # overflow / bounds checks inserted by the compiler
    if lit.kind == "variant":
        subj = strip(lit.term)
        vs = lit.variants or set()
        if _is_next(subj):
            return None
        if subj[0] == "call" and callee_name(subj) in ("branch",) and subj[2]:
            subj = strip(subj[2][0])
        pos = None
        if vs and vs <= {"Ok", "Some", "Continue"}:
            pos = True
        elif vs and vs <= {"Err", "None", "Break"}:
            pos = False
        if pos is None:
            return ("variant", desc(subj, body), "|".join(sorted(vs)), True)
        return _presence(subj, pos, body)
    if lit.kind == "call":
        t = lit.term
        n = callee_name(t)
        truth = lit.truth
        if truth is None:
            return ("opaque", desc(t, body))
        if n in ("is_some", "is_ok") and t[2]:
            return _presence(strip(t[2][0]), truth, body)
        if n in ("is_none", "is_err") and t[2]:
            return _presence(strip(t[2][0]), not truth, body)
        if n in ("contains_key", "contains") and t[2]:
            return ("member", desc(t[2][0], body), truth)
        if n == "is_empty" and t[2]:
            return ("empty", desc(t[2][0], body), truth)
        if n in ("eq", "ne") and len(t[2]) >= 2:
            pair = sorted([desc(t[2][0], body), desc(t[2][1], body)])
            return ("eq", pair[0], pair[1], truth if n == "eq" else (not truth))
        if n in ("gt", "lt", "ge", "le") and len(t[2]) >= 2:
            a, b = desc(t[2][0], body), desc(t[2][1], body)
            return _rel({"gt": "Gt", "lt": "Lt", "ge": "Ge", "le": "Le"}[n], a, b, truth)
        if _has_closure_arg(t):
            return ("opaque", _short(t[1]))
        extra = []
        for a in t[2][1:]:
            s = strip(a)
            if s[0] == "const" and s[1] != "fn":
                extra.append(str(s[2]))
        return ("call", _short(t[1]), desc(t[2][0], body) if t[2] else "", ",".join(extra), truth)
    if lit.kind == "cmp":
        t = lit.term
        truth = lit.truth
        if truth is None:
            return ("opaque", "cmp")
        op = t[1]
        a, b = strip(t[2]), strip(t[3])
        # len(x) compared with 0  ->  emptiness
        for (x, y, flip) in ((a, b, False), (b, a, True)):
            if x[0] == "call" and callee_name(x) == "len" and x[2] and _is_const_int(y, 0):
                o = op
                if flip:
                    o = {"Lt": "Gt", "Gt": "Lt", "Le": "Ge", "Ge": "Le"}.get(op, op)
                subj = desc(x[2][0], body)
                if o == "Eq" or o == "Le":
                    return ("empty", subj, truth)
                if o == "Ne" or o == "Gt":
                    return ("empty", subj, not truth)
        if op in ("Eq", "Ne"):
            pair = sorted([desc(a, body), desc(b, body)])
            return ("eq", pair[0], pair[1], truth if op == "Eq" else (not truth))
        if op in ("Lt", "Le", "Gt", "Ge"):
            return _rel(op, desc(a, body), desc(b, body), truth)
        return ("opaque", "cmp:" + str(op))
    if lit.kind == "flag":
        return ("opaque", "flag")
    return ("opaque", desc(lit.term, body) if lit.term else "?")


def _rel(op, a, b, truth):
    # canonical form: ("lt", x, y, truth)  meaning (x < y) == truth
    if op == "Lt":
        return ("lt", a, b, truth)
    if op == "Gt":
        return ("lt", b, a, truth)
    if op == "Ge":          # a >= b  ==  !(a < b)
        return ("lt", a, b, not truth)
    return ("lt", b, a, not truth)   # Le: a <= b == !(b < a)


def _presence(subj, pos, body):
    """`subj` (an Option / Result valued term) is Some/Ok (pos) or None/Err"""
    if subj[0] == "call":
        n = callee_name(subj)
        if n in MEMBER_FNS and subj[2]:
            return ("member", desc(subj[2][0], body), pos)
        if n in ("strip_suffix", "strip_prefix") and subj[2]:
            return ("call", "str::" + ("ends_with" if n == "strip_suffix" else "starts_with"), desc(subj[2][0], body), "", pos)
        if _has_closure_arg(subj) and n not in ("ok_or_else", "map_err", "unwrap_or_else"):
            return ("opaque", _short(subj[1]))
    return ("ok", desc(subj, body), pos)


def atom_str(a):
    return "|".join("T" if x is True else ("F" if x is False else str(x)) for x in a)


# --------------------------------------------------------------------------------------------- traversal

def _field_of_receiver(r, facts):
    x = r
    n = 0
    while n < 80:
        n += 1
        k = x[0]
        if k == "field":
            if len(x) > 3 and x[3] in facts.structs:
                return x[3].split("::")[-1] + "." + str(x[2])
            x = x[1]
        elif k in ("ref", "deref", "cast", "promoted", "downcast", "index"):
            x = x[1]
        elif k == "var":
            x = x[3]
        elif k == "call" and x[2]:
            x = x[2][0]
        elif k == "phi" and x[1]:
            x = x[1][0]
        else:
            break
    return None


def _opclass(name):
    if name in ADD_OPS:
        return "add"
    if name in DEL_OPS:
        return "del"
    return "mut"


def leaves_of(body, facts):
    """[(block, leafkey)] leaf effects located directly in `body`"""
    c = body._cache.get("census_leaves")
    if c is not None:
        return c
    out = []
    du = du_of(body)
    cfg = cfg_of(body)
    from .conds import status_variant
    for blk in body.blocks:
        if blk.cleanup or blk.idx not in cfg.reach:
            continue
        for st in blk.stmts:
            if st.kind in ("assign", "setdiscr") and st.place is not None and st.place.proj:
                for p in st.place.proj:
                    if p["k"] == "field" and p.get("of") in facts.structs:
                        key = p["of"].split("::")[-1] + "." + p["n"]
                        what = "mut"
                        if st.kind == "assign":
                            v = status_variant(du.rvalue_term(st.rv, 8))
                            if v:
                                what = "set:" + str(v[1])
                        out.append((blk.idx, "w:%s:%s" % (key, what)))
                        break
        t = blk.term
        if t.kind == "call" and t.callee is not None:
            c_ = t.callee
            if c_.trait == ADAPTER_TRAIT and c_.resolved is None and facts.body(c_.target()) is None:
                out.append((blk.idx, "adapter:" + c_.name))
            elif c_.name in MUTATORS and facts.body(c_.target()) is None and t.args:
                a0 = t.args[0]
                ty = body.local_ty(a0.place.local) if a0.place is not None and not a0.place.proj else ""
                if ty and not ty.startswith("&mut ") and not ty.startswith("*mut "):
                    continue
                f = _field_of_receiver(du.operand_term(a0, 20), facts)
                if f:
                    out.append((blk.idx, "w:%s:%s" % (f, _opclass(c_.name))))
    body._cache["census_leaves"] = out
    return out


def returns_of(body):
    """[(block, 'ret:Ok'|'ret:Err'|'ret:<variant>'|'ret')] sites that define the return value"""
    out = []
    cfg = cfg_of(body)
    for b in body.blocks:
        if b.cleanup or b.idx not in cfg.reach:
            continue
        for st in b.stmts:
            if st.kind == "assign" and st.place.local == 0 and not st.place.proj:
                if st.rv.kind == "agg" and st.rv.j.get("variant"):
                    out.append((b.idx, "ret:" + str(st.rv.j.get("variant"))))
                elif st.rv.kind == "use" and st.rv.operands() and st.rv.operands()[0].is_const() and "bool" in st.rv.operands()[0].j:
                    out.append((b.idx, "ret:" + str(bool(st.rv.operands()[0].j["bool"])).lower()))
        t = b.term
        if t.kind == "call" and t.dest is not None and t.dest.local == 0 and not t.dest.proj and t.callee is not None:
            if t.callee.name == "from_residual":
                out.append((b.idx, "ret:Err"))
    return out


def loop_exits(body):
    """[(block outside the loop reached directly from inside)] for every natural loop"""
    c = body._cache.get("census_loopexits")
    if c is not None:
        return c
    cfg = cfg_of(body)
    out = []
    for h in sorted(cfg.loop_headers()):
        # loop body: nodes that reach h without leaving through ... (nodes dominated by h that reach h)
        members = {h}
        for x in cfg.reach:
            if x != h and cfg.dominates(h, x) and cfg.reaches(x, h):
                members.add(x)
        for u in sorted(members):
            for v in cfg.succ[u]:
                if v not in members:
                    tgt = v
                    if tgt >= cfg.n:
                        tgt_blocks = cfg.succ[tgt]
                        node = tgt
                    else:
                        tgt_blocks = [tgt]
                        node = tgt
                    out.append((h, node))
    body._cache["census_loopexits"] = out
    return out


def atoms_at(body, block, facts):
    c = body._cache.setdefault("census_atoms", {})
    r = c.get(block)
    if r is None:
        r = set()
        for l in lits_of(body, block, facts):
            a = atom_of(l, body)
            if a is not None:
                r.add(a)
        c[block] = r
    return r


def atoms_at_node(body, node, facts):
    """atoms for a cfg node that may be an edge node"""
    cfg = cfg_of(body)
    if node < cfg.n:
        return atoms_at(body, node, facts)
    # edge node: the literals dominating its target plus the edge itself are those of a virtual block; use the decoded
    # dominating edges of the edge node
    from .conds import decode
    r = set()
    for x in cfg.dominators_of(node):
        if x >= cfg.n:
            s, k, v, tgt = cfg.edge_info[x]
            lit = decode(body, s, v, facts)
            a = atom_of(lit, body)
            if a is not None:
                r.add(a)
    return r


class FnCensus:
    """leaf effects of every top-level function of the crate (its closures flattened in) with the guard atoms that dominate
    them inside that function"""

    def __init__(self, facts):
        self.facts = facts
        self.cg = cg_of(facts)
        self.fns = {}     # fn path -> {leafkey: [ (frozenset(atoms), where) ]}
        self.known_preds = None
        for b in facts.repo_bodies():
            if b.kind == "closure":
                continue
            inst = {}
            self._walk(b, b, frozenset(), (b.path,), inst)
            self.fns[b.path] = inst

    @staticmethod
    def _add(inst, key, atoms, where):
        lst = inst.setdefault(key, [])
        for (a, w) in lst:
            if a == atoms:
                return
        lst.append((atoms, where))

    def _walk(self, top, body, ctx, stack, inst):
        facts = self.facts
        for (blk, key) in leaves_of(body, facts):
            self._add(inst, key, ctx | atoms_at(body, blk, facts), body.loc(body.blocks[blk].term.line))
        if body.kind != "closure":
            for (blk, key) in returns_of(body):
                self._add(inst, key, ctx | atoms_at(body, blk, facts), body.loc(body.blocks[blk].term.line))
        for (h, node) in loop_exits(body):
            self._add(inst, "loopexit", ctx | atoms_at_node(body, node, facts), body.loc(body.blocks[h].term.line))
        for s in self.cg.sites[body.path]:
            here = None
            if not s.fanout:
                for t in s.targets:
                    if t.in_repo() and t.kind != "closure":
                        here = here if here is not None else ctx | atoms_at(body, s.block, facts)
                        self._add(inst, "call:" + _short(t.path), here, body.loc(s.term.line))
            for c in s.closures:
                if c.in_repo() and c.kind == "closure" and c.path not in stack:
                    here = here if here is not None else ctx | atoms_at(body, s.block, facts)
                    self._walk(top, c, here, stack + (c.path,), inst)


def census_of(facts):
    c = getattr(facts, "_census", None)
    if c is None:
        c = FnCensus(facts)
        facts._census = c
    return c


# --------------------------------------------------------------------------------------------- comparison

def load_table():
    with open(TABLE) as f:
        return json.load(f)


def is_opaque(a):
    return a[0] == "opaque"


def whitelisted(a):
    """atoms that may be added anywhere without changing behaviour on well-formed input: shape tests of JSON values"""
    if a[0] == "call":
        n = a[1].split("::")[-1]
        if n in SHAPE_TESTS:
            return True
    if a[0] == "ok":
        m = re.match(r"^(\w+::)?(\w+)\(", a[1])
        if m and m.group(2) in SHAPE_TESTS:
            return True
    return False


def known_predicates(table):
    """names of crate functions that occur as guard predicates in the confirmed census"""
    out = set()
    for fn, d in table.get("fns", {}).items():
        for k, insts in d.items():
            for i in insts:
                for a in i:
                    parts = a.split("|")
                    if parts[0] == "call":
                        out.add(parts[1])
    return out


def normalise(atoms, known, facts):
    """atoms of one instance -> (set of atom strings, has_opaque).  A call to a crate function that the confirmed census does
    not know as a predicate is opaque (a condition moved into a new helper is not understood, no alarm)"""
    out = set()
    opaque = False
    for a in atoms:
        if is_opaque(a):
            opaque = True
            continue
        if a[0] == "call" and a[1] not in known and _is_crate_fn(a[1], facts):
            opaque = True
            continue
        out.add(atom_str(a))
    return out, opaque


def _is_crate_fn(short, facts):
    idx = getattr(facts, "_short_fn_index", None)
    if idx is None:
        idx = {_short(b.path) for b in facts.repo_bodies() if b.kind != "closure"}
        facts._short_fn_index = idx
    return short in idx


def compare(census, table, facts, fn_filter=None):
    """yields (rule, fn, leafkey, detail, where); fn-level, fail-open when the set of leaf kinds of a function changed"""
    known = known_predicates(table)
    out = []
    skipped = []
    for fn, frozen in sorted(table.get("fns", {}).items()):
        if fn_filter is not None and not fn_filter(fn):
            continue
        cur = census.fns.get(fn)
        if cur is None:
            skipped.append((fn, "function not found (renamed / removed)"))
            continue
        if set(cur.keys()) != set(frozen.keys()):
            skipped.append((fn, "set of effect kinds changed: +%s -%s" % (sorted(set(cur) - set(frozen)), sorted(set(frozen) - set(cur)))))
            continue
        for k in sorted(frozen):
            fins = [set(i) for i in frozen[k]]
            cins = []
            for (atoms, where) in cur[k]:
                a, op = normalise(atoms, known, facts)
                wl = {atom_str(x) for x in atoms if whitelisted(x)}
                cins.append((a, op, wl, where))
            for (a, op, wl, where) in cins:
                best = None
                for f in fins:
                    extra = a - f - wl
                    if best is None or len(extra) < len(best):
                        best = extra
                    if not extra:
                        break
                for x in sorted(best or ()):
                    out.append(("X1", fn, k, "new-guard:" + x, where))
            for f in fins:
                ok = False
                best = None
                for (a, op, wl, where) in cins:
                    missing = f - a
                    if not missing or op:
                        ok = True
                        break
                    if best is None or len(missing) < len(best[0]):
                        best = (missing, where)
                if not ok and best is not None:
                    for x in sorted(best[0]):
                        out.append(("X2", fn, k, "lost-guard:" + x, best[1]))
    seen = set()
    res = []
    for r in out:
        kk = (r[0], r[1], r[3])
        if kk not in seen:
            seen.add(kk)
            res.append(r)
    return res, skipped


def dump_table(census):
    fns = {}
    for fn, inst in sorted(census.fns.items()):
        d = {}
        for k, lst in sorted(inst.items()):
            rows = sorted({tuple(sorted(atom_str(a) for a in atoms if not is_opaque(a))) for (atoms, _) in lst})
            d[k] = [list(r) for r in rows]
        if d:
            fns[fn] = d
    return {"fns": fns}
