"""Lock analysis: held-guard dataflow per body, receiver-sensitive lock identity, transitive
acquisition summaries, and the conflict relation used by C08."""
from .cfg import cfg_of
from .defuse import du_of, callee_name, TRANSPARENT
from .callgraph import cg_of

LOCK_FNS = {
    "std::sync::Mutex::<T>::lock": ("Mutex", "lock"),
    "std::sync::Mutex::<T>::try_lock": ("Mutex", "lock"),
    "std::sync::RwLock::<T>::read": ("RwLock", "read"),
    "std::sync::RwLock::<T>::write": ("RwLock", "write"),
    "std::sync::RwLock::<T>::try_read": ("RwLock", "read"),
    "std::sync::RwLock::<T>::try_write": ("RwLock", "write"),
}

# friendly names for the lock classes of this repository (class identity is the type T itself)
CLASS_ALIASES = [
    ("std::collections::BTreeMap<std::string::String, std::sync::Mutex<revisiontree::RevisionTree>>", "DOCS"),
    ("revisiontree::RevisionTree", "TREE"),
    ("datastorage::DataStorage", "DATA"),
    ("std::collections::BTreeMap<melda::DeltaId, std::sync::RwLock<melda::Delta>>", "DELTAS"),
    ("melda::Delta", "DELTA"),
    ("lru::LruCache<revision::Revision, melda::ArrayDescriptor>", "ADCACHE"),
    ("lru::LruCache<std::string::String, serde_json::Map<std::string::String, serde_json::Value>>", "DCACHE"),
    ("std::boxed::Box<dyn adapter::Adapter>", "ADAPTER"),
    ("std::boxed::Box<(dyn adapter::Adapter + 'static)>", "ADAPTER"),
    ("std::cell::RefCell<std::collections::BTreeMap<std::string::String, std::vec::Vec<u8>>>", "MEMSTORE"),
    ("std::cell::RefCell<rusqlite::Connection>", "SQLCONN"),
    ("std::cell::RefCell<lru::LruCache<std::string::String, std::vec::Vec<u8>>>", "SOLIDCACHE"),
    ("std::collections::HashMap<std::string::String, serde_json::Map<std::string::String, serde_json::Value>>", "READMAP"),
]


def class_name(t):
    for k, v in CLASS_ALIASES:
        if t == k:
            return v
    return t


GUARD_PASS = {"unwrap", "expect", "unwrap_or_else", "map_err", "ok", "unwrap_unchecked", "branch",
              "from_residual", "into_inner", "map", "and_then", "unwrap_or"}


def is_guard_ty(ty):
    return ("MutexGuard<" in ty) or ("RwLockReadGuard<" in ty) or ("RwLockWriteGuard<" in ty)


class Acq:
    """a direct lock acquisition site"""
    __slots__ = ("body", "block", "cls", "kind", "mode", "base", "inside", "line", "recv")

    def __init__(self, body, block, cls, kind, mode, base, inside, line, recv):
        self.body = body
        self.block = block
        self.cls = cls
        self.kind = kind
        self.mode = mode
        self.base = base
        self.inside = inside
        self.line = line
        self.recv = recv

    def loc(self):
        return self.body.loc(self.line)

    def __repr__(self):
        return "%s.%s(%s)@%s" % (self.cls, self.mode, self.base, self.loc())


def lock_call(term):
    c = term.callee
    if c is None:
        return None
    k = LOCK_FNS.get(c.path)
    if k is None:
        return None
    return k


def root_of(t, depth=0):
    """(base name or '?', frozenset of acquisition blocks the value is reached through)"""
    if depth > 60:
        return ("?", frozenset())
    k = t[0]
    if k == "param":
        n = t[2]
        return (n if not n.startswith("_") and n != "<env>" else "?", frozenset())
    if k == "upvar":
        return (t[2], frozenset())
    if k in ("ref", "deref", "promoted", "cast", "discr", "field", "downcast", "index"):
        return root_of(t[1], depth + 1)
    if k == "var":
        return root_of(t[3], depth + 1)
    if k == "call":
        c = t[4]
        if c is not None and c.path in LOCK_FNS and t[2]:
            b, ins = root_of(t[2][0], depth + 1)
            return (b, ins | {t[3]})
        if t[2]:
            return root_of(t[2][0], depth + 1)
        return ("?", frozenset())
    if k == "phi":
        rs = [root_of(x, depth + 1) for x in t[1] if x[0] != "cut"]
        if not rs:
            return ("?", frozenset())
        bases = {r[0] for r in rs}
        ins = rs[0][1]
        for r in rs[1:]:
            ins = ins & r[1]
        return (bases.pop() if len(bases) == 1 else "?", ins)
    if k in ("agg", "tuple", "array", "closure"):
        ops = t[3] if k == "agg" else (t[2] if k == "closure" else t[1])
        if len(ops) == 1:
            return root_of(ops[0], depth + 1)
        return ("?", frozenset())
    return ("?", frozenset())


class BodyLocks:
    """held-guard dataflow for one body"""

    def __init__(self, body, facts):
        self.body = body
        self.facts = facts
        self.cfg = cfg_of(body)
        self.du = du_of(body)
        self.acqs = {}        # block -> Acq
        self.held_at = {}     # block (call terminators) -> frozenset of tokens (acq blocks) held before the call
        self.in_state = {}
        self._find_acqs()
        self._flags = self._drop_flags()
        self._run()

    def _find_acqs(self):
        b = self.body
        for bi, t in b.calls():
            k = lock_call(t)
            if not k:
                continue
            T = t.callee.args[0] if t.callee.args else "?"
            recv = self.du.operand_term(t.args[0], 24) if t.args else ("cut",)
            base, inside = root_of(recv)
            self.acqs[bi] = Acq(b, bi, class_name(T), k[0], k[1], base, inside, t.line, recv)

    def _drop_flags(self):
        """bool flag local -> guarded local, from `switchInt(flag) -> [0: X, otherwise: D]` where D is
        an empty block ending in drop(local)"""
        flags = {}
        for blk in self.body.blocks:
            t = blk.term
            if blk.cleanup or t.kind != "switch" or t.j.get("discr_ty") != "bool":
                continue
            f = t.discr.local()
            if f is None or self.body.local_name(f):
                continue
            # a drop flag is only ever assigned constants; a condition computed by a call / comparison
            # (`if x.is_deleted() { continue }` drops the guard in its then-branch) is not one
            defs = self.du.full_defs(f)
            if not defs or not all(d.kind == "assign" and d.rv.kind == "use" and d.rv.operands() and d.rv.operands()[0].is_const() for d in defs):
                continue
            for v, tgt in t.switch_edges():
                if v == 0:
                    continue
                tb = self.body.blocks[tgt]
                if tb.term.kind == "drop" and not [s for s in tb.stmts if s.kind == "assign"]:
                    pl = tb.term.place
                    if not pl.proj:
                        flags[(blk.idx, f)] = pl.local
        return flags

    def _transfer(self, blk, state):
        """returns {succ node: out state}; state: frozenset of (local, token)"""
        st = set(state)

        def holders(l):
            return {tok for (x, tok) in st if x == l}

        def kill(l):
            for p in [p for p in st if p[0] == l]:
                st.discard(p)

        for s in blk.stmts:
            if s.kind == "assign":
                dst = s.place.local
                moved = set()
                if s.rv.kind in ("use", "agg", "cast"):
                    for op in s.rv.operands():
                        if op.kind in ("move", "copy") and op.place is not None:
                            h = holders(op.place.local)
                            if h and op.kind == "move":
                                moved |= h
                                kill(op.place.local)
                if not s.place.proj:
                    kill(dst)
                for tok in moved:
                    st.add((dst, tok))
            elif s.kind == "dead":
                kill(s.j["l"])
        t = blk.term
        outs = {}
        if t.kind == "call":
            self.held_at[blk.idx] = frozenset(tok for (_, tok) in st) | self.held_at.get(blk.idx, frozenset())
            moved = set()
            for a in t.args:
                if a.kind == "move" and a.place is not None:
                    h = holders(a.place.local)
                    if h:
                        moved |= h
                        kill(a.place.local)
            dst = t.dest.local if t.dest is not None else None
            if dst is not None and not t.dest.proj:
                kill(dst)
            if blk.idx in self.acqs and dst is not None:
                st.add((dst, blk.idx))
            if moved and dst is not None:
                n = t.callee.name if t.callee else ""
                dty = self.body.local_ty(dst)
                if n in GUARD_PASS or is_guard_ty(dty):
                    for tok in moved:
                        st.add((dst, tok))
            for y in self.cfg.succ[blk.idx]:
                outs[y] = frozenset(st)
        elif t.kind == "drop":
            if not t.place.proj:
                kill(t.place.local)
            for y in self.cfg.succ[blk.idx]:
                outs[y] = frozenset(st)
        elif t.kind == "switch":
            f = t.discr.local()
            guarded = self._flags.get((blk.idx, f)) if f is not None else None
            for k, (v, tgt) in enumerate(t.switch_edges()):
                e = self.cfg.edge_nodes[(blk.idx, k)]
                if guarded is not None and v == 0:
                    outs[e] = frozenset(p for p in st if p[0] != guarded)
                else:
                    outs[e] = frozenset(st)
        else:
            for y in self.cfg.succ[blk.idx]:
                outs[y] = frozenset(st)
        return outs

    def _run(self):
        cfg = self.cfg
        instate = {0: frozenset()}
        work = [0]
        n = cfg.n
        iters = 0
        while work:
            x = work.pop()
            iters += 1
            if iters > 200000:
                raise RuntimeError("guards: dataflow did not converge in " + self.body.path)
            s = instate[x]
            if x >= n:
                outs = {y: s for y in cfg.succ[x]}
            else:
                outs = self._transfer(self.body.blocks[x], s)
            for y, o in outs.items():
                old = instate.get(y)
                new = o if old is None else (old | o)
                if new != old:
                    instate[y] = new
                    work.append(y)
        self.in_state = instate

    def held_tokens(self, block):
        return self.held_at.get(block, frozenset())

    def held_anywhere_in(self, block):
        s = self.in_state.get(block, frozenset())
        return frozenset(tok for (_, tok) in s)


def locks_of(body, facts):
    l = body._cache.get("locks")
    if l is None:
        l = BodyLocks(body, facts)
        body._cache["locks"] = l
    return l


# --------------------------------------------------------------------- summaries
class LockWorld:
    """whole-crate lock facts: per-body dataflow plus transitive acquisition summaries"""

    def __init__(self, facts):
        self.facts = facts
        self.cg = cg_of(facts)
        self.bl = {}
        for b in facts.bodies:
            if not b.in_repo():
                continue
            self.bl[b.path] = locks_of(b, facts)
        self.summary = {p: set() for p in self.bl}   # path -> {(cls, kind, mode, base)}
        self._witness = {}                             # (path, item) -> (site loc, via path)
        self._compute()

    def arg_root(self, body, site, k):
        """root of the k-th argument (0-based) at call site"""
        du = du_of(body)
        if k >= len(site.term.args):
            return ("?", frozenset())
        return root_of(du.operand_term(site.term.args[k], 24))

    def var_root(self, body, name):
        """root of the local variable called `name` in body (for closure upvars)"""
        if name == "self":
            for i in range(1, body.argc + 1):
                if body.local_name(i) == "self":
                    return ("self", frozenset())
        for i, l in enumerate(body.locals):
            if l.get("name") == name:
                if 1 <= i <= body.argc:
                    return (name, frozenset())
                return root_of(du_of(body).local_term(i, 24))
        if body.kind == "closure":
            return (name, frozenset())   # its own upvar of the same name
        return ("?", frozenset())

    def param_names(self, body):
        return [body.local_name(i) for i in range(1, body.argc + 1)]

    def map_item(self, caller, site, target, item):
        """map a callee summary item into the caller's frame at `site`;
        returns (cls, kind, mode, base, inside)"""
        cls, kind, mode, base = item
        if base == "?":
            return (cls, kind, mode, "?", frozenset())
        if target.kind == "closure":
            b, ins = self.var_root(caller, base)
            return (cls, kind, mode, b, ins)
        names = self.param_names(target)
        if base in names:
            k = names.index(base)
            b, ins = self.arg_root(caller, site, k)
            return (cls, kind, mode, b, ins)
        return (cls, kind, mode, "?", frozenset())

    def site_items(self, body, site):
        """all acquisitions that may happen during call `site` (mapped to body's frame):
        [(cls, kind, mode, base, inside, origin)]"""
        out = []
        bl = self.bl[body.path]
        a = bl.acqs.get(site.block)
        if a is not None:
            out.append((a.cls, a.kind, a.mode, a.base, a.inside, a))
        for tgt in site.targets + site.closures:
            if tgt.path not in self.summary:
                continue
            for item in self.summary[tgt.path]:
                m = self.map_item(body, site, tgt, item)
                out.append(m + ((tgt, item),))
        return out

    def _compute(self):
        changed = True
        rounds = 0
        while changed:
            changed = False
            rounds += 1
            if rounds > 100:
                raise RuntimeError("lock summaries did not converge")
            for p, bl in self.bl.items():
                body = bl.body
                cur = self.summary[p]
                new = set()
                for a in bl.acqs.values():
                    new.add((a.cls, a.kind, a.mode, a.base))
                for site in self.cg.sites[p]:
                    if site.block in bl.acqs:
                        continue
                    for tgt in site.targets + site.closures:
                        if tgt.path not in self.summary:
                            continue
                        for item in self.summary[tgt.path]:
                            m = self.map_item(body, site, tgt, item)
                            it = m[:4]
                            if it not in cur and it not in new:
                                self._witness[(p, it)] = (site, tgt, item)
                            new.add(it)
                if not new <= cur:
                    cur |= new
                    changed = True

    def witness_path(self, path, item, limit=12):
        """call chain from body `path` to a direct acquisition realising summary item"""
        chain = []
        p, it = path, item
        for _ in range(limit):
            w = self._witness.get((p, it))
            if w is None:
                # direct acquisition in p
                bl = self.bl.get(p)
                if bl:
                    for a in bl.acqs.values():
                        if (a.cls, a.kind, a.mode) == it[:3]:
                            chain.append("%s locks %s.%s at %s" % (p, a.cls, a.mode, a.loc()))
                            return chain
                return chain
            site, tgt, titem = w
            chain.append("%s calls %s at %s" % (p, tgt.path, site.loc()))
            p, it = tgt.path, titem
        return chain


def conflict(held_kind, held_mode, acq_mode):
    """classification of acquiring (acq_mode) while holding a possibly-same lock"""
    if held_kind == "Mutex":
        return "relock-mutex"
    if acq_mode == "write":
        return "write-under-" + held_mode
    if held_mode == "write":
        return "read-under-write"
    return "read-under-read"


def world_of(facts):
    w = getattr(facts, "_lockworld", None)
    if w is None:
        w = LockWorld(facts)
        facts._lockworld = w
    return w
