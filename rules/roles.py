"""Internal helpers of the crate are addressed by *role* (what they do), not by name, so that renaming or
re-homing a private helper does not lose an anchor. Public API items, struct fields and the `utils` functions
remain name anchors (see DESIGN.md section 0)."""
from .common import ADAPTER_TRAIT

MELDA = "melda::Melda"
DS = "datastorage::DataStorage"


class Roles:
    def __init__(self, facts):
        self.facts = facts
        self.map = {}
        self._compute()

    def _methods(self, adt):
        return [b for b in self.facts.repo_bodies() if b.kind != "closure" and b.impl_adt == adt and b.impl_trait is None]

    def _with_closures(self, b):
        return [b] + self.facts.closures_of(b.path)

    def _calls(self, b, pred):
        for x in self._with_closures(b):
            for bi, t in x.calls():
                if t.callee is not None and pred(t.callee, t, x):
                    return True
        return False

    def _compute(self):
        f = self.facts
        m = {}
        melda = self._methods(MELDA)
        ds = self._methods(DS)

        def first(cands):
            cands = sorted(cands, key=lambda b: b.path)
            return cands[0] if cands else None

        # DataStorage pass-throughs: the Adapter call's destination is the return place
        def passthrough(b, meth):
            from .defuse import du_of
            for bi, t in b.calls():
                c = t.callee
                if c is None or c.trait != ADAPTER_TRAIT or c.name != meth:
                    continue
                if t.dest is not None and t.dest.local == 0 and not t.dest.proj:
                    return True
                # ... or the call forwards the function's own parameters (`adapter.write_object(key, data)?; Ok(())`, a memo or a
                # log line around it): every argument after the receiver is a view of a parameter. The pack writer / the pack and
                # object readers build their key themselves and do not match.
                du = du_of(b)
                fw = len(t.args) >= 2
                for a in t.args[1:]:
                    x = du.operand_term(a, 10)
                    hops = 0
                    while hops < 20 and x[0] in ("ref", "deref", "cast", "var"):
                        hops += 1
                        x = x[3] if x[0] == "var" else x[1]
                    if not (x[0] == "param" and 2 <= x[1] <= b.argc):
                        fw = False
                if fw:
                    return True
            return False

        def calls_adapter(b, meth):
            return self._calls(b, lambda c, t, x: c.trait == ADAPTER_TRAIT and c.name == meth)
        m["raw_read"] = first([b for b in ds if passthrough(b, "read_object")])
        m["raw_write"] = first([b for b in ds if passthrough(b, "write_object")])
        m["lister"] = first([b for b in ds if passthrough(b, "list_objects")])
        readers = [b for b in ds if calls_adapter(b, "read_object") and not passthrough(b, "read_object")]
        m["pack_loader"] = first([b for b in readers if "Vec<u8>" in b.local_ty(0)])
        m["obj_reader"] = first([b for b in readers if "serde_json::Value" in b.local_ty(0)])
        m["pack_writer"] = first([b for b in ds if calls_adapter(b, "write_object") and not passthrough(b, "write_object")])
        if m["pack_writer"] is None and m.get("raw_write") is not None:
            # the pack writer may hand its bytes to the storage's own raw writer: then it is the storage function that calls that raw
            # writer and fills the object index
            rw_ = m["raw_write"].path
            def fills_index(b):
                for _, t in b.calls():
                    if t.callee is not None and t.callee.name in ("insert", "extend") and t.args:
                        from .common import field_path, arg_term
                        if "committed_objects" in field_path(arg_term(b, t, 0, 14))[0]:
                            return True
                return False
            m["pack_writer"] = first([b for b in ds if self._calls(b, lambda c, t, x: c.target() == rw_) and fills_index(b)])
        m["pack_applier"] = first([b for b in ds if self._calls(b, lambda c, t, x: c.target() == "utils::digest_bytes") and
                                   not self._calls(b, lambda c, t, x: c.trait == ADAPTER_TRAIT)])
        # applier: the private function that applies a whole block (takes a `&Delta`) and reaches the tree insertion, itself or
        # through a private per-record helper; fallback: the function that calls the insertion directly
        def reaches_insert(b):
            from .common import members_of
            return any(t.callee is not None and t.callee.target() == "revisiontree::RevisionTree::unvalidated_add"
                       for mb in members_of(f, b, 2) for _, t in mb.calls())
        whole = [b for b in melda if not b.public and any("melda::Delta" in b.local_ty(i) and b.local_ty(i).startswith("&") for i in range(1, b.argc + 1)) and reaches_insert(b)]
        m["applier"] = first(whole) or first([b for b in melda if self._calls(b, lambda c, t, x: c.target() == "revisiontree::RevisionTree::unvalidated_add")])
        # marker: writes Status::Ready into a status field
        def writes_ready(b):
            from .conds import status_variant
            from .defuse import du_of
            for x in self._with_closures(b):
                du = du_of(x)
                for blk in x.blocks:
                    for st in blk.stmts:
                        if st.kind == "assign" and st.place.proj and st.place.proj[-1]["k"] == "field" and st.place.proj[-1]["n"] == "status":
                            v = status_variant(du.rvalue_term(st.rv, 8))
                            if v and v[1] == "Ready":
                                return True
            return False
        m["marker"] = first([b for b in melda if writes_ready(b)])
        if m["marker"] is not None:
            mk = m["marker"].path
            m["mark_pass"] = first([b for b in melda if b.path != mk and not b.public and self._calls(b, lambda c, t, x: c.target() == mk)])
        else:
            m["mark_pass"] = None
        m["loader"] = first([b for b in melda if b.local_ty(0).startswith("std::result::Result<melda::Delta,")])
        if m["raw_read"] is not None:
            rr = m["raw_read"].path
            def verifies(b):
                """hashes what it read: itself or in a private helper it hands the bytes to (`decode_raw_delta(&bytes, digest)`)"""
                if self._calls(b, lambda c, t, x: c.target() == "utils::digest_bytes"):
                    return True
                from .common import members_of
                return any(t.callee is not None and t.callee.target() == "utils::digest_bytes" for mb in members_of(f, b, 1) for _, t in mb.calls())
            m["fetcher"] = first([b for b in melda if not b.public and self._calls(b, lambda c, t, x: c.target() == rr) and verifies(b)])
        else:
            m["fetcher"] = None
        m["merger"] = first([b for b in melda if self._calls(b, lambda c, t, x: c.target() == "utils::merge_arrays")])
        m["diff_maker"] = first([b for b in melda if self._calls(b, lambda c, t, x: c.target() == "utils::make_diff_patch")])
        locks_cache = [b for b in melda if self._calls(
            b, lambda c, t, x: c.path == "std::sync::Mutex::<T>::lock" and c.args and "melda::ArrayDescriptor" in c.args[0])]
        walks = [b for b in locks_cache if self._calls(b, lambda c, t, x: c.target() == "revisiontree::RevisionTree::get_parent")]
        m["rebuilder"] = first(walks or locks_cache)
        m["desc_reader"] = first([b for b in melda if not b.public and b.local_ty(0).startswith("std::result::Result<melda::ArrayDescriptor") and
                                  self._calls(b, lambda c, t, x: c.target() == DS + "::read_object")])
        # recon: the private Melda method that `read` calls (in its parallel closure) to produce an object's visible value
        rd = f.body(MELDA + "::read")
        cands = []
        if rd is not None:
            for x in self._with_closures(rd):
                for bi, t in x.calls():
                    tb = f.body(t.callee.target()) if t.callee is not None else None
                    if tb is not None and tb.impl_adt == MELDA and not tb.public and tb.local_ty(0).startswith("std::result::Result<serde_json::Map<"):
                        cands.append(tb)
        m["recon"] = first(cands)
        self.map = m

    def body(self, role):
        return self.map.get(role)

    def name(self, role):
        b = self.map.get(role)
        return b.name if b is not None else "<missing role %s>" % role

    def path(self, role):
        b = self.map.get(role)
        return b.path if b is not None else "<missing role %s>" % role

    def missing(self):
        return sorted(k for k, v in self.map.items() if v is None)


def roles_of(facts):
    r = getattr(facts, "_roles", None)
    if r is None:
        r = Roles(facts)
        facts._roles = r
    return r
