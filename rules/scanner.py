"""Finite abstract interpretation of a byte scanner loop (`for (offset, c) in data.iter().enumerate()`):
the loop body's MIR is evaluated over abstract values (small integers, booleans, byte *classes*, offsets
relative to the current position) for every (abstract state, byte class) pair, which yields the
transition system of the scanner; that system is compared, by a bounded product exploration, with the
reference machine for 'boundaries of top-level JSON objects'. Nothing of the program is executed."""
from .cfg import cfg_of
from .defuse import du_of, walk, peel, callee_name
from .common import arg_term, field_path

CLASSES = ["{", "}", '"', "\\", "o"]          # 'o' = any other byte
BYTE = {0x7B: "{", 0x7D: "}", 0x22: '"', 0x5C: "\\"}


class Unsupported(Exception):
    pass


TOP = ("top",)


def _b(v):
    return ("bool", bool(v))


class Scanner:
    def __init__(self, body, facts):
        self.body = body
        self.facts = facts
        self.cfg = cfg_of(body)
        self.du = du_of(body)
        self._locate()

    # ------------------------------------------------------------------ structure
    def _locate(self):
        b = self.body
        hdr = None
        for bi, t in b.calls():
            if t.callee is not None and t.callee.name == "next" and self.cfg.is_loop_header(bi):
                it = self.du.operand_term(t.args[0], 20)
                names = [callee_name(x) for x in walk(it) if x[0] == "call"]
                if "enumerate" in names and "iter" in names and any(x[0] == "param" for x in walk(it)):
                    hdr = bi
        if hdr is None:
            raise Unsupported("no `for (offset, byte) in data.iter().enumerate()` loop found")
        self.header = hdr
        nxt = b.blocks[hdr].term
        self.next_dest = nxt.dest.local
        sw = b.blocks[nxt.j["target"]]
        self.some_block = None
        self.exit_block = None
        for v, tgt in sw.term.switch_edges():
            if v == 1:
                self.some_block = tgt
            elif v == 0:
                self.exit_block = tgt
        if self.some_block is None:
            raise Unsupported("loop shape")
        # loop-carried variables: named locals assigned inside the loop and defined before it
        loop = self.cfg.reachable_blocks(self.cfg.edge_nodes[(sw.idx, [k for k, (v, _) in enumerate(sw.term.switch_edges()) if v == 1][0])],
                                         avoid={hdr}) | {self.some_block}
        self.loop = loop
        self.state_vars = []
        for l, info in enumerate(b.locals):
            if not info.get("name"):
                continue
            ds = self.du.defs.get(l, [])
            if any(d.block in loop for d in ds) and any(d.block not in loop for d in ds):
                self.state_vars.append(l)
        # initial values
        self.init = {}
        for l in self.state_vars:
            for d in self.du.defs.get(l, []):
                if d.block not in loop and d.kind == "assign" and d.rv.kind == "agg" and d.rv.j.get("agg") == "adt" and not d.rv.operands():
                    # a field-less enum used as scanner state (`let mut state = Scan::Structure;`)
                    dv = self._variant_discr(d.rv.j.get("adt"), d.rv.j.get("variant"))
                    if dv is not None:
                        self.init[l] = ("enum", dv)
                if d.block not in loop and d.kind == "assign" and d.rv.kind == "use":
                    o = d.rv.operands()[0]
                    if o.is_const():
                        if "bool" in o.j:
                            self.init[l] = _b(o.j["bool"])
                        elif o.const_int() is not None and o.j.get("ty") == "u8":
                            # a byte-valued state variable (e.g. `previous`): abstract byte class
                            self.init[l] = ("byte", BYTE.get(o.const_int(), ("lit", o.const_int())))
                        elif o.const_int() is not None:
                            self.init[l] = ("int", o.const_int())
            if l not in self.init:
                raise Unsupported("state variable %s has no constant initial value" % b.local_name(l))
        self.data_param = 3

    def _variant_discr(self, adt, variant):
        a = self.facts.adts.get(adt)
        if not a:
            return None
        for v in a["variants"]:
            if v["name"] == variant:
                return v["discr"]
        return None

    # ------------------------------------------------------------------ evaluation
    def _place_value(self, env, pl, cur, prev):
        v = env.get(pl.local, TOP)
        for p in pl.proj:
            k = p["k"]
            if k == "deref":
                if v[0] == "curref":
                    v = ("byte", cur)
                elif v[0] == "dataref":
                    v = ("data",)
                elif v[0] == "ref":
                    v = v[1]
                # any other value: a view of the same abstract value
            elif k == "field":
                if v[0] == "tuple" and p["i"] < len(v[1]):
                    v = v[1][p["i"]]
                elif v[0] == "nextsome":
                    v = ("pair",) if p["i"] == 0 else TOP
                elif v[0] == "pair":
                    v = ("off", 0) if p["i"] == 0 else ("curref",)
                else:
                    v = TOP
            elif k == "downcast":
                if v[0] == "next":
                    v = ("nextsome",)
                else:
                    v = TOP
            elif k == "index":
                iv = env.get(p["l"], TOP)
                if v[0] == "data" and iv[0] == "off":
                    if iv[1] == 0:
                        v = ("byte", cur)
                    elif iv[1] == -1:
                        if prev is None:
                            raise Unsupported("reads data[offset-1] at the first byte")
                        v = ("byte", prev)
                        self.uses_prev = True
                    else:
                        raise Unsupported("reads data[offset%+d]" % iv[1])
                else:
                    v = TOP
            else:
                v = TOP
        return v

    def _operand(self, env, op, cur, prev):
        if op.kind in ("copy", "move"):
            return self._place_value(env, op.place, cur, prev)
        j = op.j
        if "bool" in j:
            return _b(j["bool"])
        if "int" in j:
            if j.get("ty") == "u8":
                return ("byte", BYTE.get(j["int"], ("lit", j["int"])))
            return ("int", j["int"])
        return TOP

    def _binop(self, op, a, b):
        base = op.replace("WithOverflow", "").replace("Unchecked", "")
        wo = "WithOverflow" in op

        def wrap(v):
            return ("tuple", [v, _b(False)]) if wo else v
        if a[0] == "byte" and b[0] == "byte" and base in ("Eq", "Ne"):
            x, y = a[1], b[1]
            if isinstance(x, tuple) and isinstance(y, tuple):
                r = x == y
            elif isinstance(x, tuple) or isinstance(y, tuple):
                lit, cls = (x, y) if isinstance(x, tuple) else (y, x)
                if cls != "o":
                    r = False
                else:
                    raise Unsupported("compares a byte with the constant %r, which the abstraction cannot separate from other ordinary bytes" % chr(lit[1]))
            else:
                r = x == y
            return _b(r if base == "Eq" else not r)
        if a[0] == "int" and b[0] == "int":
            x, y = a[1], b[1]
            if base == "Add":
                return wrap(("int", x + y))
            if base == "Sub":
                return wrap(("int", x - y))
            if base in ("Eq", "Ne", "Lt", "Le", "Gt", "Ge"):
                return _b({"Eq": x == y, "Ne": x != y, "Lt": x < y, "Le": x <= y, "Gt": x > y, "Ge": x >= y}[base])
        if a[0] == "off" and b[0] == "int" and base in ("Add", "Sub"):
            return wrap(("off", a[1] + (b[1] if base == "Add" else -b[1])))
        if a[0] == "off" and b[0] == "off":
            if base == "Sub":
                return wrap(("int", a[1] - b[1]))
            if base in ("Eq", "Ne", "Lt", "Le", "Gt", "Ge"):
                x, y = a[1], b[1]
                return _b({"Eq": x == y, "Ne": x != y, "Lt": x < y, "Le": x <= y, "Gt": x > y, "Ge": x >= y}[base])
        if a[0] == "bool" and b[0] == "bool":
            if base == "BitAnd":
                return _b(a[1] and b[1])
            if base == "BitOr":
                return _b(a[1] or b[1])
            if base in ("Eq", "Ne"):
                return _b((a[1] == b[1]) == (base == "Eq"))
        return wrap(TOP) if wo else TOP

    def step(self, state, cur, prev):
        """one loop iteration; state: {local: value}; returns (new state, [emissions])"""
        env = dict(state)
        env[self.next_dest] = ("next",)
        env[self.data_param] = ("dataref",)
        emits = []
        self._exec(self.body, env, self.some_block, cur, prev, emits, top=True, depth=0)
        new = {}
        for l in self.state_vars:
            v = env.get(l, TOP)
            if v[0] == "off":
                v = ("off", v[1] - 1)      # relative to the next position
            new[l] = v
        return new, emits

    def _exec(self, b, env, bi, cur, prev, emits, top, depth):
        """abstractly executes body `b` from block bi: the loop body of the scanner up to the loop header (top) or a helper
        function of the crate up to its return (emissions inside helpers count)"""
        du = du_of(b)
        guard = 0
        while True:
            guard += 1
            if guard > 500:
                raise Unsupported("iteration does not end")
            if top and bi == self.header:
                return None
            if top and bi not in self.loop:
                raise Unsupported("loop body leaves the loop (early return) at bb%d" % bi)
            blk = b.blocks[bi]
            for st in blk.stmts:
                if st.kind == "setdiscr" and st.place is not None and not st.place.proj:
                    env[st.place.local] = ("enum", st.j.get("i"))
                    continue
                if st.kind != "assign":
                    continue
                rv = st.rv
                if rv.kind == "discr":
                    pv = self._place_value(env, rv.place(), cur, prev)
                    v = ("int", pv[1]) if pv[0] == "enum" else TOP
                elif rv.kind == "use":
                    v = self._operand(env, rv.operands()[0], cur, prev)
                elif rv.kind in ("ref", "rawptr"):
                    pv = self._place_value(env, rv.place(), cur, prev)
                    pl = rv.place()
                    if (top and pl.local == self.data_param and not pl.proj) or pv[0] == "data":
                        v = ("dataref",)
                    elif pv[0] == "dataref" and not pl.proj:
                        v = ("ref", pv)
                    elif pv[0] == "byte":
                        v = ("curref",) if pv[1] == cur else TOP
                    elif pv[0] in ("slice", "digest"):
                        v = pv
                    else:
                        v = ("ref", pv)
                elif rv.kind == "binop":
                    x, y = rv.operands()
                    v = self._binop(rv.j["op"], self._operand(env, x, cur, prev), self._operand(env, y, cur, prev))
                elif rv.kind == "unop":
                    a = self._operand(env, rv.operands()[0], cur, prev)
                    if rv.j["op"] == "Not" and a[0] == "bool":
                        v = _b(not a[1])
                    else:
                        v = TOP
                elif rv.kind == "agg":
                    ops = [self._operand(env, o, cur, prev) for o in rv.operands()]
                    if rv.j.get("agg") == "tuple":
                        v = ("tuple", ops)
                    elif rv.j.get("adt", "").endswith("ops::Range"):
                        v = ("range", ops)
                    elif rv.j.get("agg") == "adt" and not ops and self._variant_discr(rv.j.get("adt"), rv.j.get("variant")) is not None:
                        v = ("enum", self._variant_discr(rv.j.get("adt"), rv.j.get("variant")))
                    else:
                        v = TOP
                elif rv.kind == "cast":
                    v = self._operand(env, rv.operands()[0], cur, prev)
                else:
                    v = TOP
                if st.place.proj:
                    continue
                env[st.place.local] = v
            t = blk.term
            if t.kind == "goto":
                bi = t.j["target"]
            elif t.kind in ("drop", "assert"):
                bi = t.j["target"]
            elif t.kind == "return":
                if top:
                    raise Unsupported("loop body returns at bb%d" % bi)
                return env.get(0, TOP)
            elif t.kind == "switch":
                v = self._operand(env, t.discr, cur, prev)
                vals = [sv for sv, _ in t.switch_edges() if sv is not None]
                if v[0] == "bool":
                    val = 1 if v[1] else 0
                elif v[0] == "int":
                    val = v[1]
                elif v[0] == "byte":
                    # `match byte { b'"' => .., b'{' => .., _ => .. }`
                    if isinstance(v[1], tuple):
                        val = v[1][1]
                    elif v[1] == "o":
                        odd = [x for x in vals if x not in BYTE]
                        if odd:
                            raise Unsupported("matches a byte against the constant %r, which the abstraction cannot separate from other ordinary bytes" % chr(odd[0]))
                        val = -1
                    else:
                        val = [k for k, c_ in BYTE.items() if c_ == v[1]][0]
                else:
                    # drop flags and similar: a switch whose arms merge again immediately does not matter; otherwise fail closed
                    raise Unsupported("branch on a value the abstraction cannot decide at %s" % b.loc(t.line))
                nxt = None
                for sv, tgt in t.switch_edges():
                    if sv is None:
                        if nxt is None:
                            nxt = tgt
                    elif sv == val:
                        nxt = tgt
                        break
                bi = nxt
            elif t.kind == "call":
                c = t.callee
                args = [self._operand(env, a, cur, prev) for a in t.args]
                res_v = TOP
                hb = self.facts.body(c.target()) if c is not None else None
                if c is not None and c.name == "index" and len(args) == 2 and args[1][0] == "range":
                    res_v = ("slice", args[1][1])
                elif c is not None and c.name == "new" and "RangeInclusive" in c.path and len(args) == 2:
                    # `start..=end` is the half-open range start..end+1
                    res_v = ("range", [args[0], self._binop("Add", args[1], ("int", 1))])
                elif c is not None and c.name == "len" and args and args[0][0] in ("slice", "ref") and \
                        (args[0] if args[0][0] == "slice" else args[0][1])[0] == "slice":
                    sl_ = args[0] if args[0][0] == "slice" else args[0][1]
                    res_v = self._binop("Sub", sl_[1][1], sl_[1][0])
                elif c is not None and c.name == "digest_bytes" and args and args[0][0] in ("slice", "ref"):
                    a0 = args[0] if args[0][0] == "slice" else args[0][1]
                    res_v = ("digest", a0[1] if a0[0] == "slice" else None)
                elif c is not None and c.name == "insert" and t.args:
                    fp, _ = field_path(du.operand_term(t.args[0], 10))
                    if "committed_objects" in fp:
                        emits.append((args[1] if len(args) > 1 else TOP, args[2] if len(args) > 2 else TOP))
                elif hb is not None and hb.in_repo() and hb.kind != "closure" and hb.impl_trait is None and depth < 2 and \
                        any(a[0] in ("off", "dataref") or (a[0] == "ref" and a[1][0] == "dataref") for a in args):
                    # a helper of the crate that receives positions / the pack bytes (e.g. `index_object(name, data, start, end)`)
                    henv = {}
                    for i, a in enumerate(args):
                        henv[i + 1] = ("dataref",) if (a[0] == "ref" and a[1][0] == "dataref") else a
                    res_v = self._exec(hb, henv, 0, cur, prev, emits, top=False, depth=depth + 1)
                if t.dest is not None and not t.dest.proj:
                    env[t.dest.local] = res_v
                if t.j["target"] is None:
                    raise Unsupported("diverging call in the loop body")
                bi = t.j["target"]
            else:
                raise Unsupported("terminator %s in the loop body" % t.kind)

    # ------------------------------------------------------------------ reference machine + product exploration
    def compare(self, maxlen=8, maxdepth=2):
        """returns (explored product states, transitions, counterexample or None)"""
        self.uses_prev = False
        init_impl = tuple(sorted(self.init.items()))
        init_ref = (0, False, False, None)       # depth, in_string, escaped, relative offset of the open top-level brace
        seen = set()
        frontier = [(init_impl, init_ref, None, "")]
        ntrans = 0
        while frontier:
            nxt_frontier = []
            for (si, sr, prev, path) in frontier:
                if len(path) >= maxlen:
                    continue
                for cls in CLASSES:
                    d, ins, esc, top = sr
                    # ---- reference step, with pruning of inputs that are not JSON
                    emit_ref = None
                    if ins:
                        if esc:
                            esc2, ins2, d2, top2 = False, True, d, top
                        elif cls == "\\":
                            esc2, ins2, d2, top2 = True, True, d, top
                        elif cls == '"':
                            esc2, ins2, d2, top2 = False, False, d, top
                        else:
                            esc2, ins2, d2, top2 = False, True, d, top
                    else:
                        esc2, ins2, d2, top2 = False, False, d, top
                        if cls == "\\":
                            continue                      # a backslash outside a string is not JSON
                        if cls == '"':
                            ins2 = True
                        elif cls == "{":
                            if d == 0:
                                top2 = 0
                            d2 = d + 1
                            if d2 > maxdepth:
                                continue
                        elif cls == "}":
                            if d == 0:
                                continue                  # unbalanced
                            d2 = d - 1
                            if d2 == 0:
                                emit_ref = top2
                                top2 = None
                    top3 = None if top2 is None else top2 - 1
                    sr2 = (d2, ins2, esc2, top3)
                    # ---- implementation step
                    try:
                        si2, emits = self.step(dict(si), cls, prev)
                    except Unsupported:
                        raise
                    ntrans += 1
                    p2 = path + cls
                    if emit_ref is None and emits:
                        return len(seen), ntrans, "on the byte classes %r the scanner records an object although no top-level object ends there" % p2
                    if emit_ref is not None:
                        if len(emits) != 1:
                            return len(seen), ntrans, "on the byte classes %r a top-level object ends but the scanner records %d objects" % (p2, len(emits))
                        key, val = emits[0]
                        rng = key[1] if key[0] == "digest" else None
                        if not rng or rng[0] != ("off", emit_ref) or rng[1] != ("off", 1):
                            return len(seen), ntrans, "on the byte classes %r the digest is computed over the wrong range %r (expected from the opening brace at offset%+d to one past the closing brace)" % (p2, rng, emit_ref)
                        if val[0] == "tuple" and len(val[1]) == 3:
                            if val[1][1] != ("off", emit_ref) or val[1][2] != ("int", 1 - emit_ref):
                                return len(seen), ntrans, "on the byte classes %r the recorded (offset, length) %r differ from the hashed range" % (p2, val[1][1:])
                    key2 = (tuple(sorted(si2.items())), sr2, cls if self.uses_prev else None)
                    if key2 in seen:
                        continue
                    seen.add(key2)
                    nxt_frontier.append((tuple(sorted(si2.items())), sr2, cls, p2))
            frontier = nxt_frontier
        return len(seen), ntrans, None
