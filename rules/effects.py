"""Write-effect summaries: which (struct, field) pairs a function may mutate, directly or through
its callees (closures included)."""
from .defuse import du_of, walk, callee_name
from .callgraph import cg_of
from .common import MUTATORS, arg_term

EXTRA_MUT = {"put", "pop_lru", "get_or_insert", "push", "lock", }


def direct_effects(body, facts):
    """{(owner adt, field): [line]} written directly by body"""
    out = {}
    du = du_of(body)
    for blk in body.blocks:
        if blk.cleanup:
            continue
        for st in blk.stmts:
            if st.kind in ("assign", "setdiscr") and st.place is not None and st.place.proj:
                for p in st.place.proj:
                    if p["k"] == "field" and p.get("of") in facts.structs:
                        out.setdefault((p["of"], p["n"]), []).append(st.line)
                        break
        t = blk.term
        if t.kind == "drop" and t.place.proj:
            continue
        if t.kind == "call" and t.callee is not None and t.args:
            c = t.callee
            if c.name in MUTATORS and facts.body(c.target()) is None:
                # receiver must be mutable: &mut place or a DerefMut of something
                a0 = t.args[0]
                ty = body.local_ty(a0.place.local) if a0.place is not None and not a0.place.proj else ""
                if ty and not ty.startswith("&mut ") and not ty.startswith("*mut "):
                    continue
                r = du.operand_term(a0, 20)
                x = r
                n = 0
                while n < 60:
                    n += 1
                    k = x[0]
                    if k == "field":
                        if len(x) > 3 and x[3] in facts.structs:
                            out.setdefault((x[3], x[2]), []).append(t.line)
                            break
                        x = x[1]
                    elif k in ("ref", "deref", "cast", "promoted", "downcast", "index"):
                        x = x[1]
                    elif k == "var":
                        x = x[3]
                    elif k == "call" and x[2]:
                        x = x[2][0]
                    elif k == "phi" and x[1]:
                        x = x[1][0]
                    else:
                        break
    return out


class Effects:
    def __init__(self, facts):
        self.facts = facts
        self.cg = cg_of(facts)
        self.direct = {b.path: direct_effects(b, facts) for b in facts.bodies if b.in_repo()}
        self.total = {p: set(d.keys()) for p, d in self.direct.items()}
        changed = True
        while changed:
            changed = False
            for p in self.total:
                cur = self.total[p]
                for s in self.cg.sites[p]:
                    for t in s.targets + s.closures:
                        e = self.total.get(t.path)
                        if e and not e <= cur:
                            cur |= e
                            changed = True

    def of(self, path):
        return self.total.get(path, set())

    def site_effects(self, site):
        out = set()
        for t in site.targets + site.closures:
            out |= self.total.get(t.path, set())
        # direct external mutator at this site
        b = site.body
        d = self.direct.get(b.path, {})
        for (k, lines) in d.items():
            if site.term.line in lines and site.callee is not None and site.callee.name in MUTATORS and not site.targets:
                out.add(k)
        return out


def effects_of(facts):
    e = getattr(facts, "_effects", None)
    if e is None:
        e = Effects(facts)
        facts._effects = e
    return e


REPLICA_STATE = {
    ("melda::Melda", "documents"), ("melda::Melda", "deltas"),
    ("revisiontree::RevisionTree", "revisions"), ("revisiontree::RevisionTree", "staging"),
    ("revisiontree::RevisionTree", "leafs_cache"), ("revisiontree::RevisionTree", "winner_cache"),
    ("revisiontree::RevisionTree", "state"), ("revisiontree::RevisionTreeEntry", "staging"),
    ("revisiontree::RevisionTreeEntry", "parent"),
    ("melda::Delta", "status"), ("melda::Delta", "changes"), ("melda::Delta", "id"), ("melda::Delta", "parents"),
    ("melda::Delta", "info"), ("melda::Delta", "packs"),
    ("datastorage::DataStorage", "stage"), ("datastorage::DataStorage", "committed_objects"),
    ("datastorage::DataStorage", "applied_pack_ids"),
}
