"""Small helpers shared by the property rule modules."""
from .cfg import cfg_of
from .defuse import du_of, walk, peel, callee_name, contains, fmt, TRANSPARENT
from .conds import lits_of
from .callgraph import cg_of

ADAPTER_TRAIT = "adapter::Adapter"


def arg_term(body, term, i, depth=24):
    if i >= len(term.args):
        return ("cut",)
    return du_of(body).operand_term(term.args[i], depth)


def dest_term_block(term_tuple):
    return term_tuple[3] if term_tuple[0] == "call" else None


def derives_from_block(t, block):
    """term contains the result of the call terminating `block` (same body)"""
    for x in walk(t):
        if x[0] == "call" and x[3] == block:
            return True
    return False


def call_named(x, *names):
    """x is a ('call', ...) term whose item name or target path ends with one of names"""
    if x[0] != "call":
        return False
    n = callee_name(x)
    if n in names:
        return True
    return any(x[1] == nm or x[1].endswith("::" + nm) for nm in names)


def contains_call(t, *names):
    return any(call_named(x, *names) for x in walk(t))


def find_calls(body, pred):
    """[(block idx, Term)] of call terminators whose Callee satisfies pred"""
    return [(bi, t) for bi, t in body.calls() if t.callee is not None and pred(t.callee)]


def calls_to(body, *suffixes):
    def p(c):
        tp = c.target()
        return any(tp == s or tp.endswith("::" + s) or c.path == s or c.path.endswith("::" + s) for s in suffixes)
    return find_calls(body, p)


def field_path(t):
    """struct field names on the way from the value's root to the value, following views
    (ref/deref/transparent calls): e.g. (*self).data -> ['data']"""
    out = []
    seen = 0
    while seen < 80:
        seen += 1
        k = t[0]
        if k == "field":
            out.append(t[2])
            t = t[1]
        elif k in ("ref", "deref", "cast", "promoted", "downcast", "index"):
            t = t[1]
        elif k == "var":
            t = t[3]
        elif k == "call" and t[2]:
            t = t[2][0]
        elif k == "phi" and t[1]:
            t = t[1][0]
        else:
            break
    out.reverse()
    return out, t


def receiver_fields(body, term, depth=24):
    """field path of the receiver (arg 0) of a call"""
    if not term.args:
        return [], ("cut",)
    return field_path(arg_term(body, term, 0, depth))


def return_locals(body):
    """`_0` and the locals that are only handed over to it (`_0 = move _k`: the result slot of a spliced helper)"""
    rets = {0}
    for _ in range(4):
        more = set()
        for b in body.blocks:
            if b.cleanup:
                continue
            for st in b.stmts:
                if st.kind == "assign" and st.place.local in rets and not st.place.proj and st.rv.kind == "use":
                    ops = st.rv.operands()
                    if ops and ops[0].place is not None and not ops[0].place.proj and ops[0].kind == "move" and ops[0].place.local > body.argc:
                        more.add(ops[0].place.local)
        if more <= rets:
            break
        rets |= more
    return rets


def assigns_of_return(body, variant=None):
    """blocks that assign the return place `_0` (optionally: an aggregate of the given variant); a local that is only ever moved into
    `_0` (the result slot of a helper spliced in by the inliner) counts as the return place"""
    out = []
    rets = {0}
    for _ in range(4):
        more = set()
        for b in body.blocks:
            if b.cleanup:
                continue
            for st in b.stmts:
                if st.kind == "assign" and st.place.local in rets and not st.place.proj and st.rv.kind == "use":
                    ops = st.rv.operands()
                    if ops and ops[0].place is not None and not ops[0].place.proj and ops[0].kind == "move" and ops[0].place.local > body.argc:
                        more.add(ops[0].place.local)
        if more <= rets:
            break
        rets |= more
    for b in body.blocks:
        if b.cleanup:
            continue
        for st in b.stmts:
            if st.kind == "assign" and st.place.local in rets and not st.place.proj:
                if st.place.local == 0 and st.rv.kind == "use" and st.rv.operands() and st.rv.operands()[0].place is not None and \
                        st.rv.operands()[0].place.local in rets and st.rv.operands()[0].place.local != 0:
                    continue        # the hand-over itself
                if variant is None:
                    out.append((b.idx, st))
                elif st.rv.kind == "agg" and st.rv.j.get("variant") == variant:
                    out.append((b.idx, st))
    return out


def ok_blocks(body):
    return [b for b, _ in assigns_of_return(body, "Ok")]


def err_blocks(body):
    return [b for b, _ in assigns_of_return(body, "Err")]


def const_strs(t):
    return [x[2] for x in walk(t) if x[0] == "const" and x[1] == "str"]


def const_defs(t):
    return [x[3] for x in walk(t) if x[0] == "const" and len(x) > 3 and x[3]]


def is_adapter_impl(body):
    b = body
    if b.kind == "closure" and b.parent:
        p = body.facts.body(b.parent)
        if p is not None:
            b = p
    return b.impl_trait == ADAPTER_TRAIT


def in_adapter_module(body):
    return body.file.endswith("adapter.rs")


def lit_summary(lits):
    return [repr(l) for l in lits]


def closure_sites(facts, closure_body):
    """call sites (in other bodies) during which the closure may be invoked"""
    cg = cg_of(facts)
    return [s for s in cg.callers_of(closure_body.path) if closure_body in s.closures]


def body_and_closures(facts, body):
    return [body] + facts.closures_of(body.path)


def dominated_by(body, block, pred, facts):
    """first dominating literal satisfying pred, else None"""
    for l in lits_of(body, block, facts):
        if pred(l):
            return l
    return None


def mut_method(name):
    return name in MUTATORS


MUTATORS = {
    "insert", "remove", "clear", "retain", "push", "push_back", "push_front", "pop", "pop_front", "pop_back",
    "put", "extend", "extend_from_slice", "append", "truncate", "drain", "swap_remove", "dedup", "entry",
    "get_mut", "values_mut", "iter_mut", "par_iter_mut", "or_insert_with", "or_insert", "splice", "sort",
    "sort_by", "reverse", "take", "replace", "swap", "set", "push_str", "resize", "insert_str", "get_or_insert_with",
    "remove_entry", "split_off", "pop_first", "pop_last", "first_entry", "last_entry", "retain_mut",
}


PARTIAL_ADAPTERS = {"take", "skip", "filter", "step_by", "take_while", "skip_while", "rev", "nth", "skip_last", "filter_map"}


def whole_iteration(body, t):
    """term t is an element of a genuine loop over a complete iterator: it derives from a `next()` call
    whose block lies on a cycle, and the iterator chain has no truncating / filtering adapter"""
    cfg = cfg_of(body)
    for x in walk(t):
        if x[0] == "call" and callee_name(x) == "next" and cfg.is_loop_header(x[3]):
            names = {callee_name(c) for c in walk(x) if c[0] == "call"}
            if not (names & PARTIAL_ADAPTERS):
                return True
    return False


def root_fn(body):
    """the function a closure body belongs to (or the body itself)"""
    if body.kind == "closure" and body.parent:
        return body.facts.body(body.parent) or body
    return body


def is_param(x, body, idx):
    """term node x denotes parameter number idx (1-based, self = 1) of the function `body` belongs to;
    inside closures the parameter is seen as a captured variable of the same name"""
    if x[0] == "param" and body.kind != "closure":
        return x[1] == idx
    if x[0] == "upvar" and body.kind == "closure":
        r = root_fn(body)
        return idx <= r.argc and r.local_name(idx) == x[2]
    return False


def mentions_param(t, body, idx):
    return any(is_param(x, body, idx) for x in walk(t))


def local_uses(body, local):
    """[(block, line, what)] reads of `local` (as operand, referenced place or switch discriminant), cleanup blocks skipped"""
    out = []
    for blk in body.blocks:
        if blk.cleanup:
            continue
        for st in blk.stmts:
            if st.kind != "assign":
                continue
            for o in st.rv.operands():
                if o.place is not None and o.place.local == local:
                    out.append((blk.idx, st.line, "operand"))
            pl = st.rv.place()
            if pl is not None and pl.local == local:
                out.append((blk.idx, st.line, st.rv.kind))
        t = blk.term
        if t.kind == "call":
            for a in t.args:
                if a.place is not None and a.place.local == local:
                    out.append((blk.idx, t.line, "argument"))
        elif t.kind == "switch":
            if t.discr.local() == local:
                out.append((blk.idx, t.line, "switch"))
    return out


def iter_chain(t):
    """the calls of an iterator adaptor chain, outermost first, following receivers only (closure captures and other
    arguments are not entered)"""
    out = []
    hops = 0
    while hops < 60 and isinstance(t, tuple) and t:
        hops += 1
        k = t[0]
        if k in ("ref", "deref", "cast"):
            t = t[1]
        elif k == "var":
            t = t[3]
        elif k == "call":
            out.append(t)
            if not t[2]:
                break
            t = t[2][0]
        else:
            break
    return out


class ISite:
    """a call site seen from an outer function: possibly inside a private helper the outer function calls; argument terms and
    literals are expressed in the outer function's frame (helper parameters replaced by the caller's arguments)"""
    __slots__ = ("body", "block", "term", "args", "lits", "outer_body", "outer_block", "via")

    def loc(self):
        return self.outer_body.loc(self.outer_body.blocks[self.outer_block].term.line)


def inlined_sites(facts, body, pred, depth=2, _seen=(), closures=True):
    """call sites satisfying pred(Term) in `body`, in its closures, and (to the given depth) in the crate's own non-public helper
    functions it calls directly; see ISite.  Lets a rule that reads `f` also read `f` after an extract-function refactoring or a
    loop <-> closure rewrite.  Sites inside closures keep the closure's own frame (its literals include what the adaptor chain
    guarantees for the element)."""
    from .defuse import subst
    from .conds import Lit
    out = []
    du = du_of(body)
    if closures and body.kind != "closure":
        cg_ = cg_of(facts)
        for cb in facts.closures_of(body.path):
            inv = [cs for cs in cg_.callers_of(cb.path) if cb in cs.closures and cs.body is body]
            for s0 in inlined_sites(facts, cb, pred, depth, _seen, closures=False):
                if inv:
                    # anchor of the site in the enclosing function: the call the closure is handed to
                    s0.outer_body, s0.outer_block = body, inv[0].block
                    s0.lits = list(lits_of(body, inv[0].block, facts)) + s0.lits
                out.append(s0)
    for bi, t in body.calls():
        if t.callee is None:
            continue
        if pred(t):
            s = ISite()
            s.body, s.block, s.term = body, bi, t
            s.args = [du.operand_term(a, 30) for a in t.args]
            s.lits = list(lits_of(body, bi, facts))
            s.outer_body, s.outer_block, s.via = body, bi, ()
            out.append(s)
            continue
        if depth <= 0:
            continue
        hb = facts.body(t.callee.target())
        if hb is None or not hb.in_repo() or hb.kind == "closure" or hb.public or hb.impl_trait is not None or hb.path in _seen or hb.path == body.path:
            continue
        inner = inlined_sites(facts, hb, pred, depth - 1, _seen + (body.path,))
        if not inner:
            continue
        mapping = {i + 1: du.operand_term(a, 30) for i, a in enumerate(t.args)}
        here = list(lits_of(body, bi, facts))
        for s0 in inner:
            s = ISite()
            s.body, s.block, s.term = s0.body, s0.block, s0.term
            s.args = [subst(a, mapping) for a in s0.args]
            ls = []
            for l in s0.lits:
                n = Lit(l.kind, subst(l.term, mapping), l.truth, l.variants, bi, l.raw, l.value, l.adt)
                n.edge = None
                n.implied = True
                ls.append(n)
            s.lits = here + ls
            s.outer_body, s.outer_block, s.via = body, bi, (hb.path,) + s0.via
            out.append(s)
    return out


def members_of(facts, body, depth=2):
    """the bodies that make up an operation: the function, its closures, and (to the given depth) the crate's own non-public
    helper functions of the same source file it calls, with their closures - what an extract-function refactoring produces"""
    out = [body]
    seen = {body.path}
    frontier = [body]
    for _ in range(depth + 1):
        nxt = []
        for b in frontier:
            for cb in facts.closures_of(b.path):
                if cb.path not in seen:
                    seen.add(cb.path)
                    out.append(cb)
                    nxt.append(cb)
            if _ == depth:
                continue
            for bi, t in b.calls():
                hb = facts.body(t.callee.target()) if t.callee is not None else None
                if hb is None or hb.path in seen or not hb.in_repo() or hb.kind == "closure" or hb.public or hb.impl_trait is not None or hb.file != body.file:
                    continue
                seen.add(hb.path)
                out.append(hb)
                nxt.append(hb)
        frontier = nxt
    return out


def closure_call_mapping(facts, cb):
    """closure `cb` is a local closure called by name in its parent (`let rec = |a, b| ..; .. rec(x, y)`): the mapping
    {closure parameter index: argument term in the parent's frame} of (the first of) its direct invocations, else None"""
    from .defuse import du_of as _du
    for cs in cg_of(facts).callers_of(cb.path):
        if cs.callee is None or cs.callee.name not in ("call", "call_mut", "call_once") or len(cs.term.args) < 2:
            continue
        tup = _du(cs.body).operand_term(cs.term.args[1], 30)
        while tup[0] == "var":
            tup = tup[3]
        if tup[0] == "tuple":
            return {2 + i: e for i, e in enumerate(tup[1])}
    return None


def pass_anchors(facts, body, pred, depth=2):
    """for every call site satisfying pred that `body` reaches (itself, closures, private helpers): the block of `body` a path must
    cross to get there - the outermost enclosing loop header if the site sits in a loop of `body`, else the site's own block.
    Returns {anchor block: ISite}."""
    from .cfg import cfg_of
    cfg = cfg_of(body)
    hdrs = sorted(cfg.loop_headers())
    out = {}
    for s in inlined_sites(facts, body, pred, depth=depth):
        a = s.outer_block
        outer = [h for h in hdrs if cfg.dominates(h, a) and cfg.reaches(a, h)]
        if outer:
            top = [h for h in outer if all(cfg.dominates(h, h2) for h2 in outer)]
            a = top[0] if top else outer[0]
        out.setdefault(a, s)
    return out


def bypassing_returns(body, anchors, variant="Ok"):
    """(anchor, return block) pairs: a return of the given variant reachable from the entry without crossing the anchor"""
    from .cfg import cfg_of
    cfg = cfg_of(body)
    oks = [eb for eb, st in assigns_of_return(body, variant)]
    # ... and returns that hand on the result of a call (`return helper(..)`), which may be a success as well
    for bi, t in body.calls():
        if t.dest is not None and t.dest.local == 0 and not t.dest.proj and t.callee is not None and t.callee.name not in ("from_residual", "from_error"):
            oks.append(bi)
    return [(a, o) for a in sorted(anchors) for o in oks if o != a and a != 0 and cfg.reaches(0, o, avoid=(a,))], oks
