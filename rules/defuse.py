"""Intra-procedural value provenance over MIR.

A *term* is a nested tuple describing how a value is computed:
  ('param', i, name) ('upvar', i, name) ('const', kind, value) ('call', target, [terms], bb, Callee)
  ('ref', t) ('deref', t) ('field', t, name) ('downcast', t, variant) ('index', t)
  ('agg', adt, variant, [terms]) ('tuple', [terms]) ('closure', path, [terms]) ('array', [terms])
  ('binop', op, a, b) ('unop', op, a) ('cast', t, ty) ('discr', t, adt)
  ('var', local, name, t)   -- a user-named local; t is the term of its definition(s)
  ('phi', [terms])          -- several reaching definitions (flow-insensitive union)
  ('cut',)                  -- depth / cycle cut-off
"""

TRANSPARENT = {
    # callee item names whose result is (a view of / a copy of / the payload of) their first argument
    "deref", "deref_mut", "borrow", "borrow_mut", "as_ref", "as_mut", "as_str", "as_bytes",
    "as_slice", "as_mut_slice", "clone", "to_owned", "to_string", "to_vec", "into", "from",
    "unwrap", "expect", "into_iter", "iter", "iter_mut", "as_deref", "branch", "cloned", "copied",
    "as_path", "to_str", "as_object", "as_array", "as_str", "into_boxed_slice", "as_object_mut",
    "unwrap_or_default", "get_mut", "ok", "ok_or_else", "ok_or", "map_err", "from_utf8",
    "from_residual", "must_use", "index", "index_mut",
}

PAYLOAD_VARIANTS = {"Ok", "Some", "Continue", "Break", "Err"}


class _FakeCallee:
    name = "index"
    path = "core::ops::Index::index"
    full = "core::ops::Index::index"
    self_ty = None
    trait = "std::ops::Index"
    krate = "core"
    args = []
    fnargs = []
    impl_self = None
    impl_adt = None
    virtual = False
    resolved = None
    j = {}

    def target(self):
        return self.path


_IDX_CALLEE = _FakeCallee()


class Def:
    __slots__ = ("block", "idx", "kind", "place", "rv", "term")

    def __init__(self, block, idx, kind, place, rv=None, term=None):
        self.block = block
        self.idx = idx          # statement index, or -1 for the terminator
        self.kind = kind        # 'assign' | 'call'
        self.place = place
        self.rv = rv
        self.term = term


class DefUse:
    def __init__(self, body, mir=None):
        self.body = body
        self.mir = mir or body.mir
        self.defs = {}
        self.mut_borrows = {}   # local -> [(block, idx)] where &mut of (a projection of) local is taken
        self.upvars = body.upvar_names() if body.kind == "closure" else {}
        for b in self.mir.blocks:
            if b.cleanup:
                continue
            for i, st in enumerate(b.stmts):
                if st.kind == "assign":
                    self.defs.setdefault(st.place.local, []).append(Def(b.idx, i, "assign", st.place, st.rv))
                    if st.rv.kind in ("ref", "rawptr") and st.rv.j.get("mut"):
                        pl = st.rv.place()
                        self.mut_borrows.setdefault(pl.local, []).append((b.idx, i))
                elif st.kind == "setdiscr":
                    self.defs.setdefault(st.place.local, []).append(Def(b.idx, i, "setdiscr", st.place))
            t = b.term
            if t.kind == "call" and t.dest is not None:
                self.defs.setdefault(t.dest.local, []).append(Def(b.idx, -1, "call", t.dest, None, t))

    # ------------------------------------------------------------------ terms
    def full_defs(self, local):
        return [d for d in self.defs.get(local, []) if not d.place.proj and d.kind != "setdiscr"]

    def local_term(self, local, depth=14, seen=None):
        seen = seen or frozenset()
        name = self.mir.locals[local].get("name")
        if 1 <= local <= self.mir.argc:
            if self.body.kind == "closure" and local == 1 and self.mir is self.body.mir:
                return ("param", 1, "<env>")
            return ("param", local, name or "_%d" % local)
        if depth <= 0 or local in seen:
            return ("cut",)
        seen = seen | {local}
        ds = self.full_defs(local)
        if not ds:
            # only partial definitions (struct built field by field) or none
            pds = self.defs.get(local, [])
            if pds:
                inner = ("phi", [self._def_term(d, depth - 1, seen) for d in pds[:8]])
            else:
                inner = ("cut",)
        elif len(ds) == 1:
            d0 = ds[0]
            plain_copy = d0.kind == "assign" and d0.rv.kind == "use" and d0.rv.operands() and d0.rv.operands()[0].place is not None and \
                not d0.rv.operands()[0].place.proj
            # a plain copy / move of another local costs no depth (argument passing and result slots of spliced helpers are such copies)
            inner = self._def_term(d0, depth if plain_copy else depth - 1, seen)
        else:
            inner = ("phi", [self._def_term(d, depth - 1, seen) for d in ds[:8]])
        if name:
            return ("var", local, name, inner)
        return inner

    def _def_term(self, d, depth, seen):
        if d.kind == "call":
            return self.call_term(d.term, d.block, depth, seen)
        if d.kind == "setdiscr":
            return ("cut",)
        return self.rvalue_term(d.rv, depth, seen)

    def call_term(self, t, block, depth=14, seen=None):
        seen = seen or frozenset()
        args = [self.operand_term(a, depth - 1, seen) for a in t.args]
        if t.callee is not None:
            return ("call", t.callee.target(), args, block, t.callee)
        return ("call", "<indirect>", [self.operand_term(t.func_operand(), depth - 1, seen)] + args, block, None)

    def place_term(self, pl, depth=14, seen=None):
        seen = seen or frozenset()
        base = self.local_term(pl.local, depth, seen)
        is_env = self.body.kind == "closure" and pl.local == 1 and self.mir is self.body.mir
        t = base
        proj = list(pl.proj)
        if is_env:
            # (*_1).i or _1.i  -> upvar i
            k = 0
            if proj and proj[0]["k"] == "deref":
                k = 1
            if len(proj) > k and proj[k]["k"] == "field":
                i = proj[k]["i"]
                t = ("upvar", i, self.upvars.get(i, "upvar%d" % i))
                proj = proj[k + 1:]
        for p in proj:
            k = p["k"]
            if k == "deref":
                t = t[1] if t[0] == "ref" else ("deref", t)
            elif k == "field":
                t = _project_field(t, p["n"], p.get("of", ""))
            elif k == "downcast":
                t = ("downcast", t, p["v"])
            elif k == "index":
                t = ("index", t)
            elif k == "constidx" and not p.get("from_end"):
                # an element taken by a slice pattern (`[a, b] = &record[..]`): the same as record[i]
                t = ("call", "core::ops::Index::index", [t, ("const", "int", p.get("off"), "usize")], -1, _IDX_CALLEE)
            else:
                t = ("index", t)
        return t

    def operand_term(self, op, depth=14, seen=None):
        seen = seen or frozenset()
        if op.kind in ("copy", "move"):
            return self.place_term(op.place, depth, seen)
        j = op.j
        if "fn" in j:
            return ("const", "fn", j["fn"]["path"])
        if "closure" in j:
            return ("closure", j["closure"], [])
        if "promoted" in j:
            return self.promoted_term(j["promoted"])
        if "mem" in j:
            m = j["mem"]
            if "str" in m:
                return ("const", "str", m["str"], j.get("def"))
            return ("const", "bytes", bytes(m["bytes"]), j.get("def"))
        if "bool" in j:
            return ("const", "bool", j["bool"])
        if "int" in j:
            return ("const", "int", j["int"], j.get("ty"))
        if "def" in j:
            return ("const", "def", j["def"])
        return ("const", "other", j.get("ty"))

    def promoted_term(self, idx):
        if idx >= len(self.body.promoted):
            return ("cut",)
        pm = self.body.promoted[idx]
        du = DefUse(self.body, pm)
        return ("promoted", du.local_term(0, 10))

    def rvalue_term(self, rv, depth=14, seen=None):
        seen = seen or frozenset()
        j = rv.j
        k = rv.kind
        if k == "use":
            from .facts import Operand
            return self.operand_term(Operand(j["op"]), depth, seen)
        if k in ("ref", "rawptr"):
            return ("ref", self.place_term(rv.place(), depth, seen))
        if k == "cast":
            from .facts import Operand
            return ("cast", self.operand_term(Operand(j["op"]), depth, seen), j["ty"])
        if k == "binop":
            a, b = rv.operands()
            return ("binop", j["op"], self.operand_term(a, depth, seen), self.operand_term(b, depth, seen))
        if k == "unop":
            (a,) = rv.operands()
            return ("unop", j["op"], self.operand_term(a, depth, seen))
        if k == "discr":
            return ("discr", self.place_term(rv.place(), depth, seen), j.get("adt"))
        if k == "agg":
            ops = [self.operand_term(o, depth, seen) for o in rv.operands()]
            a = j["agg"]
            if a == "adt":
                return ("agg", j["adt"], j["variant"], ops, j.get("fields", []))
            if a == "closure":
                return ("closure", j["closure"], ops)
            if a == "tuple":
                return ("tuple", ops)
            return ("array", ops)
        if k == "repeat":
            (a,) = rv.operands()
            return ("array", [self.operand_term(a, depth, seen)])
        return ("cut",)

    # ------------------------------------------------------------------ queries
    def mutation_sites(self, local):
        """(block, idx) of statements that assign to (a projection of) local, or take &mut of it,
        excluding the (single) initialising full assignment"""
        out = list(self.mut_borrows.get(local, []))
        ds = self.defs.get(local, [])
        full = [d for d in ds if not d.place.proj]
        for d in ds:
            if d.place.proj or len(full) > 1:
                out.append((d.block, d.idx))
        return out


def _branch_variant(t):
    """'Continue' / 'Break' if t is Try::branch of a value whose variant is known (Ok / Some -> Continue; Err / None / a residual -> Break)"""
    hops = 0
    while hops < 10 and (t[0] in ("var", "ref", "deref") or (t[0] == "phi" and len(t[1]) == 1)):
        t = t[3] if t[0] == "var" else (t[1][0] if t[0] == "phi" else t[1])
        hops += 1
    if t[0] != "call" or callee_name(t) != "branch" or not t[2]:
        return None
    a = t[2][0]
    hops = 0
    while hops < 10 and (a[0] in ("var", "ref", "deref") or (a[0] == "phi" and len(a[1]) == 1)):
        a = a[3] if a[0] == "var" else (a[1][0] if a[0] == "phi" else a[1])
        hops += 1
    if a[0] == "agg" and a[2] in ("Ok", "Some"):
        return "Continue"
    if (a[0] == "agg" and a[2] in ("Err", "None")) or (a[0] == "call" and callee_name(a) == "from_residual"):
        return "Break"
    return None


def _project_field(t, name, owner=""):
    """field projection with constant folding through tuple / struct aggregates"""
    inner = t
    while inner[0] == "var":
        inner = inner[3]
    if inner[0] == "tuple" and name.isdigit() and int(name) < len(inner[1]):
        return inner[1][int(name)]
    # `(Try::branch(Ok(x)) as Continue).0` is x (the result slot of a helper spliced in by the inliner, tested with `?`)
    if inner[0] == "downcast" and inner[2] in ("Continue", "Break") and name == "0":
        c_ = inner[1]
        hops = 0
        while hops < 12 and (c_[0] in ("var", "ref", "deref") or c_[0] == "phi"):
            if c_[0] == "phi":
                # alternatives that are `branch` of a value of the other kind cannot be the variant read here
                keep = [a for a in c_[1] if _branch_variant(a) in (None, inner[2])]
                if len(keep) != 1:
                    break
                c_ = keep[0]
            else:
                c_ = c_[3] if c_[0] == "var" else c_[1]
            hops += 1
        if c_[0] == "call" and callee_name(c_) == "branch" and c_[2]:
            a_ = c_[2][0]
            hops = 0
            while hops < 8 and a_[0] in ("var", "ref", "deref") or (a_[0] == "phi" and len(a_[1]) == 1):
                a_ = a_[3] if a_[0] == "var" else (a_[1][0] if a_[0] == "phi" else a_[1])
                hops += 1
            if a_[0] == "agg" and a_[2] in ("Ok", "Some") and len(a_[3]) == 1:
                return a_[3][0]
    # a captured variable read back from a closure literal of this very body (a closure spliced in by the inliner): its value
    hops = 0
    env = inner
    while hops < 6 and env[0] in ("ref", "deref", "var"):
        env = env[3] if env[0] == "var" else env[1]
        hops += 1
    if env[0] == "closure" and name.isdigit() and int(name) < len(env[2]):
        return env[2][int(name)]
    if inner[0] == "agg" and len(inner) > 4 and name in inner[4]:
        i = inner[4].index(name)
        if i < len(inner[3]):
            return inner[3][i]
    return ("field", t, name, owner)


def du_of(body):
    d = body._cache.get("du")
    if d is None:
        d = DefUse(body)
        body._cache["du"] = d
    return d


# ---------------------------------------------------------------------- term utilities
def walk(t, captures=True):
    """pre-order traversal over all sub-terms"""
    stack = [t]
    while stack:
        x = stack.pop()
        if not isinstance(x, tuple) or not x:
            continue
        yield x
        k = x[0]
        if k in ("ref", "deref", "promoted"):
            stack.append(x[1])
        elif k in ("field", "downcast", "cast", "discr"):
            stack.append(x[1])
        elif k == "index":
            stack.append(x[1])
        elif k == "call":
            stack.extend(x[2])
        elif k in ("agg",):
            stack.extend(x[3])
        elif k in ("tuple", "array", "phi"):
            stack.extend(x[1])
        elif k == "closure":
            if captures:
                stack.extend(x[2])
        elif k == "binop":
            stack.append(x[2])
            stack.append(x[3])
        elif k == "unop":
            stack.append(x[2])
        elif k == "var":
            stack.append(x[3])


def callee_name(t):
    """item name of a ('call', ...) term"""
    if t[0] != "call":
        return None
    c = t[4]
    if c is not None:
        return c.name
    return t[1].rsplit("::", 1)[-1]


def peel(t, extra=(), stop_var=False):
    """strip views/copies/payload extraction to reach the value's root source"""
    while True:
        k = t[0]
        if k in ("ref", "deref", "promoted"):
            t = t[1]
        elif k == "cast":
            t = t[1]
        elif k == "var" and not stop_var:
            t = t[3]
        elif k == "field" and t[1][0] == "downcast" and t[1][2] in PAYLOAD_VARIANTS:
            t = t[1][1]
        elif k == "phi" and len(t[1]) == 1:
            t = t[1][0]
        elif k == "call" and t[2] and (callee_name(t) in TRANSPARENT or callee_name(t) in extra):
            t = t[2][0]
        else:
            return t


def contains(t, pred):
    for x in walk(t):
        if pred(x):
            return True
    return False


def find_all(t, pred):
    return [x for x in walk(t) if pred(x)]


def calls_in(t, name_or_pred):
    if callable(name_or_pred):
        p = name_or_pred
    else:
        p = lambda c: c[1] == name_or_pred or c[1].endswith("::" + name_or_pred)
    return [x for x in walk(t) if x[0] == "call" and p(x)]


def consts_in(t):
    return [x for x in walk(t) if x[0] == "const"]


def vars_in(t):
    return {x[1] for x in walk(t) if x[0] == "var"}


def roots(t):
    """leaf origins of a term: params, upvars, consts, and calls (not descended)"""
    out = []
    for x in walk(t):
        if x[0] in ("param", "upvar", "const"):
            out.append(x)
    return out


def fmt(t, depth=6):
    if not isinstance(t, tuple) or not t:
        return str(t)
    if depth <= 0:
        return "…"
    k = t[0]
    d = depth - 1
    if k == "param":
        return t[2]
    if k == "upvar":
        return "^" + t[2]
    if k == "const":
        return repr(t[2])
    if k == "call":
        return "%s(%s)" % (callee_name(t), ", ".join(fmt(a, d) for a in t[2]))
    if k == "ref":
        return "&" + fmt(t[1], d)
    if k == "deref":
        return "*" + fmt(t[1], d)
    if k == "promoted":
        return fmt(t[1], d)
    if k == "field":
        return "%s.%s" % (fmt(t[1], d), t[2])
    if k == "downcast":
        return "(%s as %s)" % (fmt(t[1], d), t[2])
    if k == "index":
        return fmt(t[1], d) + "[..]"
    if k == "agg":
        return "%s::%s{%s}" % (t[1].rsplit("::", 1)[-1], t[2], ", ".join(fmt(a, d) for a in t[3]))
    if k in ("tuple", "array"):
        return "(%s)" % ", ".join(fmt(a, d) for a in t[1])
    if k == "phi":
        return "phi(%s)" % " | ".join(fmt(a, d) for a in t[1])
    if k == "closure":
        return "|%s|" % t[1].rsplit("::", 1)[-1]
    if k == "binop":
        return "%s(%s, %s)" % (t[1], fmt(t[2], d), fmt(t[3], d))
    if k == "unop":
        return "%s(%s)" % (t[1], fmt(t[2], d))
    if k == "cast":
        return fmt(t[1], d)
    if k == "discr":
        return "discr(%s)" % fmt(t[1], d)
    if k == "var":
        return "%s=%s" % (t[2], fmt(t[3], d))
    return k


def subst(t, mapping):
    """replace ('param', i, ..) leaves by mapping[i] (terms of the caller's arguments); keys ('upvar', i) replace the
    closure's captured variables"""
    if not isinstance(t, tuple) or not t:
        return t
    k = t[0]
    if k == "param":
        return mapping.get(t[1], t)
    if k == "upvar":
        return mapping.get(("upvar", t[1]), t)
    if k in ("ref", "deref", "promoted"):
        return (k, subst(t[1], mapping))
    if k == "field":
        return _project_field(subst(t[1], mapping), t[2], t[3] if len(t) > 3 else "")
    if k in ("downcast", "cast", "discr"):
        return (k, subst(t[1], mapping)) + t[2:]
    if k == "index":
        return (k, subst(t[1], mapping))
    if k == "call":
        return (k, t[1], [subst(a, mapping) for a in t[2]], t[3], t[4])
    if k == "agg":
        return (k, t[1], t[2], [subst(a, mapping) for a in t[3]]) + t[4:]
    if k in ("tuple", "array", "phi"):
        return (k, [subst(a, mapping) for a in t[1]])
    if k == "closure":
        return (k, t[1], [subst(a, mapping) for a in t[2]])
    if k == "binop":
        return (k, t[1], subst(t[2], mapping), subst(t[3], mapping))
    if k == "unop":
        return (k, t[1], subst(t[2], mapping))
    if k == "var":
        return (k, t[1], t[2], subst(t[3], mapping))
    return t


def inline_calls(t, facts, depth=2, _seen=()):
    """replace calls to small crate-internal functions by their return term (parameters substituted), so that
    provenance rules see through extracted helpers"""
    if depth <= 0 or not isinstance(t, tuple) or not t:
        return t
    k = t[0]

    def rec(x):
        return inline_calls(x, facts, depth, _seen)
    if k == "call":
        args = [rec(a) for a in t[2]]
        c = t[4]
        if callee_name(t) in ("call", "call_mut", "call_once") and len(args) >= 2:
            # a local closure called by name (`let group = |n| caps.name(n).unwrap().as_str(); .. group("index")`): its result
            # term with the parameters replaced by the arguments and the captured variables by their values
            a0 = args[0]
            hops = 0
            while hops < 20 and a0[0] in ("ref", "deref", "cast", "var"):
                hops += 1
                a0 = a0[3] if a0[0] == "var" else a0[1]
            tup = args[1]
            while tup[0] == "var":
                tup = tup[3]
            cb = facts.body(a0[1]) if a0[0] == "closure" else None
            if cb is not None and a0[1] not in _seen and tup[0] == "tuple":
                mapping = {2 + i: e for i, e in enumerate(tup[1])}
                for i, cap in enumerate(a0[2] or []):
                    mapping[("upvar", i)] = cap
                body_t = subst(du_of(cb).local_term(0, 26), mapping)
                return ("call", t[1], args + [inline_calls(body_t, facts, depth - 1, _seen + (a0[1],))], t[3], c)
        tb = facts.body(t[1]) if c is not None else None
        if tb is not None and tb.in_repo() and tb.kind != "closure" and len(tb.blocks) <= 80 and t[1] not in _seen and tb.impl_trait is None:
            rt = du_of(tb).local_term(0, 26)
            mapping = {i + 1: a for i, a in enumerate(args)}
            body_t = subst(rt, mapping)
            return ("call", t[1], args + [inline_calls(body_t, facts, depth - 1, _seen + (t[1],))], t[3], c)
        # a crate function passed by name (`opt.map(Self::helper)`): its body applied to the receiver
        extra = []
        for a in t[2]:
            if a[0] == "const" and a[1] == "fn":
                fb = facts.body(a[2])
                if fb is not None and fb.in_repo() and a[2] not in _seen and len(fb.blocks) <= 80 and args:
                    rt = du_of(fb).local_term(0, 26)
                    extra.append(inline_calls(subst(rt, {1: args[0]}), facts, depth - 1, _seen + (a[2],)))
        # closures passed to the call: their result term (captures are not substituted)
        for a in t[2]:
            for x in ([a] if a[0] == "closure" else [a[3]] if a[0] == "var" and isinstance(a[3], tuple) and a[3] and a[3][0] == "closure" else []):
                cb = facts.body(x[1])
                if cb is not None and x[1] not in _seen:
                    # the closure's result, its captured variables replaced by their values in this frame
                    cmap = {("upvar", i): cap for i, cap in enumerate(x[2] or [])}
                    extra.append(inline_calls(subst(du_of(cb).local_term(0, 20), cmap), facts, depth - 1, _seen + (x[1],)))
        return ("call", t[1], args + extra, t[3], c)
    if k in ("ref", "deref", "promoted"):
        return (k, rec(t[1]))
    if k == "field":
        return _project_field(rec(t[1]), t[2], t[3] if len(t) > 3 else "")
    if k in ("downcast", "cast", "discr"):
        return (k, rec(t[1])) + t[2:]
    if k == "index":
        return (k, rec(t[1]))
    if k == "agg":
        return (k, t[1], t[2], [rec(a) for a in t[3]]) + t[4:]
    if k in ("tuple", "array", "phi"):
        return (k, [rec(a) for a in t[1]])
    if k == "closure":
        return (k, t[1], [rec(a) for a in t[2]])
    if k == "binop":
        return (k, t[1], rec(t[2]), rec(t[3]))
    if k == "unop":
        return (k, t[1], rec(t[2]))
    if k == "var":
        return (k, t[1], t[2], rec(t[3]))
    return t
