"""Undo helper extraction before the rules look at the program.

The rules are written against the functions of the pinned tree (public API functions, the private helpers that hold a role).  A
clean-up that moves part of such a function into a *new* private helper (or a private method of a new private struct) does not
change behaviour, but it hides the moved statements from every rule that reads the original function.  `inline_helpers` splices the
MIR of every crate function whose path is not in `known_fns.json` (the function inventory of the pinned tree) into each of its
callers - bodies of functions and closures alike - bottom-up, and drops the helper from the fact base; closures defined inside a helper
are copied per call site and re-parented.  Public functions, trait methods and recursive helpers are never inlined.

Nothing here decides a property: it only normalises the form of the program (like the compiler's own inliner would), and the rules
then see the statements where they were before the extraction.  A helper that is called from several functions is copied into each."""
import copy
import json
import os

HERE = os.path.dirname(os.path.abspath(__file__))
MAX_BLOCKS = 6000


def load_known():
    """{path: [impl type, signature]} of the functions of the pinned tree"""
    p = os.path.join(HERE, "known_fns.json")
    if not os.path.exists(p):
        return None
    k = json.load(open(p))
    return k if isinstance(k, dict) else {n: ["", ""] for n in k}


def _callee_path(term):
    if term.get("k") != "call":
        return None
    f = term.get("func") or {}
    fn = f.get("fn")
    if not fn or fn.get("trait"):
        return None
    return fn.get("path")


def _shift(x, loff, boff, poff, cmap):
    """renumber locals / promoted indices / closure paths inside a JSON fragment (statements, operands, places) in place"""
    if isinstance(x, list):
        for v in x:
            _shift(v, loff, boff, poff, cmap)
        return
    if not isinstance(x, dict):
        return
    if "l" in x and "p" in x and isinstance(x["l"], int):          # a place
        x["l"] += loff
        _shift(x["p"], loff, boff, poff, cmap)
        return
    k = x.get("k")
    if k in ("live", "dead") and isinstance(x.get("l"), int):
        x["l"] += loff
        return
    if k == "index" and isinstance(x.get("l"), int):
        x["l"] += loff
    if isinstance(x.get("promoted"), int):
        x["promoted"] += poff
    if isinstance(x.get("fnargs"), list):
        x["fnargs"] = [next((new + a[len(old):] for old, new in cmap.items() if isinstance(a, str) and a.startswith(old)), a) for a in x["fnargs"]]
    if isinstance(x.get("closure"), str):
        for old, new in cmap.items():
            if x["closure"].startswith(old):
                x["closure"] = new + x["closure"][len(old):]
                break
    for key, v in x.items():
        if isinstance(v, (dict, list)):
            _shift(v, loff, boff, poff, cmap)


def _rename(x, m):
    """replace locals according to m inside a JSON fragment (in place)"""
    if isinstance(x, list):
        for v in x:
            _rename(v, m)
    elif isinstance(x, dict):
        if "l" in x and isinstance(x["l"], int) and x["l"] in m and ("p" in x or x.get("k") in ("live", "dead", "index")):
            x["l"] = m[x["l"]]
        for v in x.values():
            if isinstance(v, (dict, list)):
                _rename(v, m)


def _shift_term(t, loff, boff, poff, cmap, unwind_to):
    for key in ("target", "unwind", "otherwise"):
        if isinstance(t.get(key), int):
            t[key] += boff
    if "targets" in t:
        t["targets"] = [[v, tg + boff] for v, tg in t["targets"]]
    for key in ("func", "args", "dest", "discr", "pl", "cond", "msg"):
        if key in t and isinstance(t[key], (dict, list)):
            _shift(t[key], loff, boff, poff, cmap)
    if t.get("k") == "resume" and unwind_to is not None:
        t.clear()
        t.update({"k": "goto", "target": unwind_to, "line": 0, "exp": False})


def _inline_one(F, H, bi, serial, all_bodies, new_bodies, argmap=None):
    """splice helper body H into F at the call in block bi"""
    fm, hm = F["mir"], H["mir"]
    call = fm["blocks"][bi]["term"]
    loff, boff, poff = len(fm["locals"]), len(fm["blocks"]), len(F.get("promoted", []))
    # closures of the helper: one copy per call site, re-parented to F
    cmap = {}
    hp = H["path"]
    tag = "%s::{inlined#%d %s}" % (F["path"], serial, H.get("name") or hp.rsplit("::", 1)[-1])
    cmap[hp + "::{"] = tag + "::{"
    for cb in list(all_bodies) + list(new_bodies):
        if cb["kind"] == "closure" and cb["path"].startswith(hp + "::{"):
            nb = copy.deepcopy(cb)
            nb["path"] = tag + cb["path"][len(hp):]
            top = F.get("parent") or F["path"]
            nb["parent"] = top if F["kind"] == "closure" else F["path"]
            dp = cb.get("direct_parent") or hp
            nb["direct_parent"] = F["path"] if dp == hp else tag + dp[len(hp):]
            _shift({"x": [st for b_ in nb["mir"]["blocks"] for st in b_["stmts"]] + [b_["term"] for b_ in nb["mir"]["blocks"]]}, 0, 0, 0, cmap)
            new_bodies.append(nb)
    fm["locals"] += copy.deepcopy(hm["locals"])
    F.setdefault("promoted", [])
    F["promoted"] += copy.deepcopy(H.get("promoted", []))
    dbg = copy.deepcopy(H.get("debug", []))
    _shift(dbg, loff, boff, poff, cmap)
    F.setdefault("debug", [])
    F["debug"] += dbg
    unwind_to = call.get("unwind") if isinstance(call.get("unwind"), int) else None
    for hb in hm["blocks"]:
        nb = copy.deepcopy(hb)
        _shift(nb["stmts"], loff, boff, poff, cmap)
        t = nb["term"]
        if t.get("k") != "return":
            _shift_term(t, loff, boff, poff, cmap, unwind_to if nb.get("cleanup") else None)
        fm["blocks"].append(nb)
    line = call.get("line", 0)
    blocks = fm["blocks"]
    hrange = range(boff, boff + len(hm["blocks"]))
    ret_l = loff
    tgt = call.get("target")
    dest = call["dest"]

    def new_block(stmts, term, cleanup=False):
        blocks.append({"stmts": stmts, "term": term, "cleanup": cleanup})
        return len(blocks) - 1

    def goto(t_):
        return {"k": "goto", "target": t_, "line": line, "exp": False}

    def assign_dest():
        return {"k": "assign", "pl": copy.deepcopy(dest), "rv": {"k": "use", "op": {"k": "move", "pl": {"l": ret_l, "p": []}}}, "line": line}
    # ---- the caller's test of the result, if it follows immediately: `match helper() {..}` or `helper()?`
    ret_ty = hm["locals"][0]["ty"]
    arms = None      # {"Ok": block, "Err": block, ...} and the chain of caller blocks to copy per return site
    chain_c = []
    if tgt is not None and not dest["p"] and not call.get("_no_thread"):
        T = blocks[tgt]

        def discr_switch(blk, of_local):
            dl = None
            for st in blk["stmts"]:
                if st["k"] == "assign" and st["rv"]["k"] == "discr" and st["rv"]["pl"]["l"] == of_local and not st["rv"]["pl"]["p"] and not st["pl"]["p"]:
                    dl = st["pl"]["l"]
            t_ = blk["term"]
            if dl is None or t_.get("k") != "switch" or (t_["discr"].get("pl") or {}).get("l") != dl:
                return None
            m = {v: b_ for v, b_ in t_["targets"]}
            return m, t_.get("otherwise")
        ds = discr_switch(T, dest["l"])
        is_res, is_opt = ret_ty.startswith("std::result::Result<"), ret_ty.startswith("std::option::Option<")
        if ds is not None and (is_res or is_opt):
            m, oth = ds
            names = ("Ok", "Err") if is_res else ("None", "Some")
            arms = {names[0]: m.get(0, oth), names[1]: m.get(1, oth)}
            chain_c = [tgt]
        else:
            tt = T["term"]
            fnm = ((tt.get("func") or {}).get("fn") or {}).get("name") if tt.get("k") == "call" else None
            a0 = (tt.get("args") or [{}])[0].get("pl") if tt.get("k") == "call" and tt.get("args") else None
            if fnm == "branch" and a0 and a0["l"] == dest["l"] and not a0["p"] and isinstance(tt.get("target"), int) and not tt["dest"]["p"] and (is_res or is_opt):
                S = blocks[tt["target"]]
                ds2 = discr_switch(S, tt["dest"]["l"])
                if ds2 is not None:
                    m, oth = ds2
                    cont, brk = m.get(0, oth), m.get(1, oth)
                    arms = {"Ok": cont, "Err": brk} if is_res else {"Some": cont, "None": brk}
                    chain_c = [tgt, tt["target"]]

    def fresh_like(l_):
        fm["locals"].append(copy.deepcopy(fm["locals"][l_]))
        fm["locals"][-1].pop("name", None)
        return len(fm["locals"]) - 1

    def copy_caller_chain(variant):
        """copies of the caller's test blocks whose switch is resolved for `variant`, working on locals of their own (the result slot
        and the `branch` result get one definition per return site, so their provenance stays exact); returns (entry block, slot)"""
        arm = arms.get(variant)
        ren = {dest["l"]: fresh_like(dest["l"])}
        if len(chain_c) == 2:
            xl = blocks[chain_c[0]]["term"]["dest"]["l"]
            ren[xl] = fresh_like(xl)
        first = None
        prev = None
        for k_, cb_ in enumerate(chain_c):
            nb_ = copy.deepcopy(blocks[cb_])
            _rename(nb_["stmts"], ren)
            _rename(nb_["term"], ren)
            idx = new_block(nb_["stmts"], nb_["term"], nb_.get("cleanup", False))
            if prev is not None:
                blocks[prev]["term"]["target"] = idx
            if first is None:
                first = idx
            prev = idx
        # hand the values back to the names the arms read
        back = [{"k": "assign", "pl": {"l": o_, "p": []}, "rv": {"k": "use", "op": {"k": "move", "pl": {"l": n_, "p": []}}}, "line": line} for o_, n_ in ren.items()]
        tail = new_block(back, goto(arm))
        blocks[prev]["term"] = goto(tail)
        return first, ren[dest["l"]]
    # ---- return sites of the helper with a statically known variant
    def assigned_variant(blk):
        v = None
        for st in blk["stmts"]:
            if st["k"] == "assign" and st["pl"]["l"] == ret_l and not st["pl"]["p"]:
                rv = st["rv"]
                v = rv.get("variant") if rv["k"] == "agg" and isinstance(rv.get("variant"), str) else "?"
        t_ = blk["term"]
        if t_.get("k") == "call" and t_["dest"]["l"] == ret_l and not t_["dest"]["p"]:
            fnm_ = ((t_.get("func") or {}).get("fn") or {}).get("name")
            if fnm_ == "from_residual":
                v = "Err" if ret_ty.startswith("std::result::Result<") else ("None" if ret_ty.startswith("std::option::Option<") else "?")
            else:
                v = "?"
        return v
    generic_landing = None

    def landing_for(variant, src=None):
        nonlocal generic_landing
        if arms is not None and variant in arms and arms[variant] is not None:
            entry, slot = copy_caller_chain(variant)
            return new_block([{"k": "assign", "pl": {"l": slot, "p": []}, "rv": {"k": "use", "op": {"k": "move", "pl": {"l": ret_l if src is None else src, "p": []}}}, "line": line}], goto(entry))
        if generic_landing is None:
            generic_landing = new_block([assign_dest()], goto(tgt)) if tgt is not None else new_block([], {"k": "unreachable", "line": line, "exp": False})
        return generic_landing
    if arms is not None:
        for ai in list(hrange):
            A = blocks[ai]
            if A.get("cleanup"):
                continue
            v = assigned_variant(A)
            if v is None or v == "?" or v not in arms:
                continue
            def take_own():
                """the value this site returns gets a local of its own (one definition: exact provenance downstream)"""
                own_ = fresh_like(ret_l)
                for st in A["stmts"]:
                    if st["k"] == "assign" and st["pl"]["l"] == ret_l and not st["pl"]["p"]:
                        st["pl"]["l"] = own_
                if A["term"].get("k") == "call" and A["term"]["dest"]["l"] == ret_l and not A["term"]["dest"]["p"]:
                    A["term"]["dest"]["l"] = own_
                return own_
            if A["term"].get("k") == "return":
                own = take_own()
                A["term"] = goto(landing_for(v, own))
                continue
            kA = A["term"].get("k")
            if kA not in ("goto", "call", "drop", "switch"):
                continue

            def succs(t_):
                return [t_.get(k_) for k_ in ("target", "otherwise") if isinstance(t_.get(k_), int)] + [tg for _, tg in t_.get("targets", [])]
            # the part of the helper that runs after this assignment (scope-end drops, drop-flag tests) up to its return: this site
            # gets a copy of its own, ending in its own landing
            region = []
            stack_ = [x for x in succs(A["term"])]
            ok_ = True
            seen_ = set()
            while stack_:
                cur = stack_.pop()
                if cur in seen_:
                    continue
                seen_.add(cur)
                if cur not in hrange or len(seen_) > 80 or cur == ai:
                    ok_ = False
                    break
                B = blocks[cur]
                if any(st["k"] == "assign" and st["pl"]["l"] == ret_l for st in B["stmts"]) or \
                        (B["term"].get("k") == "call" and B["term"]["dest"]["l"] == ret_l):
                    ok_ = False
                    break
                region.append(cur)
                if B["term"].get("k") != "return":
                    stack_ += succs(B["term"])
            if not ok_ or not region or not any(blocks[x]["term"].get("k") == "return" for x in region):
                continue
            own = take_own()
            land = landing_for(v, own)
            remap = {}
            for cb_ in region:
                nb_ = copy.deepcopy(blocks[cb_])
                remap[cb_] = new_block(nb_["stmts"], nb_["term"], False)
            for cb_ in region:
                t_ = blocks[remap[cb_]]["term"]
                if t_.get("k") == "return":
                    blocks[remap[cb_]]["term"] = goto(land)
                    continue
                for k_ in ("target", "otherwise"):
                    if isinstance(t_.get(k_), int) and t_[k_] in remap:
                        t_[k_] = remap[t_[k_]]
                if "targets" in t_:
                    t_["targets"] = [[v_, remap.get(tg, tg)] for v_, tg in t_["targets"]]
            tA = A["term"]
            for k_ in ("target", "otherwise"):
                if isinstance(tA.get(k_), int) and tA[k_] in remap:
                    tA[k_] = remap[tA[k_]]
            if "targets" in tA:
                tA["targets"] = [[v_, remap.get(tg, tg)] for v_, tg in tA["targets"]]
    # every remaining return of the helper goes to the generic landing
    for ai in hrange:
        if blocks[ai]["term"].get("k") == "return":
            if tgt is None:
                blocks[ai]["term"] = {"k": "unreachable", "line": line, "exp": False}
            else:
                blocks[ai]["term"] = goto(landing_for("?"))
    blk = blocks[bi]
    if argmap is None:
        for i, a in enumerate(call.get("args", [])):
            blk["stmts"].append({"k": "assign", "pl": {"l": loff + 1 + i, "p": []}, "rv": {"k": "use", "op": copy.deepcopy(a)}, "line": line})
    else:
        for cl, rv in argmap:
            blk["stmts"].append({"k": "assign", "pl": {"l": loff + cl, "p": []}, "rv": copy.deepcopy(rv), "line": line})
    blk["term"] = goto(boff)


def _retire_unreachable(F):
    """blocks no path reaches any more (the caller's original test of a helper's result, once every return site has its own copy)
    are marked as cleanup blocks: every analysis skips those"""
    blocks = F["mir"]["blocks"]
    seen = {0}
    stack = [0]
    while stack:
        b = blocks[stack.pop()]
        t = b["term"]
        succ = [t.get(k_) for k_ in ("target", "unwind", "otherwise") if isinstance(t.get(k_), int)] + [tg for _, tg in t.get("targets", [])]
        for x in succ:
            if x not in seen and 0 <= x < len(blocks):
                seen.add(x)
                stack.append(x)
    for i, b in enumerate(blocks):
        if i not in seen and not b.get("cleanup"):
            b["cleanup"] = True


def _closure_of_operand(F, op, depth=0):
    """path of the closure literal an operand denotes (through moves, copies and borrows inside the body), else None"""
    pl = op.get("pl") if isinstance(op, dict) else None
    if not pl or depth > 8:
        return None
    l = pl["l"]
    defs = []
    for blk in F["mir"]["blocks"]:
        for st in blk["stmts"]:
            if st["k"] == "assign" and st["pl"]["l"] == l and not st["pl"]["p"]:
                defs.append(st["rv"])
    if len(defs) != 1:
        return None
    rv = defs[0]
    if rv["k"] == "agg" and rv.get("agg") == "closure":
        return rv.get("closure")
    if rv["k"] == "use":
        return _closure_of_operand(F, rv["op"], depth + 1)
    if rv["k"] == "ref" and not [p_ for p_ in rv["pl"]["p"] if p_["k"] != "deref"]:
        return _closure_of_operand(F, {"pl": {"l": rv["pl"]["l"], "p": []}}, depth + 1)
    return None


def inline_helpers(j, known=None):
    """returns the list of helper paths that were inlined away (j is modified in place)"""
    if known is None:
        known = load_known()
    if known is None or j.get("crate") != "melda" or os.environ.get("VERIF_NO_INLINE"):
        return []
    bodies = j["bodies"]
    by_path = {b["path"]: b for b in bodies}
    cand = {}
    # a function of the pinned tree that was merely renamed keeps its place (same impl type, same signature, old name gone): only
    # functions that are new to the program are normalised away
    present = {b["path"] for b in bodies if b["kind"] != "closure"}
    pool = {}
    for n_, (impl_, sig_) in known.items():
        if n_ not in present and sig_:
            pool[(impl_, sig_)] = pool.get((impl_, sig_), 0) + 1
    for b in bodies:
        if b["kind"] == "closure" or not b.get("file", "").startswith("src/"):
            continue
        if b["path"] in known or b.get("pub") or b.get("impl_trait"):
            continue
        key_ = (b.get("impl_adt") or b.get("impl_self") or "", b.get("sig") or "")
        if pool.get(key_, 0) > 0:
            pool[key_] -= 1
            continue
        if b["mir"]["locals"][0]["ty"] == "bool":
            # predicates stay calls: the rules read `p(x) == true` through the predicate's summary (conds.expand_predicates), which is
            # more precise than a spliced body whose answers meet in one result slot
            continue
        if b.get("name") in ("main",) or "::tests::" in b["path"] or b["path"].startswith("tests::"):
            continue
        cand[b["path"]] = b
    # a helper that is also used as a function value (`.map(helper)`) cannot be spliced at those uses: leave it alone
    def fn_items(x, out, in_func=False):
        if isinstance(x, list):
            for v in x:
                fn_items(v, out)
        elif isinstance(x, dict):
            if isinstance(x.get("fn"), dict) and not in_func and x["fn"].get("path") in cand:
                out.add(x["fn"]["path"])
            for k_, v in x.items():
                if isinstance(v, (dict, list)):
                    fn_items(v, out, in_func=(k_ == "func" and x.get("k") == "call"))
    used_as_value = set()
    for b in bodies:
        if b.get("file", "").startswith("src/"):
            fn_items(b["mir"]["blocks"], used_as_value)
    for p in used_as_value:
        cand.pop(p, None)
    if not cand:
        return []

    def callees(b):
        out = set()
        for blk in b["mir"]["blocks"]:
            p = _callee_path(blk["term"])
            if p in cand:
                out.add(p)
        return out
    # a helper's closures calling helpers count as the helper calling them
    def helper_calls(p):
        out = set(callees(cand[p]))
        for cb in bodies:
            if cb["kind"] == "closure" and cb["path"].startswith(p + "::{"):
                out |= callees(cb)
        return out
    graph = {p: helper_calls(p) for p in cand}
    # drop helpers on cycles (recursion)
    def reach(p, seen):
        for q in graph.get(p, ()):
            if q not in seen:
                seen.add(q)
                reach(q, seen)
        return seen
    cyclic = {p for p in cand if p in reach(p, set())}
    for p in cyclic:
        cand.pop(p)
    order = []
    done = set()

    def visit(p):
        if p in done or p not in cand:
            return
        done.add(p)
        for q in graph.get(p, ()):
            visit(q)
        order.append(p)
    for p in sorted(cand):
        visit(p)
    serial = [0]

    def expand(F):
        """inline every candidate call in F (callees are already expanded, so one pass over the original blocks suffices - the spliced
        blocks contain no candidate calls any more)"""
        new_bodies = []
        n0 = len(F["mir"]["blocks"])
        for bi in range(n0):
            if F["mir"]["blocks"][bi].get("cleanup"):
                continue
            p = _callee_path(F["mir"]["blocks"][bi]["term"])
            if p in cand and p != F["path"] and len(F["mir"]["blocks"]) < MAX_BLOCKS:
                serial[0] += 1
                _inline_one(F, cand[p], bi, serial[0], bodies, new_bodies)
        # a helper that takes a closure and calls it (`with_store(|s| ..)`): once the helper is spliced in, the closure it calls is a
        # closure literal of this very body - splice its body in as well (only inside spliced blocks: the function's own code is left as is)
        rounds = 0
        while len(F["mir"]["blocks"]) > n0 and rounds < 4:
            rounds += 1
            did = False
            for bi in range(n0, len(F["mir"]["blocks"])):
                blk = F["mir"]["blocks"][bi]
                t = blk["term"]
                if blk.get("cleanup") or t.get("k") != "call" or t.get("_closure_done"):
                    continue
                fn = (t.get("func") or {}).get("fn") or {}
                if fn.get("name") not in ("call_once", "call", "call_mut") or not (fn.get("trait") or "").startswith("std::ops::Fn") or len(t.get("args", [])) != 2:
                    continue
                cpath = _closure_of_operand(F, t["args"][0])
                cb = next((b_ for b_ in bodies + new_bodies if b_["path"] == cpath), None) if cpath else None
                t["_closure_done"] = True
                if cb is None or len(F["mir"]["blocks"]) >= MAX_BLOCKS:
                    continue
                env, tup = t["args"][0], t["args"][1]
                am = []
                want_ref = cb["mir"]["locals"][1]["ty"].startswith("&")
                env_local_ty = F["mir"]["locals"][env["pl"]["l"]]["ty"] if env.get("pl") and not env["pl"]["p"] else ""
                if want_ref and not env_local_ty.startswith("&") and env.get("pl"):
                    am.append((1, {"k": "ref", "mut": False, "pl": env["pl"]}))
                else:
                    am.append((1, {"k": "use", "op": env}))
                nargs = cb["mir"]["argc"] - 1
                if nargs > 0:
                    if not tup.get("pl"):
                        continue
                    for i_ in range(nargs):
                        pl = copy.deepcopy(tup["pl"])
                        pl["p"] = pl["p"] + [{"k": "field", "i": i_, "n": str(i_), "of": None, "ty": cb["mir"]["locals"][2 + i_]["ty"]}]
                        am.append((2 + i_, {"k": "use", "op": {"k": "move", "pl": pl}}))
                serial[0] += 1
                _inline_one(F, cb, bi, serial[0], bodies, new_bodies, argmap=am)
                did = True
            if not did:
                break
        if len(F["mir"]["blocks"]) > n0:
            _retire_unreachable(F)
        return new_bodies
    # bottom-up: first the helpers themselves (and their closures), then everybody else
    for p in order:
        extra = expand(cand[p])
        for cb in list(bodies):
            if cb["kind"] == "closure" and cb["path"].startswith(p + "::{"):
                extra += expand(cb)
        bodies += extra
    work = list(bodies)
    done_ = set()
    rounds_ = 0
    while work and rounds_ < 6:
        rounds_ += 1
        fresh = []
        for b in work:
            if id(b) in done_:
                continue
            done_.add(id(b))
            if b["path"] in cand or any(b["path"].startswith(p + "::{") for p in cand):
                continue
            if not b.get("file", "").startswith("src/"):
                continue
            fresh += expand(b)
        bodies += fresh
        work = fresh        # closures copied while splicing are bodies in their own right: they are normalised as well
    gone = set(cand)
    j["bodies"] = [b for b in bodies if b["path"] not in gone and not any(b["path"].startswith(p + "::{") for p in gone)]
    return sorted(gone)
