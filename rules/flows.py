"""Flow-insensitive may-derive graph per body, including flows through `&mut` borrows (a call that
receives `&mut v` may store any of its other arguments into v) and through closures capturing
`&mut` references. Used where term provenance (defuse) cannot see data accumulated by mutation
(`vec.push(x)`, `set.insert(y)`)."""
from .defuse import du_of


class Flow:
    def __init__(self, body):
        self.body = body
        mir = body.mir
        E = {}

        def add(dst, src):
            E.setdefault(dst, set()).add(src)

        def place_nodes(pl):
            out = [("l", pl.local)]
            if 1 <= pl.local <= mir.argc or (body.kind == "closure" and pl.local == 1):
                fs = [p["n"] for p in pl.proj if p["k"] == "field"]
                if fs:
                    out.append(("pfield", pl.local, fs[0]))
            for p in pl.proj:
                if p["k"] == "index":
                    out.append(("l", p["l"]))
            return out

        def op_nodes(op):
            if op.kind in ("copy", "move"):
                return place_nodes(op.place)
            j = op.j
            if "mem" in j and "str" in j["mem"]:
                return [("const", j["mem"]["str"])]
            if "int" in j:
                return [("const", j["int"])]
            if "promoted" in j:
                return [("promoted", j["promoted"])]
            return []

        def is_mut_ref(l):
            return mir.locals[l]["ty"].startswith("&mut ")

        closure_caps = {}   # local holding a closure -> captured operand locals
        deref_stored = set()  # pointer locals written through (`(*p).x = ..`)
        for b in mir.blocks:
            if b.cleanup:
                continue
            for st in b.stmts:
                if st.kind != "assign":
                    continue
                d = ("l", st.place.local)
                rv = st.rv
                if rv.kind in ("ref", "rawptr", "discr"):
                    for n in place_nodes(rv.place()):
                        add(d, n)
                    if rv.kind != "discr" and rv.j.get("mut"):
                        add(("l", rv.place().local), d)   # writes through the borrow reach the pointee
                else:
                    for op in rv.operands():
                        for n in op_nodes(op):
                            add(d, n)
                    if rv.kind == "agg" and rv.j.get("agg") == "closure":
                        closure_caps[st.place.local] = [op.place.local for op in rv.operands() if op.place is not None]
                # assignment through a projection of a &mut local: pointee updated
                if st.place.proj and st.place.proj[0]["k"] == "deref":
                    deref_stored.add(st.place.local)
            t = b.term
            if t.kind == "call":
                cn = ("call", b.idx)
                for a in t.args:
                    for n in op_nodes(a):
                        add(cn, n)
                if t.dest is not None:
                    add(("l", t.dest.local), cn)
                for a in t.args:
                    if a.place is not None and not a.place.proj:
                        l = a.place.local
                        if is_mut_ref(l):
                            add(("l", l), cn)
                        for cap in closure_caps.get(l, []):
                            if is_mut_ref(cap):
                                add(("l", cap), cn)
        # a store through pointer p also reaches what p was derived from (box / raw pointer aliases)
        for p_ in deref_stored:
            lvl = [("l", p_)]
            for _ in range(3):
                nxt = []
                for x in lvl:
                    for q in list(E.get(x, ())):
                        if q[0] == "l" and q != x:
                            add(q, x)
                            nxt.append(q)
                lvl = nxt
        self.E = E
        self.closure_caps = closure_caps

    def sources(self, start_nodes):
        seen = set()
        stack = list(start_nodes)
        while stack:
            x = stack.pop()
            if x in seen:
                continue
            seen.add(x)
            for y in self.E.get(x, ()):
                if y not in seen:
                    stack.append(y)
        return seen

    def local_sources(self, local):
        return self.sources([("l", local)])

    def operand_sources(self, op):
        if op.place is not None:
            return self.sources([("l", op.place.local)])
        return set()

    def call_blocks(self, nodes):
        return {n[1] for n in nodes if n[0] == "call"}


def flow_of(body):
    f = body._cache.get("flow")
    if f is None:
        f = Flow(body)
        body._cache["flow"] = f
    return f
