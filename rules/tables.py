"""Writer/reader table extraction for the wire formats of the crate (JSON object keys, record
arities, positional meaning of record elements, op-codes)."""
from .defuse import du_of, walk, peel, callee_name
from .common import arg_term, call_named
from .conds import lits_of


def json_keys_written(body):
    """{key string: [line]} for `serde_json::Map::insert(map, KEY, value)` with a constant key"""
    out = {}
    for bi, t in body.calls():
        c = t.callee
        if c is None or c.name != "insert" or "serde_json::Map" not in c.path or len(t.args) < 3:
            continue
        k = arg_term(body, t, 1)
        for x in walk(k):
            if x[0] == "const" and x[1] == "str":
                out.setdefault(x[2], []).append(t.line)
    return out


def json_keys_read(body):
    """{key string: [line]} for `Map::get / contains_key / remove / Index` with a constant key"""
    out = {}
    for bi, t in body.calls():
        c = t.callee
        if c is None or len(t.args) < 2:
            continue
        if ("serde_json::Map" in c.path and c.name in ("get", "contains_key", "remove", "get_mut")) or \
                (c.name == "index" and "serde_json" in (c.self_ty or c.full)) or \
                ("serde_json::Value" in c.path and c.name == "get"):
            k = arg_term(body, t, 1)
            for x in walk(k):
                if x[0] == "const" and x[1] == "str":
                    out.setdefault(x[2], []).append(t.line)
    return out


def array_literals(body):
    """[(n, [element terms], line)] for array aggregates with >= 2 elements (vec![a, b, c])"""
    du = du_of(body)
    out = []
    for b in body.blocks:
        if b.cleanup:
            continue
        for st in b.stmts:
            if st.kind == "assign" and st.rv.kind == "agg" and st.rv.j.get("agg") == "array":
                ops = st.rv.operands()
                if len(ops) >= 2:
                    out.append((len(ops), [du.operand_term(o, 20) for o in ops], st.line, b.idx))
    return out


def len_compared_consts(body, facts=None):
    """constants a `.len()` result is compared with (Eq/Ne) -> {const: [(block, line)]}"""
    du = du_of(body)
    out = {}
    for b in body.blocks:
        if b.cleanup:
            continue
        for st in b.stmts:
            if st.kind == "assign" and st.rv.kind == "binop" and st.rv.j["op"] in ("Eq", "Ne", "Lt", "Le", "Gt", "Ge"):
                a, c = st.rv.operands()
                for x, y in ((a, c), (c, a)):
                    yv = y.const_int() if y.is_const() else None
                    if yv is None and not y.is_const():
                        yt = du.operand_term(y, 6)           # a constant parked in a local (`_19 = const 2_usize; Eq(_17, _19)`)
                        while yt[0] in ("var", "cast"):
                            yt = yt[3] if yt[0] == "var" else yt[1]
                        if yt[0] == "const" and yt[1] == "int":
                            yv = yt[2]
                    if yv is not None:
                        xt = du.operand_term(x, 8)
                        px = xt
                        while px[0] in ("var", "cast"):
                            px = px[3] if px[0] == "var" else px[1]
                        if (px[0] == "call" and callee_name(px) == "len") or (px[0] == "unop" and px[1] == "PtrMetadata"):
                            # `.len()`, or the length test of a slice pattern (`[a, b] => ..` reads the slice's metadata)
                            out.setdefault((st.rv.j["op"], yv), []).append((b.idx, st.line))
        t = b.term
        if t.kind == "switch" and t.j.get("discr_ty") == "usize":
            dt = du.operand_term(t.discr, 8)
            pd = dt
            while pd[0] in ("var", "cast"):
                pd = pd[3] if pd[0] == "var" else pd[1]
            if (pd[0] == "call" and callee_name(pd) == "len") or (pd[0] == "unop" and pd[1] == "PtrMetadata"):
                for v, _tg in t.j["targets"]:
                    out.setdefault(("Eq", v), []).append((b.idx, t.line))
    return out


def index_consts(t):
    """constant indices i occurring as `index(x, const i)` inside term t"""
    out = set()
    for x in walk(t):
        if x[0] == "call" and callee_name(x) == "index" and len(x[2]) >= 2:
            k = x[2][1]
            if k[0] == "const" and k[1] == "int":
                out.add(k[2])
    return out


def var_names(t):
    return {x[2] for x in walk(t) if x[0] == "var"}


def aggregates(body, adt_suffix):
    """[(block, Stmt, [field terms])] for aggregates of the ADT whose path ends with adt_suffix"""
    du = du_of(body)
    out = []
    for b in body.blocks:
        if b.cleanup:
            continue
        for st in b.stmts:
            if st.kind == "assign" and st.rv.kind == "agg" and st.rv.j.get("agg") == "adt" and \
                    st.rv.j["adt"].endswith(adt_suffix):
                out.append((b.idx, st, [du.operand_term(o, 24) for o in st.rv.operands()]))
    return out


def compared_str_consts(body):
    """string constants that appear as an operand of an eq/ne call or of a match on a str"""
    out = {}
    for bi, t in body.calls():
        c = t.callee
        if c is None or c.name not in ("eq", "ne") or len(t.args) < 2:
            continue
        for i in (0, 1):
            at = arg_term(body, t, i, 10)
            for x in walk(at):
                if x[0] == "const" and x[1] == "str":
                    out.setdefault(x[2], []).append(t.line)
    return out
