"""Resolved call graph of the crate: direct calls, trait-method fan-out for unresolved calls on
local traits (`dyn Adapter`, generic `A: Adapter`), closure invocation edges (a closure may be
invoked during any call whose callee's generic arguments mention its type)."""


class Site:
    __slots__ = ("body", "block", "term", "targets", "closures", "ext", "fanout")

    def __init__(self, body, block, term):
        self.body = body
        self.block = block
        self.term = term
        self.targets = []    # Body objects in the crate that may be entered by this call
        self.closures = []   # closure Body objects that may be invoked during this call
        self.ext = None      # external callee path (None for crate-internal resolved calls)
        self.fanout = False  # True when targets come from trait fan-out

    @property
    def callee(self):
        return self.term.callee

    def name(self):
        return self.term.callee.name if self.term.callee else "<indirect>"

    def loc(self):
        return self.body.loc(self.term.line)


class CallGraph:
    def __init__(self, facts):
        self.facts = facts
        self.sites = {}       # body path -> [Site]
        self.creates = {}     # body path -> [closure Body] created (Aggregate) in it
        self.impl_methods = {}  # (trait, method) -> [Body]
        for im in facts.impls:
            for m in im["methods"]:
                b = facts.body(m["path"])
                if b is not None:
                    self.impl_methods.setdefault((im["trait"], m["name"]), []).append(b)
        for b in facts.bodies:
            ss = []
            for bi, t in b.calls():
                s = Site(b, bi, t)
                c = t.callee
                if c is None:
                    s.ext = "<indirect>"
                else:
                    tgt = facts.body(c.target())
                    if tgt is not None:
                        s.targets = [tgt]
                    elif c.trait in facts.traits and c.resolved is None:
                        s.targets = list(self.impl_methods.get((c.trait, c.name), []))
                        s.fanout = True
                        if not s.targets:
                            s.ext = c.path
                    else:
                        s.ext = c.target()
                    for p in c.fnargs:
                        cb = facts.body(p)
                        if cb is not None and cb.kind == "closure":
                            s.closures.append(cb)
                        elif cb is not None and cb not in s.targets:
                            # fn item passed as a value (e.g. `.map(Value::from)`)
                            s.closures.append(cb)
                ss.append(s)
            self.sites[b.path] = ss
            cr = []
            for blk in b.blocks:
                for st in blk.stmts:
                    if st.kind == "assign" and st.rv.kind == "agg" and st.rv.j.get("agg") == "closure":
                        cb = facts.body(st.rv.j["closure"])
                        if cb is not None:
                            cr.append(cb)
            self.creates[b.path] = cr
        self._reach = {}
        self._callers = None

    def succ(self, body, with_created=True):
        out = []
        for s in self.sites[body.path]:
            out.extend(s.targets)
            out.extend(s.closures)
        if with_created:
            out.extend(self.creates[body.path])
        seen = []
        for x in out:
            if x not in seen:
                seen.append(x)
        return seen

    def reach(self, body):
        """bodies reachable from body (including itself)"""
        r = self._reach.get(body.path)
        if r is not None:
            return r
        seen = {body.path: body}
        stack = [body]
        while stack:
            x = stack.pop()
            for y in self.succ(x):
                if y.path not in seen:
                    seen[y.path] = y
                    stack.append(y)
        self._reach[body.path] = seen
        return seen

    def reaches(self, a, b_path):
        return b_path in self.reach(a)

    def callers(self):
        if self._callers is None:
            c = {}
            for b in self.facts.bodies:
                for s in self.sites[b.path]:
                    for t in s.targets + s.closures:
                        c.setdefault(t.path, []).append(s)
            self._callers = c
        return self._callers

    def callers_of(self, path):
        return self.callers().get(path, [])

    def sites_calling(self, body, pred):
        """call sites in `body` whose callee satisfies pred(Callee)"""
        return [s for s in self.sites[body.path] if s.callee is not None and pred(s.callee)]

    def sites_reaching(self, body, target_path):
        """call sites in body that (transitively) may enter target_path"""
        out = []
        for s in self.sites[body.path]:
            for t in s.targets + s.closures:
                if t.path == target_path or self.reaches(t, target_path):
                    out.append(s)
                    break
        return out

    def path_to(self, a, b_path, limit=12):
        """one call path a -> ... -> b_path (list of body paths) for reports"""
        from collections import deque
        prev = {a.path: None}
        q = deque([a])
        while q:
            x = q.popleft()
            if x.path == b_path:
                out = []
                p = x.path
                while p is not None:
                    out.append(p)
                    p = prev[p]
                return list(reversed(out))
            for y in self.succ(x):
                if y.path not in prev:
                    prev[y.path] = x.path
                    q.append(y)
        return []


def cg_of(facts):
    c = getattr(facts, "_cg", None)
    if c is None:
        c = CallGraph(facts)
        facts._cg = c
    return c
