"""Iteration analysis: sources of unordered iteration (HashMap/HashSet, rayon, read_dir, storage
listings), the adapter chain applied to them and how the elements are consumed (order-sensitive
sink, keyed / commutative sanitizer)."""
from .cfg import cfg_of
from .defuse import du_of, walk, peel, callee_name, fmt
from .conds import all_edge_lits
from .callgraph import cg_of
from .common import arg_term

ITER_FNS = {"iter", "keys", "values", "into_iter", "drain", "iter_mut", "values_mut", "into_keys", "into_values",
            "par_iter", "into_par_iter", "par_iter_mut", "par_drain"}
ADAPTERS = frozenset({"map", "filter", "filter_map", "enumerate", "cloned", "copied", "into_iter", "iter", "rev", "zip", "chain",
            "skip", "take", "peekable", "flat_map", "flatten", "inspect", "by_ref", "map_while", "take_while",
            "skip_while", "step_by", "fuse", "into_par_iter", "par_iter", "as_ref", "deref", "unwrap", "expect", "branch"})
COMMUTATIVE = {"any", "all", "count", "sum", "max", "min", "max_by", "min_by", "max_by_key", "min_by_key", "product", "len", "is_empty"}
FIRST_MATCH = {"find", "position", "find_map", "next", "first", "last", "nth", "find_any", "find_first", "rposition", "min_by_key_first"}
CONSUMERS = COMMUTATIVE | FIRST_MATCH | {"collect", "for_each", "fold", "try_fold", "reduce", "extend", "from_iter", "try_for_each", "unzip", "partition", "collect_into_vec"}
KEYED_TYPES = ("BTreeMap<", "BTreeSet<", "HashMap<", "HashSet<", "collections::BTreeMap", "collections::BTreeSet",
               "collections::HashMap", "collections::HashSet", "serde_json::Map")
UNORDERED_TYPES = ("HashMap<", "HashSet<", "hash_map::", "hash_set::", "collections::HashMap", "collections::HashSet")


def container_kind(c, body=None, term=None):
    """classification of the container a call iterates: 'hash' | 'btree' | 'vec' | 'rayon' | 'dir' | None"""
    s = " ".join([c.path, c.self_ty or "", c.full, c.impl_self or ""])
    if c.name == "read_dir":
        return "dir"
    kind = None
    if any(u in s for u in UNORDERED_TYPES):
        kind = "hash"
    elif "BTreeMap" in s or "BTreeSet" in s or "btree_map" in s or "btree_set" in s or "serde_json::Map" in s or "serde_json::map" in s:
        kind = "btree"
    elif "Vec<" in s or "[T]" in s or "slice::" in s or "vec::" in s:
        kind = "vec"
    if c.krate.startswith("rayon") or c.name.startswith("par_") or c.name == "into_par_iter":
        return "rayon-" + (kind or "?")
    return kind


class Flow:
    __slots__ = ("body", "src_block", "src", "src_kind", "chain", "consumer", "cons_block", "sinks", "verdict", "why", "listing")

    def __init__(self):
        self.chain = []
        self.sinks = []
        self.verdict = None
        self.why = ""
        self.listing = False

    def key(self):
        return "%s|%s|%s" % (self.body.path, self.src_kind, self.verdict)


def _source_of(t, depth=0):
    """walk down the receiver chain of an iterator term to the source call; returns (src call term, [adapter names])"""
    chain = []
    n = 0
    while n < 80:
        n += 1
        k = t[0]
        if k in ("ref", "deref", "cast", "promoted"):
            t = t[1]
        elif k == "var":
            t = t[3]
        elif k == "phi" and len(t[1]) >= 1:
            t = t[1][0]
        elif k == "field" and t[1][0] == "downcast":
            t = t[1][1]
        elif k == "call":
            nme = callee_name(t)
            c = t[4]
            if c is not None and nme in ITER_FNS and container_kind(c) is not None and not (nme in ("into_iter", "iter") and _inner_is_iter(t)):
                return t, chain
            if nme in ADAPTERS and t[2]:
                chain.append(nme)
                t = t[2][0]
            else:
                return t, chain
        else:
            return t, chain
    return t, chain


def _inner_is_iter(t):
    """into_iter(x) where x is itself an iterator-producing call (identity into_iter on an iterator)"""
    a = t[2][0] if t[2] else None
    if a is None:
        return False
    while a[0] in ("ref", "deref", "var"):
        a = a[3] if a[0] == "var" else a[1]
    return a[0] == "call" and (callee_name(a) in ITER_FNS or callee_name(a) in (ADAPTERS - {"deref", "as_ref", "unwrap", "expect", "branch"}))


def outer_mutations(facts, body, blocks, cfg):
    """calls inside `blocks` of body that take &mut of a variable defined outside the blocks, or of an
    upvar / self field: [(block, Term, receiver description, callee name)]"""
    du = du_of(body)
    out = []
    inside = set(blocks)
    for bi in blocks:
        blk = body.blocks[bi]
        t = blk.term
        if t.kind != "call" or t.callee is None:
            continue
        for i, a in enumerate(t.args):
            if a.place is None:
                continue
            ty = body.local_ty(a.place.local) if not a.place.proj else ""
            if not ty.startswith("&mut "):
                continue
            at = du.operand_term(a, 12)
            root = None
            for x in walk(at):
                if x[0] == "var":
                    # defined outside the loop body?
                    ds = du.defs.get(x[1], [])
                    if ds and all(d.block not in inside for d in ds):
                        root = "outer variable `%s`" % x[2]
                        break
                    if ds and any(d.block not in inside for d in ds):
                        root = "outer variable `%s`" % x[2]
                        break
                elif x[0] == "upvar":
                    root = "captured `%s`" % x[2]
                    break
                elif x[0] == "param":
                    root = "parameter `%s`" % x[2]
                    break
            if root:
                out.append((bi, t, root, t.callee.name, at))
    return out


def classify_mutation(t, recv_term, body):
    """'keyed' (order-insensitive keyed insert), 'commutative', or 'positional' """
    c = t.callee
    n = c.name
    s = " ".join([c.path, c.self_ty or "", c.impl_self or ""])
    if n in ("insert", "entry", "or_insert_with", "or_insert", "remove", "put", "get_or_insert_with") and any(k in s for k in KEYED_TYPES + ("lru::LruCache",)):
        return "keyed"
    if n in ("lock", "deref_mut", "deref", "as_mut", "get_mut", "borrow_mut", "next", "iter_mut", "by_ref"):
        return "access"
    return "positional"


def find_flows(facts, only_unordered=True):
    """all (source -> consumer) iteration flows of the crate"""
    cg = cg_of(facts)
    flows = []
    from .roles import roles_of
    lb_ = roles_of(facts).body("lister")
    _LISTER[0] = lb_.path if lb_ is not None else None
    for body in facts.repo_bodies():
        du = du_of(body)
        cfg = cfg_of(body)
        for bi, t in body.calls():
            c = t.callee
            if c is None or c.name not in CONSUMERS or not t.args:
                continue
            if c.name == "next" and not (c.trait and "Iterator" in c.trait):
                continue
            if c.name in ("len", "is_empty", "first", "last"):
                continue
            # `dest.extend(iterator)`: the iteration is the second argument
            at = du.operand_term(t.args[1] if (c.name == "extend" and len(t.args) >= 2) else t.args[0], 30)
            src, chain = _source_of(at)
            if src[0] != "call" or src[4] is None:
                # iteration over a listing result (Vec<String> from a lister)?
                continue
            kind = container_kind(src[4])
            if kind is None:
                continue
            f = Flow()
            f.body = body
            f.src_block = src[3]
            f.src = src
            f.src_kind = kind
            f.chain = chain
            f.consumer = c.name
            f.cons_block = bi
            f.listing = _is_listing(src)
            flows.append(f)
    # dedupe: one flow per (body, source block, consumer block)
    return flows


_LISTER = [None]


def _is_listing(src):
    a = src[2][0] if src[2] else None
    if a is None:
        return False
    def listing_call(x):
        c = x[4]
        if c is None:
            return False
        if c.trait == "adapter::Adapter" and c.name == "list_objects":
            return True
        if _LISTER[0] is not None and c.target() == _LISTER[0]:
            return True     # the pass-through wrapper around the adapter listing, found by role
        # pass-through wrapper around the adapter listing (DataStorage): returns Result<Vec<String>>
        return c.impl_self == "datastorage::DataStorage" and "Vec<std::string::String>" in (x[4].j.get("ret", "") or "") or \
            (c.impl_self == "datastorage::DataStorage" and c.name.startswith("list"))
    return any(x[0] == "call" and listing_call(x) for x in walk(a))


def loop_body_blocks(body, next_block):
    """blocks executed per iteration of the `for` loop driven by the next() call in next_block"""
    cfg = cfg_of(body)
    t = body.blocks[next_block].term
    tgt = t.j["target"]
    if tgt is None:
        return set()
    sw = body.blocks[tgt]
    if sw.term.kind != "switch":
        return set()
    some_edge = None
    for k, (v, to) in enumerate(sw.term.switch_edges()):
        if v == 1:
            some_edge = cfg.edge_nodes[(tgt, k)]
    if some_edge is None:
        return set()
    cand = cfg.reachable_blocks(some_edge, avoid={next_block})
    # the body proper: blocks from which the loop header can be reached again (break / return paths are exits)
    return {x for x in cand if cfg.reaches(x, next_block)}


def early_exits(body, next_block, blocks):
    """blocks inside the loop body from which control leaves the loop without going back to next()"""
    cfg = cfg_of(body)
    out = []
    for b in blocks:
        for s in cfg.block_succs(b):
            if s not in blocks and s != next_block and body.blocks[s].term.kind != "unreachable":
                out.append((b, s))
    return out
